"""C12 -- token value, raw text and lexer agree (writer/reader tables vs the grammar)."""
from __future__ import annotations

import ast
import os
import re
from typing import Any, Optional

from .. import rx
from ..model import AnalysisError, ClassInfo, Const, CustomProp, FuncInfo, Program, dotted, norm, self_attr, walk_no_nested
from ..report import RuleContext

EXPLANATION = (
    'Static analysis of the token classes against beancount.lark (grammar parsed by lark\'s loader, regexes turned into NFAs '
    'with re._parser; language inclusion by subset construction with counter-example words). Decides: LINESPLIT (the line '
    'splitter of BlockComment breaks exactly at the grammar\'s _NEWLINE: no break character may occur inside a comment line and '
    'every _NEWLINE lexeme is one break), LENS (for prefix/suffix token formats _parse_value removes exactly what _format_value '
    'adds, and the prefix/suffix are those of the terminal), FMT-LANG (the output language of _format_value for typed values is '
    'included in the terminal\'s language: strftime directives and format specs through a frozen table), ESC-TABLE (escape '
    'patterns only match keys of the escape map, the default pattern covers quote and backslash, escape images are distinct and '
    'the unescape map is the inverse), DEFAULT-LIT (every DEFAULT constant is in its terminal\'s language), BOOL-TABLE (Bool keys '
    '= alternatives of BOOL, str(bool).upper() maps into them), REG-RULE (every registered token class names a terminal of the '
    'grammar). It does NOT decide from_value(v).value == v for arbitrary v, number value domains, or single-token lexing.')

SPLITLINES_BREAKS = ['\n', '\r', '\x0b', '\x0c', '\x1c', '\x1d', '\x1e', '\x85', ' ', ' ']   # str.splitlines (frozen table)
STRFTIME = {   # output languages on this platform (glibc does not zero-pad %Y below 1000)
    'Y': '[0-9]{1,4}', 'm': '(?:0[1-9]|1[0-2])', 'd': '(?:0[1-9]|[12][0-9]|3[01])', '%': '%',
}
DATE_ATTR_RANGE = {'year': 4, 'month': 2, 'day': 2}    # max digits of datetime.date attributes


def grammar(p: Program) -> rx.Grammar:
    path = os.path.join(p.root, 'beancount.lark')
    if not os.path.exists(path):
        raise AnalysisError('beancount.lark vanished')
    return rx.Grammar(path)


def _esc(s: str) -> str:
    return re.escape(s)


def rule_linesplit(ctx: RuleContext, p: Program, g: rx.Grammar, rid: str) -> None:
    ctx.rule(rid, 'the line splitter used by BlockComment._parse_value/_format_value breaks exactly where the grammar does: '
                  '(a) no break character of the splitter can occur inside an INLINE_COMMENT line, (b) every _NEWLINE lexeme is '
                  'exactly one break at its end')
    bc = p.cls('BlockComment', 'models.block_comment')
    pv = p.method(bc, '_parse_value', inherited=False)
    fv = p.method(bc, '_format_value', inherited=False)
    splitters = set()
    for f in (pv, fv):
        for c in walk_no_nested(f.node):
            if isinstance(c, ast.Call) and isinstance(c.func, ast.Name) and c.func.id in f.module.symbols \
                    and isinstance(f.module.symbols[c.func.id], FuncInfo) and 'split' in c.func.id:
                splitters.add(c.func.id)
    if len(splitters) != 1:
        raise AnalysisError(f'LINESPLIT: expected one shared line splitter in block_comment.py, found {sorted(splitters)}')
    sp = bc.module.symbols[splitters.pop()]
    assert isinstance(sp, FuncInfo)
    breaks: Optional[list[str]] = None
    how = ''
    for c in walk_no_nested(sp.node):
        if isinstance(c, ast.Call) and isinstance(c.func, ast.Attribute):
            if c.func.attr == 'splitlines':
                breaks, how = SPLITLINES_BREAKS, 'str.splitlines'
            elif c.func.attr in ('split', 'partition') and len(c.args) == 1 and isinstance(c.args[0], ast.Constant) \
                    and isinstance(c.args[0].value, str) and not (dotted(c.func.value) or '').startswith('re'):
                breaks, how = [c.args[0].value], f"str.{c.func.attr}({c.args[0].value!r})"
    if breaks is None:
        raise AnalysisError(f'LINESPLIT: splitting primitive of {sp.name} not recognised')
    site = f'models.block_comment:{sp.name}'
    # (a) break characters inside a line body
    line = g.terminal_nfa('INLINE_COMMENT')
    bad = []
    for b in breaks:
        if len(b) == 1:
            w = rx.some_word_containing(line, ord(b))
            if w is not None:
                bad.append((b, w))
    ctx.check(not bad, rid, site, f'{how}: break characters inside a comment line',
              f'{how} also breaks at {[repr(b) for b, _ in bad]}, which the grammar allows inside a comment line '
              f'(e.g. lexeme {bad[0][1]!r} is one BLOCK_COMMENT line but is split in two; the second part has no ";" and '
              f'_parse_value raises)' if bad else '', sp.where, note=f'{how}: no break character can occur in INLINE_COMMENT')
    # (b) every _NEWLINE is exactly one break at its end
    single = [b for b in breaks if len(b) == 1]
    cls_ = ''.join(_esc(b) for b in single)
    if how == 'str.splitlines':
        one_break = r'(?:\r\n|[' + cls_ + '])'
    else:
        one_break = '(?:' + '|'.join(_esc(b) for b in breaks) + ')'
    lang = rx.from_regex(f'[^{cls_}]*{one_break}', re.S)
    nl = g.terminal_nfa('_NEWLINE')
    ok, w = rx.included(nl, lang)
    ctx.check(ok, rid, site, f'{how}: one break per _NEWLINE',
              f'the grammar newline {g.terminals["_NEWLINE"].pattern.to_regexp()!r} includes {w!r}, which {how} treats as more than '
              f'one line break (an empty "line" without ";" appears and _parse_value raises)', sp.where,
              note=f'L(_NEWLINE) is included in [^breaks]*<one break>')


def rule_bc_spaced(ctx: RuleContext, p: Program, g: rx.Grammar, rid: str) -> None:
    ctx.rule(rid, 'BlockComment: writer and reader agree on what an empty comment line is: _format_value inserts the space after ";" '
                  'exactly for lines that are non-empty after stripping a set of line-end characters, and _parse_value exempts exactly '
                  'the lines that are empty after stripping the *same* set from the leading-space requirement; that set covers the '
                  'characters of the grammar\'s _NEWLINE')
    bc = p.cls('BlockComment', 'models.block_comment')
    fv = p.method(bc, '_format_value', inherited=False)
    pv = p.method(bc, '_parse_value', inherited=False)

    def strip_sets(fn: FuncInfo) -> list[tuple[str, str, bool]]:
        out = []
        for c in walk_no_nested(fn.node):
            if isinstance(c, ast.Call) and isinstance(c.func, ast.Attribute) and c.func.attr in ('rstrip', 'strip') \
                    and len(c.args) == 1 and isinstance(c.args[0], ast.Constant) and isinstance(c.args[0].value, str):
                out.append((norm(c.func.value), ''.join(sorted(set(c.args[0].value))), True))
        return out

    wf, rf = strip_sets(fv), strip_sets(pv)
    nl_chars = ''.join(sorted({chr(cp) for a, b in rx.accepted_chars(g.terminal_nfa('_NEWLINE')) for cp in range(a, b + 1)}))
    if len(wf) != 1 or len(rf) != 1:
        ctx.not_decided.append('BC-SPACED: the empty-line tests are not one literal strip set on each side; decided by evaluation (BC-RT)')
        return
    ok = wf[0][1] == rf[0][1] and set(nl_chars) <= set(wf[0][1])
    ctx.check(ok, rid, 'models.block_comment:BlockComment._parse_value / _format_value', f'writer strips {[x[1] for x in wf]!r}, reader strips {[x[1] for x in rf]!r}',
              f'_format_value decides "empty line" by stripping {[x[1] for x in wf]!r} but _parse_value by stripping {[x[1] for x in rf]!r} '
              f'(newline characters of the grammar: {nl_chars!r}): a line that is empty for one side and not for the other (e.g. ";\\r\\n") makes '
              f'the value lex back with or without its leading spaces', pv.where, note=f'both strip {wf[0][1]!r}' if wf else '')


def _fstring_parts(e: ast.AST) -> Optional[list[tuple[str, str]]]:
    """a text-building expression -> [('lit', text) | ('val', 'expr|spec')]: f-strings, + concatenation, 'sep'.join((..)), format(e, 'spec'),
    str(e), '{:spec}'.format(e)"""
    if isinstance(e, ast.Constant) and isinstance(e.value, str):
        return [('lit', e.value)]
    if isinstance(e, ast.JoinedStr):
        out: list[tuple[str, str]] = []
        for v in e.values:
            if isinstance(v, ast.Constant):
                out.append(('lit', str(v.value)))
            elif isinstance(v, ast.FormattedValue):
                spec = ''
                if v.format_spec is not None:
                    sp = _fstring_parts(v.format_spec)
                    spec = ''.join(t for k, t in sp or [] if k == 'lit')
                out.append(('val', norm(v.value) + ('|' + spec if spec else '')))
        return out
    if isinstance(e, ast.BinOp) and isinstance(e.op, ast.Add):
        l, r = _fstring_parts(e.left), _fstring_parts(e.right)
        return None if l is None or r is None else l + r
    if isinstance(e, ast.Call) and isinstance(e.func, ast.Attribute) and e.func.attr == 'join' and isinstance(e.func.value, ast.Constant) \
            and isinstance(e.func.value.value, str) and len(e.args) == 1 and isinstance(e.args[0], (ast.Tuple, ast.List)):
        out = []
        for i, x in enumerate(e.args[0].elts):
            px = _fstring_parts(x)
            if px is None:
                return None
            if i:
                out.append(('lit', e.func.value.value))
            out.extend(px)
        return out
    if isinstance(e, ast.Call) and norm(e.func) == 'format' and len(e.args) in (1, 2) and not e.keywords:
        spec = e.args[1].value if len(e.args) == 2 and isinstance(e.args[1], ast.Constant) and isinstance(e.args[1].value, str) else ('' if len(e.args) == 1 else None)
        if spec is None:
            return None
        return [('val', norm(e.args[0]) + ('|' + spec if spec else ''))]
    if isinstance(e, ast.Call) and norm(e.func) == 'str' and len(e.args) == 1:
        return [('val', norm(e.args[0]))]
    return None


def _affixes(fmt: FuncInfo) -> Optional[tuple[str, str, str]]:
    """(prefix, suffix, middle expr) of `return f'<prefix>{expr}<suffix>'` (the non-degenerate branch of a conditional)."""
    rets = [r.value for r in walk_no_nested(fmt.node) if isinstance(r, ast.Return)]
    if len(rets) != 1:
        return None
    e = rets[0]
    if isinstance(e, ast.IfExp):
        e = e.body
    parts = _fstring_parts(e) if e is not None else None
    if not parts:
        return None
    vals = [i for i, (k, _) in enumerate(parts) if k == 'val']
    if len(vals) != 1:
        return None
    i = vals[0]
    return ''.join(t for k, t in parts[:i]), ''.join(t for k, t in parts[i + 1:]), parts[i][1]


def _strip_ops(parse: FuncInfo) -> Optional[list[tuple[str, object]]]:
    """how _parse_value peels the raw text: [('slice', (a, b)) | ('removeprefix', lit) | ('lstrip', chars) ...] outermost last"""
    rets = [r.value for r in walk_no_nested(parse.node) if isinstance(r, ast.Return)]
    if len(rets) != 1 or rets[0] is None:
        return None
    raw = parse.params[1]
    ops: list[tuple[str, object]] = []
    e: ast.AST = rets[0]
    while True:
        if isinstance(e, ast.Name) and e.id == raw:
            return list(reversed(ops))
        if isinstance(e, ast.Subscript) and isinstance(e.slice, ast.Slice) and e.slice.step is None:
            lo = e.slice.lower.value if isinstance(e.slice.lower, ast.Constant) else (0 if e.slice.lower is None else None)
            hi_n = e.slice.upper
            hi: object = 0 if hi_n is None else (hi_n.operand.value if isinstance(hi_n, ast.UnaryOp) and isinstance(hi_n.op, ast.USub)
                                                  and isinstance(hi_n.operand, ast.Constant) else None)
            if lo is None or hi is None:
                return None
            ops.append(('slice', (lo, hi)))
            e = e.value
            continue
        if isinstance(e, ast.Call) and isinstance(e.func, ast.Attribute) and e.func.attr in (
                'removeprefix', 'removesuffix', 'lstrip', 'rstrip', 'strip') and len(e.args) <= 1:
            arg = e.args[0].value if e.args and isinstance(e.args[0], ast.Constant) else None
            ops.append((e.func.attr, arg))
            e = e.func.value
            continue
        if isinstance(e, ast.Call) and len(e.args) == 1 and (dotted(e.func) or '').startswith('cls.'):
            ops.append(('call', dotted(e.func)))
            e = e.args[0]
            continue
        return None


def rule_lens(ctx: RuleContext, p: Program, g: rx.Grammar, rid: str) -> None:
    ctx.rule(rid, 'for token classes whose _format_value is <prefix> + f(value) + <suffix>: _parse_value removes exactly that '
                  'prefix and suffix (nothing more), and the terminal\'s language starts/ends with them')
    n = delegated = 0
    for c in p.registered('token_model'):
        fmt = c.attrs.get('_format_value')
        prs = c.attrs.get('_parse_value')
        if not isinstance(fmt, FuncInfo) or not isinstance(prs, FuncInfo) or len(fmt.params) != 2:
            continue
        aff = _affixes(fmt)
        if aff is None:
            ann = norm(fmt.node.args.args[1].annotation) if fmt.node.args.args[1].annotation else ''
            if ann == 'str' and c.name not in ('EscapedString', 'BlockComment'):
                delegated += 1            # not of the one-f-string shape: TOK-RT evaluates this pair on concrete texts instead
            continue
        if aff[0] == '' and aff[1] == '':
            continue
        prefix, suffix, mid = aff
        ops = _strip_ops(prs)
        n += 1
        site = f'{c.module.name.split(".", 1)[1]}:{c.name}'
        if ops is None:
            ann = norm(fmt.node.args.args[1].annotation) if fmt.node.args.args[1].annotation else ''
            if ann == 'str' and c.name not in ('EscapedString', 'BlockComment'):
                n -= 1
                delegated += 1            # the reader is not a chain of slices / strip calls: TOK-RT evaluates the pair on concrete texts instead
                continue
            raise AnalysisError(f'LENS: {site}._parse_value peels the raw text in an unrecognised way')
        removed_pre, removed_suf = '', ''
        problems: list[str] = []
        for kind, arg in ops:
            if kind == 'slice':
                lo, hi = arg  # type: ignore[misc]
                if lo != len(prefix) - len(removed_pre):
                    problems.append(f'slices off {lo} leading character(s) but the prefix {prefix!r} has {len(prefix)}')
                if hi != len(suffix) - len(removed_suf):
                    problems.append(f'slices off {hi} trailing character(s) but the suffix {suffix!r} has {len(suffix)}')
                removed_pre, removed_suf = prefix, suffix
            elif kind == 'removeprefix':
                if not prefix[len(removed_pre):].startswith(str(arg)):
                    problems.append(f'removeprefix({arg!r}) does not match the added prefix {prefix!r}')
                removed_pre += str(arg)
            elif kind == 'removesuffix':
                removed_suf = str(arg) + removed_suf
            elif kind in ('lstrip', 'strip'):
                rest = prefix[len(removed_pre):]
                chars = str(arg) if arg is not None else ' \t\n\r\x0b\x0c'
                if all(ch in chars for ch in rest):
                    removed_pre = prefix
                    problems.append(f'{kind}({arg!r}) removes *every* leading {chars!r} while _format_value adds exactly '
                                    f'{rest!r}: a value that itself starts with {chars[0]!r} does not survive '
                                    f'(format({chars[0] + "x"!r}) = {prefix + chars[0] + "x"!r} parses back as {"x"!r})')
                else:
                    problems.append(f'{kind}({arg!r}) does not remove the rest of the prefix {rest!r}')
        if not problems:
            if removed_pre != prefix:
                problems.append(f'_parse_value removes prefix {removed_pre!r}, _format_value adds {prefix!r}')
            if removed_suf != suffix:
                problems.append(f'_parse_value removes suffix {removed_suf!r}, _format_value adds {suffix!r}')
        # terminal agreement
        rule = p.class_const(c, 'RULE')
        tname = rule.value if isinstance(rule, ast.Constant) else None
        if tname in g.terminals:
            t = g.terminal_nfa(tname)
            pre_ok, w = rx.included(t, rx.from_regex(f'{_esc(prefix.rstrip(" "))}.*{_esc(suffix)}', re.S))
            if not pre_ok:
                problems.append(f'terminal {tname} admits {w!r}, which does not have the prefix/suffix {prefix.rstrip(" ")!r}/{suffix!r}')
        for pr in problems or ['']:
            ctx.check(not pr, rid, site, pr.split(':')[0] if pr else f'prefix {prefix!r} suffix {suffix!r}', pr, prs.where,
                      note=f'adds and removes prefix {prefix!r} / suffix {suffix!r}')
    if n + delegated < 5:
        raise AnalysisError(f'LENS: only {n} prefix/suffix token classes found (5 confirmed by hand)')


def _format_language(c: ClassInfo, fmt: FuncInfo) -> Optional[tuple[str, str]]:
    """regex of the strings _format_value can produce for a typed (non-string) value, with a description"""
    rets = [r.value for r in walk_no_nested(fmt.node) if isinstance(r, ast.Return)]
    if len(rets) != 1 or rets[0] is None:
        return None
    e = rets[0]
    v = fmt.params[1]
    if isinstance(e, ast.Call) and isinstance(e.func, ast.Attribute) and e.func.attr == 'strftime' and norm(e.func.value) == v \
            and e.args and isinstance(e.args[0], ast.Constant):
        out, f, i = '', e.args[0].value, 0
        while i < len(f):
            if f[i] == '%' and i + 1 < len(f):
                d = f[i + 1]
                if d not in STRFTIME:
                    raise AnalysisError(f'FMT-LANG: strftime directive %{d} not in the frozen table')
                out += STRFTIME[d]
                i += 2
            else:
                out += _esc(f[i])
                i += 1
        return out, f'strftime({f!r})'
    parts = _fstring_parts(e)
    ann = norm(fmt.node.args.args[1].annotation) if fmt.node.args.args[1].annotation else ''
    if ann in ('datetime.date', 'date'):
        # frozen table of the datetime module.  A datetime.datetime IS a datetime.date (subclass), so a formatter typed for dates receives
        # it too: isoformat() / str() of it carry the time of day, the attribute-wise spellings and strftime do not
        day = '[0-9]{4}-[0-9]{2}-[0-9]{2}'
        clock = '[0-9]{2}:[0-9]{2}:[0-9]{2}(?:\\.[0-9]{6})?(?:[+-][0-9]{2}:[0-9]{2}(?::[0-9]{2}(?:\\.[0-9]{6})?)?)?'
        n0 = norm(e)
        if n0 == f'{v}.isoformat()':
            return f'{day}(?:T{clock})?', f'{n0}: isoformat() of a date or of a datetime (which is a date)'
        if n0 in (f'str({v})', f'format({v})') or parts == [('val', v)]:
            return f'{day}(?: {clock})?', f'{n0}: str() of a date or of a datetime (which is a date)'
    if ann == 'decimal.Decimal':
        # frozen table of the decimal module: str() / repr-free '{}' use scientific notation when the exponent is positive or the
        # adjusted exponent is below -6; the 'f' presentation type never does.  Domain: finite, non-negative (the sign is an operator node).
        fixed = '[0-9]+(?:\\.[0-9]+)?'
        sci = fixed + '(?:E[+-]?[0-9]+)?'
        n = norm(e)
        if n in (f'str({v})', f"format({v})", f"format({v}, '')") or (parts == [('val', v)]):
            return sci, f'{n}: str() of a Decimal'
        if n in (f"format({v}, 'f')", f"'{{:f}}'.format({v})", f"'{{0:f}}'.format({v})", f"{v}.__format__('f')") or parts == [('val', v + '|f')]:
            return fixed, f'{n}: fixed-point notation'
    if parts and any(k == 'val' for k, _ in parts):
        out = ''
        for k, t in parts:
            if k == 'lit':
                out += _esc(t)
                continue
            expr, _, spec = t.partition('|')
            if expr.startswith(v + '.') and expr.split('.', 1)[1] in DATE_ATTR_RANGE:
                digits = DATE_ATTR_RANGE[expr.split('.', 1)[1]]
                m = re.fullmatch(r'0(\d+)d', spec)
                if m:
                    w = int(m.group(1))
                    out += f'[0-9]{{{w},{max(w, digits)}}}'
                elif spec in ('', 'd'):
                    out += f'[0-9]{{1,{digits}}}'
                else:
                    return None
            else:
                return None
        return out, f'f-string {norm(e)}'
    if norm(e) == f'str({v}).upper()' :
        return '(?:TRUE|FALSE)', 'str(bool).upper()'
    return None


def rule_fmt_lang(ctx: RuleContext, p: Program, g: rx.Grammar, rid: str) -> None:
    ctx.rule(rid, 'the set of strings _format_value can produce for every value of a typed domain (date, bool, non-negative finite decimal) is included in '
                  'the language of the class\'s terminal')
    n = 0
    for c in p.registered('token_model'):
        fmt = c.attrs.get('_format_value')
        if not isinstance(fmt, FuncInfo) or len(fmt.params) != 2:
            continue
        ann = norm(fmt.node.args.args[1].annotation) if fmt.node.args.args[1].annotation else ''
        if ann in ('str', ''):
            continue     # string domains are not visible in the code shape (see not_decided)
        lang = _format_language(c, fmt)
        rule = p.class_const(c, 'RULE')
        tname = rule.value if isinstance(rule, ast.Constant) else None
        site = f'{c.module.name.split(".", 1)[1]}:{c.name}._format_value'
        if lang is None and ann == 'decimal.Decimal' and tname in g.terminals:
            # a formatter whose shape gives no regular output language (a branch on the value's exponent, a helper): NUM-RT evaluates it instead
            n += 1
            ctx.ok(rid, site, note='output language not derivable from the shape of the formatter: decided by evaluation (NUM-RT)', nontrivial=False)
            continue
        if lang is None or tname not in g.terminals:
            raise AnalysisError(f'FMT-LANG: cannot derive the output language of {site} ({ann})')
        n += 1
        t = g.terminal_nfa(tname)
        if t.approx:
            raise AnalysisError(f'FMT-LANG: terminal {tname} has assertions; inclusion would be unsound')
        ok, w = rx.included(rx.from_regex(lang[0]), t)
        ctx.check(ok, rid, site, f'{lang[1]} -> /{lang[0]}/ vs {tname}',
                  f'{lang[1]} can produce {w!r}, which is not a {tname} ({g.terminals[tname].pattern.to_regexp()!r}); '
                  + ('str() of a Decimal switches to scientific notation for a positive exponent or an adjusted exponent below -6 '
                     '(Decimal("0.0000001") -> "1E-7", Decimal("100.00").normalize() -> "1E+2"), so such a number does not lex back'
                     if ann == 'decimal.Decimal' else
                     'a datetime.datetime is a datetime.date and is formatted with its time of day, so such a value does not lex back as one DATE'
                     if w and ('T' in w or ' ' in w or ':' in w) else
                     'e.g. years below 1000 are not zero-padded by %Y on this platform, so such a date does not lex back'), fmt.where,
                  note=f'/{lang[0]}/ included in {tname}')
    if n < 3:
        raise AnalysisError(f'FMT-LANG: only {n} typed formatters found (Date, Bool, Number confirmed)')


def rule_esc_table(ctx: RuleContext, p: Program, g: rx.Grammar, rid: str) -> None:
    ctx.rule(rid, 'EscapedString: every character the escape patterns can match is a key of the escape map; the default '
                  'pattern covers quote and backslash; escape images are pairwise distinct; the unescape map is the inverse '
                  'comprehension of the escape map; quotes added by _format_value are removed by _parse_value')
    c = p.cls('EscapedString', 'models.escaped_string')
    consts = {k.split('__')[-1]: v.node for k, v in c.attrs.items() if isinstance(v, Const)}
    em = consts.get('ESCAPE_MAP')
    if not isinstance(em, ast.Dict) or not all(isinstance(k, ast.Constant) and isinstance(v, ast.Constant) for k, v in zip(em.keys, em.values)):
        raise AnalysisError('ESC-TABLE: __ESCAPE_MAP is not a literal dict')
    table = {k.value: v.value for k, v in zip(em.keys, em.values)}  # type: ignore[union-attr]
    site = 'models.escaped_string:EscapedString'
    ctx.check(len(set(table.values())) == len(table), rid, site + ': images distinct', f'{sorted(table.values())}',
              f'two characters share one escape image in {table}: unescape cannot be a function', c.where, note=f'{len(table)} distinct images')
    ctx.check('"' in table and '\\' in table, rid, site + ': quote and backslash', 'covered',
              'the escape map lacks the quote or the backslash', c.where)
    pat = consts.get('ESCAPE_PATTERN')
    if not (isinstance(pat, ast.Call) and norm(pat.func) == 're.compile' and isinstance(pat.args[0], ast.Constant)):
        raise AnalysisError('ESC-TABLE: __ESCAPE_PATTERN is not re.compile(<literal>)')
    n = rx.from_regex(pat.args[0].value)
    chars = rx.accepted_chars(n)
    matched = {chr(cp) for a, b in chars for cp in range(a, min(b, a + 64) + 1)}
    ctx.check(matched <= set(table) and {'"', '\\'} <= matched, rid, site + ': default pattern', f'{sorted(matched)}',
              f'the default escape pattern matches {sorted(matched - set(table))} which are not keys of the escape map (KeyError), '
              f'or misses quote/backslash', c.where, note=f'matches {sorted(matched)}')
    ag = consts.get('ESCAPE_PATTERN_AGGRESSIVE')
    ok = isinstance(ag, ast.Call) and 'ESCAPE_MAP.keys()' in norm(ag) and 're.escape' in norm(ag)
    ctx.check(ok, rid, site + ': aggressive pattern', norm(ag)[:100] if ag else '',
              'the aggressive pattern is not built from the keys of the escape map', c.where, note='alternation of re.escape(key)')
    um = consts.get('UNESCAPE_MAP')
    ok = isinstance(um, ast.DictComp) and norm(um.key) == norm(um.generators[0].target.elts[1]) \
        and norm(um.value) == norm(um.generators[0].target.elts[0]) and 'ESCAPE_MAP.items()' in norm(um.generators[0].iter)  # type: ignore[union-attr]
    ctx.check(ok, rid, site + ': unescape map', norm(um)[:100] if um else '', 'the unescape map is not the inverse of the escape map',
              c.where, note='{image: char for char, image in ESCAPE_MAP.items()}')
    # escape() / unescape(): the replacement callable handed to re.sub, interpreted on a mock match for every image, every key and an
    # unrelated character
    for fn_name, direction in (('escape', 'esc'), ('unescape', 'unesc')):
        fn = p.method(c, fn_name, inherited=False)
        problem = _esc_callable_sem(p, c, fn, table, direction)
        ctx.check(not problem, rid, f'{site}.{fn_name}', 'replacement callable agrees with the map' if not problem else problem,
                  f'{fn_name}(): {problem}', fn.where, note='interpreted for every key / image and an unrelated character')
        # every result is the substitution over the WHOLE string: the input may be returned as it is only under a test that no
        # character anywhere in it matches (`not <pattern>.search(s)`); .match / .fullmatch look at the start / the whole only
        sparam = fn.params[1] if len(fn.params) > 1 else None
        early = None
        for r in walk_no_nested(fn.node):
            if not (isinstance(r, ast.Return) and r.value is not None):
                continue
            if any(isinstance(x, ast.Call) and norm(x.func) == 're.sub' for x in ast.walk(r.value)):
                continue
            if isinstance(r.value, ast.Name) and r.value.id == sparam:
                # find the guarding test
                guard = None
                for i in walk_no_nested(fn.node):
                    if isinstance(i, ast.If) and any(x is r for b in i.body for x in ast.walk(b)):
                        guard = i.test
                conj = guard.values if isinstance(guard, ast.BoolOp) and isinstance(guard.op, ast.And) else ([guard] if guard is not None else [])
                ok_guard = any(isinstance(g, ast.UnaryOp) and isinstance(g.op, ast.Not) and isinstance(g.operand, ast.Call)
                               and isinstance(g.operand.func, ast.Attribute) and g.operand.func.attr == 'search'
                               and g.operand.args and norm(g.operand.args[-1]) == sparam for g in conj) or \
                    any(isinstance(g, ast.Compare) and len(g.ops) == 1 and isinstance(g.ops[0], ast.Is) and isinstance(g.left, ast.Call)
                        and isinstance(g.left.func, ast.Attribute) and g.left.func.attr == 'search' and norm(g.comparators[0]) == 'None' for g in conj)
                if not ok_guard:
                    early = f'returns `{sparam}` unchanged under `{norm(guard)[:70] if guard is not None else "no test"}`'
            else:
                early = f'returns `{norm(r.value)[:50]}` without substituting'
        ctx.check(early is None, rid, f'{site}.{fn_name}: whole string', 'every result is re.sub over the whole string' if early is None else early,
                  f'{fn_name}() {early}: only `not <pattern>.search(s)` says that nothing in the string needs the substitution (match() looks at the '
                  f'first character only), so a quote or backslash further in is written out bare and the text no longer lexes as one string',
                  fn.where)


def _esc_callable_sem(p: Program, c: ClassInfo, fn: FuncInfo, table: dict, direction: str) -> str:
    from . import possem
    from .tokenstore import TS
    subs = [x for x in ast.walk(fn.node) if isinstance(x, ast.Call) and norm(x.func) == 're.sub' and len(x.args) >= 3]
    if len(subs) != 1:
        return 'does not make exactly one re.sub(pattern, replacement, s) call'
    repl = subs[0].args[1]
    inv = {v: k for k, v in table.items()}

    class Interp(possem.PosInterp):
        tag = 'ESC-TABLE'

        def expr(self, e: Any, env: dict) -> Any:                 # type: ignore[override]
            if isinstance(e, ast.Attribute) and isinstance(e.value, ast.Name) and e.value.id in ('cls', c.name):
                if e.attr.endswith('UNESCAPE_MAP'):
                    return dict(inv)
                if e.attr.endswith('ESCAPE_MAP'):
                    return dict(table)
            if isinstance(e, ast.Call) and isinstance(e.func, ast.Attribute) and e.func.attr == 'group':
                b = self.expr(e.func.value, env)
                if isinstance(b, possem.Obj) and b.cls == 'Match':
                    a = [self.expr(x, env) for x in e.args] or [0]
                    return b.f['groups'][a[0]]
            if isinstance(e, ast.Subscript) and not isinstance(e.slice, ast.Slice):
                b = self.expr(e.value, env)
                if isinstance(b, possem.Obj) and b.cls == 'Match':
                    return b.f['groups'][self.expr(e.slice, env)]
                if isinstance(b, dict):
                    k = self.expr(e.slice, env)
                    if k not in b:
                        raise possem.Raised('KeyError')
                    return b[k]
            if isinstance(e, ast.BinOp) and isinstance(e.op, ast.Add):
                l, r = self.expr(e.left, env), self.expr(e.right, env)
                if isinstance(l, str) and isinstance(r, str):
                    return l + r
            if isinstance(e, ast.JoinedStr):
                out = ''
                for v in e.values:
                    out += str(v.value) if isinstance(v, ast.Constant) else str(self.expr(v.value, env))
                return out
            return super().expr(e, env)

    ts = TS(p)
    local_defs = {d.name: d for d in ast.walk(fn.node) if isinstance(d, ast.FunctionDef) and d is not fn.node}
    chars = sorted(set(table) | set(table.values()) | {'x'})
    for ch in chars:
        if direction == 'esc' and ch not in table:
            continue              # escape() is only called on what the pattern matched (ESC-TABLE: default pattern subset of keys)
        it = Interp(ts, [], module=c.module)
        match = possem.Obj('Match', {'groups': {0: ch if direction == 'esc' else '\\' + ch, 1: ch}}, f'match {ch!r}')
        try:
            if isinstance(repl, ast.Lambda):
                outer_l: dict = {}
                for st_ in fn.node.body:
                    if isinstance(st_, ast.Assign) and len(st_.targets) == 1 and isinstance(st_.targets[0], ast.Name):
                        try:
                            outer_l[st_.targets[0].id] = it.expr(st_.value, outer_l)
                        except AnalysisError:
                            pass
                got = it.call_value(possem._Lambda(repl, outer_l), [match], {}, repl)
            elif isinstance(repl, ast.Name) and repl.id in local_defs:
                d = local_defs[repl.id]
                outer: dict = {}
                for st_ in fn.node.body:          # locals of the enclosing function the nested one closes over (aliases of the tables)
                    if isinstance(st_, ast.Assign) and len(st_.targets) == 1 and isinstance(st_.targets[0], ast.Name):
                        try:
                            outer[st_.targets[0].id] = it.expr(st_.value, outer)
                        except AnalysisError:
                            pass
                en = dict(outer)
                en[d.args.args[0].arg] = match
                try:
                    it.block([b for b in d.body if not (isinstance(b, ast.Expr) and isinstance(b.value, ast.Constant))], en)
                    got = None
                except possem._Return as r:
                    got = r.v
            else:
                return f'the replacement `{norm(repl)[:50]}` is neither a lambda nor a local function'
        except possem.Raised as ex:
            return f'the replacement raises {ex} for {ch!r}'
        want = ('\\' + table[ch]) if direction == 'esc' else inv.get(ch, ch)
        if got != want:
            return f'for {ch!r} the replacement gives {got!r}, the map says {want!r}' + (' (an escaped character outside the map stands for itself)' if direction == 'unesc' and ch not in inv else '')
    return ''


def rule_default_lit(ctx: RuleContext, p: Program, g: rx.Grammar, rid: str) -> None:
    ctx.rule(rid, 'every DEFAULT constant of a token class is a lexeme of its terminal (equal to the literal for string '
                  'terminals); declared zero-width terminals default to the empty string')
    n = 0
    for c in p.registered('token_model'):
        d = p.class_const(c, 'DEFAULT')
        rule = p.class_const(c, 'RULE')
        if d is None or not isinstance(rule, ast.Constant):
            continue
        val: Optional[str] = None
        if isinstance(d, ast.Constant) and isinstance(d.value, str):
            val = d.value
        elif isinstance(d, ast.BinOp) and isinstance(d.op, ast.Mult) and isinstance(d.left, ast.Constant) and isinstance(d.right, ast.Constant):
            val = d.left.value * d.right.value
        if val is None:
            raise AnalysisError(f'DEFAULT-LIT: {c.name}.DEFAULT is not a literal')
        n += 1
        t = rule.value
        site = f'{c.module.name.split(".", 1)[1]}:{c.name}'
        if t in g.declared:
            ctx.check(val == '', rid, site, f'DEFAULT={val!r} for declared {t}', f'{c.name}.DEFAULT is {val!r} but {t} is a zero-width mark', c.where)
        elif t in g.terminals:
            lit = g.terminal_is_literal(t)
            ok = (val == lit) if lit is not None else g.terminal_nfa(t).accepts(val)
            ctx.check(ok, rid, site, f'DEFAULT={val!r} in {t}', f'{c.name}.DEFAULT = {val!r} is not a lexeme of terminal {t} '
                      f'({g.terminals[t].pattern.to_regexp()!r})', c.where, note=f'{val!r} in L({t})')
        else:
            ctx.fail(rid, site, f'RULE={t!r}', f'{c.name}.RULE = {t!r} is not a terminal of the grammar', c.where)
    if n < 25:
        raise AnalysisError(f'DEFAULT-LIT: only {n} DEFAULT constants found (>= 25 confirmed)')


def rule_bool_table(ctx: RuleContext, p: Program, g: rx.Grammar, rid: str) -> None:
    ctx.rule(rid, 'Bool._parse_value keys are exactly the alternatives of BOOL and map TRUE->True, FALSE->False')
    c = p.cls('Bool', 'models.bool')
    pv = p.method(c, '_parse_value', inherited=False)
    d = [x for x in walk_no_nested(pv.node) if isinstance(x, ast.Dict)]
    if not d:
        # the table may live in a module-level or class-level constant that the function indexes
        for nm in [x for x in walk_no_nested(pv.node) if isinstance(x, (ast.Name, ast.Attribute))]:
            sym = p.resolve_expr(pv.module, nm) if isinstance(nm, ast.Name) else (
                c.lookup(nm.attr) if isinstance(nm.value, ast.Name) and nm.value.id in ('cls', 'self') else None)
            if isinstance(sym, Const) and isinstance(sym.node, ast.Dict):
                d.append(sym.node)
    alts = g.literal_alternatives('BOOL')
    ok = False
    if len(d) == 1 and alts is not None:
        table = {k.value: v.value for k, v in zip(d[0].keys, d[0].values) if isinstance(k, ast.Constant) and isinstance(v, ast.Constant)}
        ok = sorted(table) == alts and table.get('TRUE') is True and table.get('FALSE') is False
    ctx.check(ok, rid, 'models.bool:Bool._parse_value', f'{alts}', f'Bool parse table does not match the BOOL alternatives {alts}', pv.where,
              note=f'keys {alts}')


def rule_reg_rule(ctx: RuleContext, p: Program, g: rx.Grammar, rid: str) -> None:
    ctx.rule(rid, 'every registered token class names a terminal that exists in the grammar, and no two classes register the same terminal')
    seen: dict[str, str] = {}
    for c in p.registered('token_model'):
        rule = p.class_const(c, 'RULE')
        t = rule.value if isinstance(rule, ast.Constant) else None
        ok = t in g.terminals or t in g.declared
        dup = t in seen
        ctx.check(ok and not dup, rid, f'{c.module.name.split(".", 1)[1]}:{c.name}', f'RULE={t!r}',
                  f'{c.name}.RULE = {t!r} ' + ('is already registered by ' + seen.get(t, '') if dup else 'is not a terminal of beancount.lark'),
                  c.where, note=f'{t}', nontrivial=False)
        if t:
            seen[t] = c.name


def run(ctx: RuleContext, p: Program) -> None:
    g = grammar(p)
    ctx.stats['grammar'] = {'terminals': len(g.terminals), 'declared': g.declared, 'rules': len(g.rule_defs)}
    ctx.try_rule(rule_linesplit, p, g, 'LINESPLIT')
    ctx.try_rule(rule_lens, p, g, 'LENS')
    ctx.try_rule(rule_bc_spaced, p, g, 'BC-SPACED')
    ctx.try_rule(rule_bc_rt, p, g, 'BC-RT')
    ctx.try_rule(rule_tok_rt, p, g, 'TOK-RT')
    ctx.try_rule(rule_lex_accept, p, g, 'LEX-ACCEPT')
    ctx.try_rule(rule_num_rt, p, g, 'NUM-RT')
    ctx.try_rule(rule_esc_rt, p, g, 'ESC-RT')
    from . import bcline
    ctx.try_rule(bcline.rule_bc_line, p, 'BC-LINE')
    ctx.try_rule(rule_fmt_lang, p, g, 'FMT-LANG')
    ctx.try_rule(rule_esc_table, p, g, 'ESC-TABLE')
    ctx.try_rule(rule_default_lit, p, g, 'DEFAULT-LIT')
    ctx.try_rule(rule_bool_table, p, g, 'BOOL-TABLE')
    ctx.try_rule(rule_reg_rule, p, g, 'REG-RULE')
    ctx.try_rule(rule_rawtext_cover, p, g, 'RAWTEXT-COVER')
    ctx.try_rule(rule_split_total, p, g, 'SPLIT-TOTAL')
    ctx.try_rule(rule_gram_eol, p, g, 'GRAM-EOL')
    ctx.try_rule(rule_gram_look, p, g, 'GRAM-LOOK')
    ctx.try_rule(rule_str_boundary, p, g, 'STR-BOUNDARY', 7 if ctx.tier == 'quick' else 9)
    from . import round4
    ctx.try_rule(round4.rule_dec_exact, p, 'DEC-EXACT')
    from . import grammar_rules
    ctx.try_rule(grammar_rules.rule_term_domain, p, 'TERM-DOMAIN')
    ctx.try_rule(grammar_rules.rule_lex_prio, p, 'LEX-PRIO')
    ctx.not_decided += ['from_value(v).value == v for arbitrary string values', 'decimal value domain of Number (str(Decimal) may use '
                        'exponents; callers pass abs(value))', 'that produced text lexes as exactly one token in context']
    ctx.assumptions += ['frozen table of str.splitlines break characters', 'frozen strftime table for this platform (%Y unpadded '
                        'below 1000 on glibc; %m, %d two digits)', 'lark compiles terminals as its loader does for the repository',
                        'anchors / look-around in terminals constrain the context, not the lexeme text']


# ====================================================================== RAWTEXT-COVER / SPLIT-TOTAL (added after seeded round 3)
def rule_rawtext_cover(ctx: RuleContext, p: Program, g: rx.Grammar, rid: str) -> None:
    ctx.rule(rid, 'a token class that caches what _parse_value derives from its text keeps every cached part in step: its raw_text '
                  'setter assigns every attribute that from_raw_text fills from _parse_value, and the setter of each such part stores '
                  'the new part and re-renders the text with _format_value over all parts (the new one in its own slot)')
    n = 0
    for c in p.token_model_classes() + [p.cls('SingleValueRawTokenModel', 'models.internal.base_token_models')]:
        cp = c.lookup('raw_text')
        if not isinstance(cp, CustomProp) or cp.fset is None:
            continue
        init = p.try_method(c, '__init__')
        frt = p.try_method(c, 'from_raw_text')
        if 'raw_text' not in c.attrs and 'from_raw_text' not in c.attrs and '_parse_value' not in c.attrs:
            continue          # nothing of its own: decided at the class that defines them
        if init is None or frt is None:
            continue
        # which constructor parameters does from_raw_text fill from the parse of the text?
        derived_names: set[str] = set()
        parse_calls = [x for x in walk_no_nested(frt.node) if isinstance(x, ast.Call) and norm(x.func) in ('cls._parse_value', 'self._parse_value')]
        # the two readers of a lexeme -- from_raw_text and the raw_text setter -- derive the value the same way: both through _parse_value
        # (as resolved for this class), or neither
        setter_parses = any(isinstance(x, ast.Call) and norm(x.func) in ('self._parse_value', 'type(self)._parse_value', 'cls._parse_value')
                            for x in walk_no_nested(cp.fset.node))
        delegates = any(isinstance(x, ast.Call) and norm(x.func) in ('super().from_raw_text',) for x in walk_no_nested(frt.node))
        if setter_parses != bool(parse_calls) and not delegates and c.lookup('_parse_value') is not None:
            n += 1
            ctx.fail(rid, f'{c.module.name.split(".", 1)[1]}:{c.name}.from_raw_text / raw_text setter', 'two readers of one lexeme',
                     f'{c.name}: {"the raw_text setter" if setter_parses else "from_raw_text"} derives the value with _parse_value, '
                     f'{"from_raw_text (" + frt.cls.name + ")" if setter_parses else "the raw_text setter"} does not: the same text gives one value when '
                     f'the token is created from it and another when it is assigned to an existing token (e.g. an alias that only one of the two '
                     f'knows), so value and raw text stop describing each other', frt.where)
            continue
        if not parse_calls:
            continue
        for a in walk_no_nested(frt.node):
            if isinstance(a, ast.Assign) and any(pc is a.value for pc in parse_calls):
                for t in a.targets:
                    derived_names |= {x.id for x in ast.walk(t) if isinstance(x, ast.Name)}
        ctor = [x for x in walk_no_nested(frt.node) if isinstance(x, ast.Call) and norm(x.func) == 'cls']
        if len(ctor) != 1:
            raise AnalysisError(f'RAWTEXT-COVER: {c.name}.from_raw_text does not build the token with one cls(...) call')
        iparams = init.params[1:]
        derived_params: list[str] = []
        for i, arg in enumerate(ctor[0].args):
            if i < len(iparams) and ((isinstance(arg, ast.Name) and arg.id in derived_names) or any(pc is arg for pc in parse_calls)):
                derived_params.append(iparams[i])
        for k in ctor[0].keywords:
            if k.arg and ((isinstance(k.value, ast.Name) and k.value.id in derived_names) or any(pc is k.value for pc in parse_calls)):
                derived_params.append(k.arg)
        attr_of: dict[str, str] = {}
        for a in walk_no_nested(init.node):
            if isinstance(a, ast.Assign) and len(a.targets) == 1 and self_attr(a.targets[0]) and isinstance(a.value, ast.Name) and a.value.id in derived_params:
                attr_of[a.value.id] = self_attr(a.targets[0])      # type: ignore[assignment]
        derived = [attr_of[x] for x in derived_params if x in attr_of]
        if not derived:
            continue
        n += 1
        site = f'{c.module.name.split(".", 1)[1]}:{c.name}'
        assigned: set[str] = set()
        for a in walk_no_nested(cp.fset.node):
            if isinstance(a, ast.Assign):
                for t in a.targets:
                    for x in ([t] if not isinstance(t, ast.Tuple) else t.elts):
                        sa = self_attr(x)
                        if sa:
                            assigned.add(sa)
        missing = [d for d in derived if d not in assigned]
        ctx.check(not missing, rid, f'{site}.raw_text[set]', f'assigns {sorted(assigned)}',
                  f'the raw_text setter of {c.name} re-parses the text but does not store {missing}: after `t.raw_text = ...` the cached '
                  f'{", ".join(m.lstrip("_") for m in missing)} still describes the old text, and the next value/indent assignment re-renders the '
                  f'token from it', cp.fset.where, note=f'parse-derived attributes {derived} all assigned')
        # the setter of each derived part
        fmt = p.try_method(c, '_format_value')
        for d in derived:
            prop = next((v for v in c.attrs.values() if isinstance(v, CustomProp) and v.fset is not None and v.name == d.lstrip('_')), None)
            if prop is None or prop.fset is None or fmt is None:
                continue
            newv = prop.fset.params[1]
            stores = any(isinstance(a, ast.Assign) and any(self_attr(t) == d for t in a.targets) and norm(a.value) == newv
                         for a in walk_no_nested(prop.fset.node))
            renders = [x for x in walk_no_nested(prop.fset.node) if isinstance(x, ast.Call) and norm(x.func) == 'self._update_raw_text' and x.args
                       and isinstance(x.args[0], ast.Call) and norm(x.args[0].func) in ('self._format_value', 'cls._format_value')]
            good = False
            if stores and len(renders) == 1:
                fargs = [norm(a) for a in renders[0].args[0].args]           # type: ignore[attr-defined]
                want = []
                for dd in derived:
                    want.append({newv} if dd == d else {f'self.{dd}', f'self.{dd.lstrip("_")}'} | ({newv} if dd == d else set()))
                fparams = fmt.params[1:]
                # _format_value takes the parts in its own order; match by parameter name
                order = [next((i for i, dd in enumerate(derived) if dd.lstrip('_') == fp), None) for fp in fparams]
                good = len(fargs) == len(fparams) and all(o is not None and fargs[i] in want[o] for i, o in enumerate(order))
            ctx.check(good, rid, f'{site}.{prop.name}[set]', 'stores the part and re-renders from all parts',
                      f'the setter of {c.name}.{prop.name} does not (only) store the new {prop.name} and re-render the text from every cached part '
                      f'with the new one in its slot', prop.fset.where, note=f'self.{d} = {newv}; _update_raw_text(_format_value(...))')
    if n < 2:
        raise AnalysisError(f'RAWTEXT-COVER: only {n} token classes with a re-parsing raw_text setter found (2 confirmed by hand)')


def rule_split_total(ctx: RuleContext, p: Program, g: rx.Grammar, rid: str) -> None:
    ctx.rule(rid, 'a _parse_value that unpacks k integer fields from a split of the text accepts every lexeme of its terminal: the '
                  'terminal\'s language is included in digits (separator digits){k-1} for the separator set actually split on')
    n = 0
    for c in p.registered('token_model'):
        prs = c.attrs.get('_parse_value')
        rule = p.class_const(c, 'RULE')
        tname = rule.value if isinstance(rule, ast.Constant) else None
        if not isinstance(prs, FuncInfo) or tname not in g.terminals:
            continue
        raw = prs.params[1]
        env = {norm(a.targets[0]): a.value for a in walk_no_nested(prs.node)
               if isinstance(a, ast.Assign) and len(a.targets) == 1 and isinstance(a.targets[0], ast.Name)}
        unpack = [a for a in walk_no_nested(prs.node) if isinstance(a, ast.Assign) and len(a.targets) == 1 and isinstance(a.targets[0], ast.Tuple)]
        for a in unpack:
            k = len(a.targets[0].elts)      # type: ignore[attr-defined]
            v = a.value
            conv = None
            if isinstance(v, ast.Call) and norm(v.func) == 'map' and len(v.args) == 2:
                conv, v = norm(v.args[0]), v.args[1]
            elif isinstance(v, (ast.GeneratorExp, ast.ListComp)) and len(v.generators) == 1 and isinstance(v.elt, ast.Call) and len(v.elt.args) == 1:
                conv, v = norm(v.elt.func), v.generators[0].iter
            if conv != 'int':
                continue
            seps = _split_seps(v, raw, env)
            if seps is None:
                continue
            n += 1
            site = f'{c.module.name.split(".", 1)[1]}:{c.name}._parse_value'
            alts = []
            for s in seps:
                alts.append('[0-9]+' + f'(?:{s}[0-9]+)' * (k - 1))
            accepted = rx.from_regex('|'.join(f'(?:{x})' for x in alts), re.S)
            ok, w = rx.included(g.terminal_nfa(tname), accepted)
            ctx.check(ok, rid, site, f'split on {seps}', f'the terminal {tname} admits {w!r}, which this _parse_value cannot read as {k} integers '
                      f'(it splits on {" or else ".join(seps)}): a legal lexeme makes parse / from_raw_text / the raw_text setter raise',
                      prs.where, note=f'{tname} included in {k} integer fields separated by {seps}')
        # a reader built on strptime: the format accepts a narrower language than a terminal written for "four or more digits"
        for call in [x for x in walk_no_nested(prs.node) if isinstance(x, ast.Call) and norm(x.func).endswith('strptime') and len(x.args) == 2
                     and isinstance(x.args[1], ast.Constant) and isinstance(x.args[1].value, str)]:
            src = call.args[0]
            widen: dict[str, str] = {}
            while isinstance(src, ast.Call) and isinstance(src.func, ast.Attribute) and src.func.attr == 'replace' and len(src.args) == 2 \
                    and all(isinstance(a_, ast.Constant) and isinstance(a_.value, str) and len(a_.value) == 1 for a_ in src.args):
                widen.setdefault(src.args[1].value, src.args[1].value)
                widen[src.args[1].value] += src.args[0].value              # raw.replace('/', '-'): a '-' of the format is '-' or '/'
                src = src.func.value
            if norm(src) != raw:
                continue
            table = {'Y': '[0-9]{4}', 'm': '(?:0?[1-9]|1[0-2])', 'd': '(?:0?[1-9]|[12][0-9]|3[01])', 'H': '[0-9]{1,2}', 'M': '[0-9]{1,2}', 'S': '[0-9]{1,2}',
                     'y': '[0-9]{2}', 'j': '[0-9]{1,3}', '%': '%'}
            fmt, out, i_ = call.args[1].value, '', 0
            bad_dir = None
            while i_ < len(fmt):
                if fmt[i_] == '%' and i_ + 1 < len(fmt):
                    if fmt[i_ + 1] not in table:
                        bad_dir = fmt[i_ + 1]
                        break
                    out += table[fmt[i_ + 1]]
                    i_ += 2
                else:
                    out += '[' + ''.join(_esc(ch) for ch in widen.get(fmt[i_], fmt[i_])) + ']'
                    i_ += 1
            if bad_dir:
                raise AnalysisError(f'SPLIT-TOTAL: strptime directive %{bad_dir} not in the frozen table')
            n += 1
            site = f'{c.module.name.split(".", 1)[1]}:{c.name}._parse_value'
            # the terminal admits day / month numbers strptime rejects (00, 13, 99) -- those are not calendar dates either way; compare on
            # the shape: digits where digits are, so only the WIDTH of each field and the separators are compared
            shape = out.replace('(?:0?[1-9]|1[0-2])', '[0-9]{1,2}').replace('(?:0?[1-9]|[12][0-9]|3[01])', '[0-9]{1,2}')
            ok, w = rx.included(g.terminal_nfa(tname), rx.from_regex(shape, re.S))
            ctx.check(ok, rid, site, f'strptime({fmt!r})', f'the terminal {tname} admits {w!r}, which strptime(.., {fmt!r}) cannot read (the format takes '
                      f'/{shape}/): a lexeme the lexer delivers as one {tname} makes parse / from_raw_text / the raw_text setter raise ValueError',
                      prs.where, note=f'{tname} included in the language of {fmt!r}')
    if n < 1:
        raise AnalysisError('SPLIT-TOTAL: no split-and-unpack reader found (Date._parse_value confirmed by hand)')


def _split_seps(v: ast.AST, raw: str, env: dict[str, ast.AST], depth: int = 0) -> Optional[list[str]]:
    """regexes of the separator a split expression uses, one per case (None: not a recognised split of the raw text)"""
    if depth > 3:
        return None
    if isinstance(v, ast.Name) and v.id in env:
        return _split_seps(env[v.id], raw, env, depth + 1)
    if isinstance(v, ast.Call) and norm(v.func) == 're.split' and len(v.args) == 2 and norm(v.args[1]) == raw \
            and isinstance(v.args[0], ast.Constant) and isinstance(v.args[0].value, str):
        return [f'(?:{v.args[0].value})']
    if isinstance(v, ast.Call) and isinstance(v.func, ast.Attribute) and v.func.attr == 'split' and norm(v.func.value) == raw and len(v.args) == 1:
        s = v.args[0]
        if isinstance(s, ast.Name) and s.id in env:
            s = env[s.id]
        if isinstance(s, ast.Constant) and isinstance(s.value, str):
            return [_esc(s.value)]
        if isinstance(s, ast.IfExp) and isinstance(s.body, ast.Constant) and isinstance(s.orelse, ast.Constant):
            # `A if A in raw else B`: a word is read with A when it contains A, else with B; with digit-only fields these are the two cases
            return [_esc(str(s.body.value)), _esc(str(s.orelse.value))]
    return None


def rule_gram_eol(ctx: RuleContext, p: Program, g: rx.Grammar, rid: str) -> None:
    ctx.rule(rid, 'no terminal whose token class derives a value from its text (_parse_value) has a lexeme that ends in a character the '
                  'line terminator can start with: in a CRLF file the carriage return belongs to the _NEWLINE token, so re-rendering the '
                  'token from a new value cannot change the line ending (NFA intersection, with a witness word)')
    nl = g.terminal_nfa('_NEWLINE')
    firsts = sorted({chr(cp) for a, b in rx.first_chars(nl) for cp in range(a, min(b, a + 4) + 1)}) if hasattr(rx, 'first_chars') else ['\r', '\n']
    n = 0
    for c in p.registered('token_model'):
        rule = p.class_const(c, 'RULE')
        tname = rule.value if isinstance(rule, ast.Constant) else None
        if tname not in g.terminals or tname == '_NEWLINE' or p.try_method(c, '_parse_value') is None:
            continue
        t = g.terminal_nfa(tname)
        cls = ''.join(_esc(ch) for ch in firsts)
        ok, w = rx.included(t, rx.from_regex(f'(?:.*[^{cls}])?', re.S))
        n += 1
        ctx.check(ok, rid, f'{c.module.name.split(".", 1)[1]}:{c.name}', f'terminal {tname}',
                  f'terminal {tname} admits {w!r}, which ends in a line-terminator character: in a CRLF file the "\\r" before "\\n" is lexed into '
                  f'this token instead of the newline, becomes part of its value, and is lost (the line ending changes to LF) as soon as the value '
                  f'is assigned', c.where, note=f'no lexeme of {tname} ends in {firsts!r}')
    if n < 10:
        raise AnalysisError(f'GRAM-EOL: only {n} value-bearing terminals examined')


def rule_gram_look(ctx: RuleContext, p: Program, g: rx.Grammar, rid: str) -> None:
    """look-ahead assertions of terminals that mean "visible text follows" must treat every line-terminator starter as not visible"""
    import sre_parse
    ctx.rule(rid, 'a terminal whose look-ahead says "something other than a blank follows" (a negated character class containing the blank '
                  'characters) also excludes every character the line terminator can start with: otherwise the blanks of a whitespace-only '
                  'line of a CRLF file are lexed as that terminal (an INDENT followed by a dedent) instead of as white space, and the spacing '
                  'run between two entries is cut in two')
    nl = g.terminal_nfa('_NEWLINE')
    firsts = set()
    for cs, _ in [x for st in nl.closure([nl.start]) for x in nl.trans.get(st, [])]:
        for a, b in cs:
            for cp in range(a, min(b, a + 8) + 1):
                firsts.add(chr(cp))
    if not firsts:
        raise AnalysisError('GRAM-LOOK: cannot compute the first characters of _NEWLINE')
    n = 0
    for tname, t in sorted(g.terminals.items()):
        if t.pattern.type != 're':
            continue
        try:
            parsed = sre_parse.parse(t.pattern.to_regexp())
        except Exception:
            continue

        def walk(items: Any) -> Any:
            for op, av in items:
                name = str(op)
                if name in ('ASSERT', 'ASSERT_NOT'):
                    yield name, av
                    yield from walk(av[1])
                elif name == 'BRANCH':
                    for alt in av[1]:
                        yield from walk(alt)
                elif name == 'SUBPATTERN':
                    yield from walk(av[3])
                elif name in ('MAX_REPEAT', 'MIN_REPEAT', 'POSSESSIVE_REPEAT'):
                    yield from walk(av[2])
                elif name == 'ATOMIC_GROUP':
                    yield from walk(av)
        for name, (direction, sub) in walk(parsed):
            sub = list(sub)
            if name != 'ASSERT' or direction <= 0 or len(sub) != 1 or str(sub[0][0]) != 'IN':
                continue
            items = list(sub[0][1])
            if not items or str(items[0][0]) != 'NEGATE':
                continue
            excluded = set()
            for iop, iav in items[1:]:
                if str(iop) == 'LITERAL':
                    excluded.add(chr(iav))
                elif str(iop) == 'RANGE':
                    excluded.update(chr(c_) for c_ in range(iav[0], min(iav[1], iav[0] + 64) + 1))
                elif str(iop) == 'CATEGORY' and 'SPACE' in str(iav):
                    excluded.update(' \t\n\r\f\v')
            if not ({' ', '\t'} & excluded):
                continue
            n += 1
            missing = sorted(firsts - excluded)
            ctx.check(not missing, rid, f'beancount.lark:{tname}', f'look-ahead excludes {sorted(excluded)!r}',
                      f'{tname} /{t.pattern.to_regexp()}/: its look-ahead "not a blank follows" accepts {missing!r}, which starts a line terminator '
                      f'(_NEWLINE): the blanks of a whitespace-only line that ends in CRLF become a {tname} token, not white space', 'autobean_refactor/beancount.lark',
                      note=f'excludes {sorted(excluded)!r}; _NEWLINE starts with {sorted(firsts)!r}')
    if n < 1:
        raise AnalysisError('GRAM-LOOK: no blank-excluding look-ahead found (INDENT confirmed)')


# ====================================================================== STR-BOUNDARY (added after seeded round 4)
def rule_str_boundary(ctx: RuleContext, p: Program, g: rx.Grammar, rid: str, max_len: int = 7) -> None:
    ctx.rule(rid, 'the string terminal stops where the written string stops: for every text f that EscapedString._format_value can write '
                  '(quote, then characters other than quote / backslash or a backslash followed by an escape image, then quote) and every '
                  'continuation w, the terminal -- evaluated with the backtracking priorities of the regex engine over the parsed pattern, '
                  'exhaustively over all f + w up to %d characters of character-class representatives -- matches exactly f at the start of '
                  'f + w (not a shorter prefix, not a run-on to a later quote)' % max_len)
    c = p.cls('EscapedString', 'models.escaped_string')
    consts = {k.split('__')[-1]: v.node for k, v in c.attrs.items() if isinstance(v, Const)}
    em = consts.get('ESCAPE_MAP')
    if not isinstance(em, ast.Dict) or not all(isinstance(k, ast.Constant) and isinstance(v, ast.Constant) for k, v in zip(em.keys, em.values)):
        raise AnalysisError('STR-BOUNDARY: __ESCAPE_MAP is not a literal dict')
    images = sorted({v.value for v in em.values})  # type: ignore[union-attr]
    pat = consts.get('ESCAPE_PATTERN')
    if not (isinstance(pat, ast.Call) and norm(pat.func) == 're.compile' and isinstance(pat.args[0], ast.Constant)):
        raise AnalysisError('STR-BOUNDARY: __ESCAPE_PATTERN is not re.compile(<literal>)')
    escaped_chars = sorted({chr(cp) for a, b in rx.accepted_chars(rx.from_regex(pat.args[0].value)) for cp in range(a, min(b, a + 64) + 1)})
    fmt = p.method(c, '_format_value', inherited=False)
    aff = _affixes(fmt)
    if aff is None or not aff[0] or not aff[1]:
        raise AnalysisError('STR-BOUNDARY: cannot read the delimiters EscapedString._format_value writes')
    pre, suf, _mid = aff
    rule = p.class_const(c, 'RULE')
    tname = rule.value if isinstance(rule, ast.Constant) else None
    if tname not in g.terminals:
        raise AnalysisError(f'STR-BOUNDARY: terminal {tname} not in the grammar')
    tp = g.terminals[tname].pattern
    flags = 0
    for f_ in getattr(tp, 'flags', ()) or ():
        flags |= {'i': re.I, 'm': re.M, 's': re.S, 'x': re.X, 'u': re.U, 'l': re.L}.get(f_, 0)
    matcher = rx.BTMatcher(tp.to_regexp(), flags)
    # formatter language: delimiters around (unescaped character | backslash + image)*
    body = '(?:[^%s]|\\\\[%s])*' % (''.join(_esc(ch) for ch in escaped_chars), ''.join(_esc(ch) for ch in images))
    fnfa = rx.from_regex(''.join(_esc(ch) for ch in pre) + body + ''.join(_esc(ch) for ch in suf), re.S)
    bounds = sorted(matcher.boundaries() | fnfa.boundaries() | {10, 11})
    cands = [chr(rx._pretty(bounds[i], bounds)) for i in range(len(bounds) - 1)]
    # characters that no test of the pattern and no transition of the formatter automaton tells apart are one symbol
    fsets = [cs for lst in fnfa.trans.values() for cs, _ in lst]
    by_sig: dict[tuple, str] = {}
    for ch in cands:
        sig = matcher.signature(ch) + tuple(any(a <= ord(ch) <= b for a, b in cs) for cs in fsets)
        by_sig.setdefault(sig, ch)
    letters = sorted(by_sig.values())
    if len(letters) > 9:
        raise AnalysisError(f'STR-BOUNDARY: {len(letters)} character classes; the exhaustive evaluation would be too large')
    # all f in F up to max_len - 1, by breadth-first search over the formatter automaton
    fs: list[str] = []
    todo = [(fnfa.closure([fnfa.start]), '')]
    while todo:
        cur, w = todo.pop()
        if fnfa.accept in cur:
            fs.append(w)
        if len(w) >= max_len - 1:
            continue
        for ch in letters:
            nx = fnfa.step(cur, ord(ch))
            if nx:
                todo.append((nx, w + ch))
    n = 0
    problem = None
    import itertools as _it
    for f in sorted(fs, key=lambda s: (len(s), s)):
        for k in range(0, max_len - len(f) + 1):
            for w in _it.product(letters, repeat=k):
                text = f + ''.join(w)
                n += 1
                end = matcher.match_end(text)
                if end != len(f) and problem is None:
                    problem = (f, ''.join(w), end)
        if problem:
            break
    if len(fs) < 20 or (n < 2000 and problem is None):
        raise AnalysisError(f'STR-BOUNDARY: only {len(fs)} formatted strings / {n} texts evaluated')
    site = f'beancount.lark:{tname}'
    if problem:
        f, w, end = problem
        got = 'no match' if end is None else f'{(f + w)[:end]!r}'
        ctx.fail(rid, site, 'stops at the closing quote',
                 f'{tname} /{tp.to_regexp()}/ on the text {f + w!r}: EscapedString writes {f!r} (a value ending in a backslash ends in an even run of '
                 f'backslashes before the closing quote) and the terminal matches {got} instead of {f!r} -- the string token runs on to a later '
                 f'quote (or stops early), so a constructed model with such a string followed by another string prints text that parses '
                 f'differently or not at all', 'autobean_refactor/beancount.lark')
    else:
        ctx.ok(rid, site, f'{len(fs)} formatted strings x continuations = {n} texts over {len(letters)} character classes, length <= {max_len}')


# ====================================================================== BC-RT (added after twins round 4; replaces the shape clauses of BC-SPACED)
def rule_bc_rt(ctx: RuleContext, p: Program, g: rx.Grammar, rid: str) -> None:
    """BlockComment: _parse_value(_format_value(indent, value)) == (indent, value), both interpreted on concrete texts"""
    import itertools
    from . import possem
    from .tokenstore import TS
    ctx.rule(rid, 'BlockComment._format_value and _parse_value, interpreted from their ASTs on concrete texts: for every value of up to 3 lines '
                  'over {empty, blank, two blanks, tab, text, blank+text, text+blank, CR} with LF or CRLF line ends (with and without a final '
                  'line end) and every indent of {none, two blanks, tab}: the raw text the writer produces is read back as exactly (indent, '
                  'value), every produced line starts with the indent and `;`, and the whole is a BLOCK_COMMENT of the grammar')
    bc = p.cls('BlockComment', 'models.block_comment')
    fv = p.method(bc, '_format_value', inherited=False)
    pv = p.method(bc, '_parse_value', inherited=False)
    m = bc.module
    ts = TS(p)

    class Interp(possem.PosInterp):
        tag = 'BC-RT'

        def expr(self, e: Any, env: dict) -> Any:                 # type: ignore[override]
            if isinstance(e, ast.Call) and isinstance(e.func, ast.Attribute) and isinstance(e.func.value, ast.Name) and e.func.value.id == 'cls' \
                    and isinstance(env.get('cls'), possem.Obj):
                h = bc.lookup(e.func.attr)
                if isinstance(h, FuncInfo):
                    a = [self.expr(x, env) for x in e.args]
                    kw = {k.arg: self.expr(k.value, env) for k in e.keywords if k.arg}
                    return self.call_function(h, a if h.kind == 'staticmethod' else [env['cls']] + a, kw)
            if isinstance(e, ast.Call) and isinstance(e.func, ast.Name) and e.func.id == 'cls' and isinstance(env.get('cls'), possem.Obj):
                a = [self.expr(x, env) for x in e.args]
                kw = {k.arg: self.expr(k.value, env) for k in e.keywords if k.arg}
                names = [x for x in (init.params[1:] if init is not None else [])]
                built = dict(zip(names, a))
                built.update(kw)
                return possem.Obj('BlockCommentInstance', built, 'token')
            return super().expr(e, env)

    init = p.try_method(bc, '__init__')
    fval = bc.lookup('from_value')
    t_nfa = g.terminal_nfa('BLOCK_COMMENT')
    lines = ['', ' ', '  ', '\t', 'x', ' x', 'x ', '\r']
    clsobj = possem.Obj('BlockCommentClass', {}, 'cls')
    problem = None
    n = 0
    for k in (1, 2, 3):
        for combo in itertools.product(lines, repeat=k):
            if k == 3 and sum(1 for c in combo if c in ('  ', '\t', 'x ')) > 1:
                continue          # keep the three-line family small: one exotic line at most
            for eol in ('\n', '\r\n'):
                for final in (False, True):
                    value = eol.join(combo) + (eol if final else '')
                    for indent in ('', '  ', '\t'):
                        n += 1
                        try:
                            raw = Interp(ts, [], module=m).call_function(fv, [clsobj, indent, value], {})
                            back = Interp(ts, [], module=m).call_function(pv, [clsobj, raw], {})
                        except possem.Raised as ex:
                            problem = problem or f'value {value!r}, indent {indent!r}: raises {ex}'
                            continue
                        if not isinstance(raw, str):
                            problem = problem or f'value {value!r}: _format_value returns {raw!r}'
                            continue
                        if tuple(back) != (indent, value) and problem is None:
                            problem = (f'from_value({value!r}, indent={indent!r}) writes {raw!r}, which reads back as {tuple(back)!r}: the writer and the '
                                       f'reader disagree on which lines are empty / carry the blank after the semicolon')
                        if any(not ln.startswith(indent + ';') for ln in raw.split('\n') if ln or raw == '') and problem is None:
                            problem = f'from_value({value!r}, indent={indent!r}) writes {raw!r}: a line does not start with the indent and a semicolon'
                        # the constructor from a value builds exactly that text, for every value (the empty one included)
                        if isinstance(fval, FuncInfo) and problem is None:
                            try:
                                tok = Interp(ts, [], module=m).call_function(fval, [clsobj, value], {'indent': indent})
                            except possem.Raised as ex:
                                problem = f'from_value({value!r}, indent={indent!r}) raises {ex}'
                                continue
                            got = tok.f if isinstance(tok, possem.Obj) and tok.cls == 'BlockCommentInstance' else None
                            if got is None or got.get('raw_text') != raw or got.get('indent') != indent or got.get('value') != value:
                                problem = (f'from_value({value!r}, indent={indent!r}) builds the token ({got and got.get("raw_text")!r}, indent '
                                           f'{got and got.get("indent")!r}, value {got and got.get("value")!r}); _format_value gives {raw!r}: the text of a '
                                           f'comment created from a value is not the formatted value (an empty comment loses its indentation)')
    if n < 3000:
        raise AnalysisError(f'BC-RT: only {n} (value, indent) pairs evaluated')
    ctx.check(problem is None, rid, 'models.block_comment:BlockComment._format_value / _parse_value', 'parse(format(indent, value)) == (indent, value)',
              problem or '', fv.where, note=f'{n} (value, indent) pairs')


# ----------------------------------------------------------------------------- TOK-RT
_TOK_RT_VALUES: list[tuple[str, str]] = [
    # (category, value).  The category is the construct of the finding: a new failing category is a new finding.
    ('empty', ''), ('plain', 'x'), ('plain', 'x y'), ('plain', 'abc'), ('plain', 'Abc'), ('plain', 'a-b_c/d.e'), ('plain', 'ab-c_d'),
    ('plain', 'txn'), ('plain', '*'), ('plain', '!'), ('plain', 'P'), ('plain', 'TRUE'), ('plain', 'USD'), ('plain', 'Assets:Foo'),
    ('leading blank', ' x'), ('leading blank', '  x'), ('trailing blank', 'x '), ('inner blanks', 'x  y'), ('tab', '\tx'), ('tab', 'x\ty'),
    ('leading semicolon', ';x'), ('leading semicolon', '; x'), ('leading semicolon', ';'), ('leading semicolon', ';;x'), ('inner semicolon', 'x;y'),
    ('leading marker', '#x'), ('leading marker', '^x'), ('leading marker', '##x'), ('leading marker', '^^x'), ('trailing colon', 'x:'),
    ('trailing colon', 'ab:'), ('quote', 'a"b'), ('backslash', 'a\\b'), ('backslash', 'a\\nb'),
    ('unicode line boundary', 'a\x0bb'), ('unicode line boundary', 'a\x0cb'), ('unicode line boundary', 'a\x1cb'), ('unicode line boundary', 'a\x1db'),
    ('unicode line boundary', 'a\x1eb'), ('unicode line boundary', 'a\x85b'), ('unicode line boundary', 'a b'), ('unicode line boundary', 'a b'),
    ('unicode line boundary', 'a '), ('non-ascii', '\xe9t\xe9'), ('non-ascii', '中文'), ('non-ascii', 'x\xa0y'), ('non-ascii', '　x'),
    ('leading blank', '    '), ('leading blank', ' '), ('tab', '\t'), ('leading blank', ' \t'),         # indentations
    ('not in a Unicode normal form', 'Expenses:Cafe\u0301'), ('not in a Unicode normal form', 'e\u0301te\u0301'), ('not in a Unicode normal form', 'Assets:\u212bngstrom'),
    ('not in a Unicode normal form', '\ufb01n'), ('not in a Unicode normal form', 'Assets:\u1112\u1161\u11ab'),
    ('case', 'MiXed'), ('case', 'lower'), ('case', 'UPPER'), ('digits', '0123'), ('digits', 'a1'),
]


# further texts used on the lexeme side only
_TOK_RT_LEXEMES: list[tuple[str, str]] = [
    ('non-ascii', '\u8d44\u4ea7:\u73b0\u91d1'), ('non-ascii', 'Assets:\u94f6\u884c:\u50a8\u84c4'), ('non-ascii', '\xc9xpenses:\xe9picerie'), ('digits', 'Assets:401k'),
    ('plain', '#tag'), ('plain', '^link'), ('plain', 'key:'), ('plain', ';c'), ('plain', '; c'), ('plain', ';'), ('plain', 'Assets:Foo:Bar'),
]

# texts of the pool that are lexemes of a terminal without being values of the class (one line of reason each)
_TOK_RT_NOT_A_VALUE = {
    ('TransactionFlag', 'txn'): "the keyword spelling of the flag '*': a lexeme, never a value (_parse_value maps it to '*')",
}


def rule_tok_rt(ctx: RuleContext, p: Program, g: rx.Grammar, rid: str, only: Optional[tuple] = None) -> None:
    """text-valued token classes: _parse_value(_format_value(v)) == v, both interpreted on concrete texts"""
    from . import possem
    from .tokenstore import TS
    ctx.rule(rid, 'every token class whose value is a text, with the _format_value / _parse_value it resolves to (its own or inherited; EscapedString and BlockComment have '
                  'their own rules): both functions are interpreted from their ASTs on a pool of %d texts (empty, blanks at either end, tabs, a '
                  'leading or inner semicolon / marker character, a trailing colon, quote, backslash, the eight characters str.splitlines() breaks '
                  'at besides CR and LF, non-ASCII, mixed case).  For every v whose written text is a lexeme of the class\'s terminal: the text reads '
                  'back as exactly v; and for every lexeme written that way, formatting the value read from it gives the lexeme again' % len(_TOK_RT_VALUES))
    ts = TS(p)
    n_cls = n_pairs = n_all = 0
    for c in p.registered('token_model'):
        fmt = c.lookup('_format_value')
        prs = c.lookup('_parse_value')
        if not isinstance(fmt, FuncInfo) or not isinstance(prs, FuncInfo):
            continue
        # (cls, value) for a classmethod, (value) for a static method
        if len(fmt.params) != (1 if fmt.kind == 'staticmethod' else 2) or len(prs.params) != (1 if prs.kind == 'staticmethod' else 2):
            continue
        own_pair = isinstance(c.attrs.get('_format_value'), FuncInfo) and isinstance(c.attrs.get('_parse_value'), FuncInfo)
        ann = norm(fmt.node.args.args[-1].annotation) if fmt.node.args.args[-1].annotation else ''
        if ann != 'str' or c.name in ('EscapedString', 'BlockComment') or (only is not None and c.name not in only):
            continue
        rule = p.class_const(c, 'RULE')
        tname = rule.value if isinstance(rule, ast.Constant) else None
        if tname not in g.terminals:
            raise AnalysisError(f'TOK-RT: {c.name}.RULE is not a terminal of the grammar')
        pat = g.terminals[tname].pattern
        flags = 0
        for f in getattr(pat, 'flags', ()) or ():
            flags |= {'i': re.I, 'm': re.M, 's': re.S, 'x': re.X, 'u': re.U}.get(f, 0)
        term = re.compile(pat.to_regexp(), flags)
        n_cls += int(own_pair)
        site = f'{c.module.name.split(".", 1)[1]}:{c.name}'
        clsobj = possem.Obj(c.name + 'Class', {}, 'cls')
        bad: dict[str, str] = {}
        n_here = 0

        def is_lexeme(raw_: str, term: Any = term) -> bool:
            # alone, or -- for a terminal that ends with a look-ahead (INDENT wants something on the line) -- followed by a letter or a line end
            if term.fullmatch(raw_):
                return True
            for tail in ('x', '\n'):
                m_ = term.match(raw_ + tail)
                if m_ is not None and m_.end() == len(raw_) and raw_:
                    return True
            return False

        class Interp(possem.PosInterp):
            tag = 'TOK-RT'

            def expr(self, e: Any, env: dict) -> Any:                 # type: ignore[override]
                # cls.CONSTANT / cls.helper(...) of the token class itself
                if isinstance(e, ast.Attribute) and isinstance(e.value, ast.Name) and env.get(e.value.id) is clsobj:
                    k_ = p.class_const(c, e.attr)
                    if k_ is not None:
                        return self.expr(k_, {})
                if isinstance(e, ast.Call) and isinstance(e.func, ast.Attribute) and isinstance(e.func.value, ast.Name) and env.get(e.func.value.id) is clsobj:
                    h = c.lookup(e.func.attr)
                    if isinstance(h, FuncInfo):
                        a = [self.expr(x, env) for x in e.args]
                        kw = {k.arg: self.expr(k.value, env) for k in e.keywords if k.arg}
                        return self.call_function(h, a if h.kind == 'staticmethod' else [clsobj] + a, kw)
                return super().expr(e, env)

        def run(fn: FuncInfo, arg: str) -> Any:
            return Interp(ts, [], module=fn.module).call_function(fn, [arg] if fn.kind == 'staticmethod' else [clsobj, arg], {})

        for cat, v in _TOK_RT_VALUES:
            if (c.name, v) in _TOK_RT_NOT_A_VALUE:
                continue
            try:
                raw = run(fmt, v)
            except possem.Raised:
                continue                          # a refused value is outside the domain
            if not isinstance(raw, str):
                bad.setdefault(cat, f'_format_value({v!a}) returns {raw!a}, not a text')
                continue
            if not is_lexeme(raw):
                continue                          # not a lexeme of the terminal: v is outside the domain of this token type (TERM-DOMAIN / FMT-LANG decide the reach)
            n_here += 1
            try:
                back = run(prs, raw)
            except possem.Raised as ex:
                bad.setdefault(cat, f'from_value({v!a}) writes {raw!a}, a {tname} lexeme, and _parse_value raises {ex} on it')
                continue
            if back != v or type(back) is not str:
                bad.setdefault(cat, f'from_value({v!a}) writes {raw!a}, which is a {tname} lexeme and reads back as {back!a}: the value assigned is not the '
                                    f'value the document holds')
                continue
            try:
                again = run(fmt, back)
            except possem.Raised as ex:
                bad.setdefault(cat, f'_format_value raises {ex} on {back!a}, the value just read from {raw!a}')
                continue
            if again != raw:
                bad.setdefault(cat, f'{raw!a} reads as {back!a}, which is written as {again!a}')
        # the lexeme side: a text of the pool that IS a lexeme of the terminal reads as some value; that value is in the domain by
        # construction (the lexer produces it), so the writer accepts it and the pair round-trips on it
        for cat, r in _TOK_RT_VALUES + _TOK_RT_LEXEMES:
            if not is_lexeme(r) or (c.name, r) in _TOK_RT_NOT_A_VALUE:
                continue
            try:
                v = run(prs, r)
            except possem.Raised as ex:
                bad.setdefault(cat, f'the {tname} lexeme {r!a} is refused by _parse_value ({ex})')
                continue
            if not isinstance(v, str):
                continue
            try:
                raw2 = run(fmt, v)
            except possem.Raised as ex:
                bad.setdefault(cat, f'{r!a} is a {tname} lexeme and reads as the value {v!a}, which _format_value refuses ({ex}): a value the lexer '
                                    f'produces cannot be assigned')
                continue
            n_here += 1
            if isinstance(raw2, str) and is_lexeme(raw2):
                try:
                    if run(prs, raw2) != v:
                        bad.setdefault(cat, f'{r!a} reads as {v!a}, which is written as {raw2!a} and read back as {run(prs, raw2)!a}')
                except possem.Raised as ex:
                    bad.setdefault(cat, f'{r!a} reads as {v!a}, which is written as {raw2!a}; that text is refused ({ex})')
        n_pairs += n_here
        n_all += 1
        if n_here < 3 and own_pair:
            raise AnalysisError(f'TOK-RT: only {n_here} of the pool values are {tname} lexemes when written by {site}._format_value')
        if bad:
            for cat, why in sorted(bad.items()):
                ctx.check(False, rid, site, f'values with: {cat}', why, fmt.where)
        else:
            ctx.check(True, rid, site, 'parse(format(v)) == v', '', fmt.where, note=f'{n_here} in-domain values of the pool')
    if only is not None:
        if n_all != len(only):
            raise AnalysisError(f'TOK-RT: of the classes {only} only {n_all} found')
        return
    if n_cls < 5:
        raise AnalysisError(f'TOK-RT: only {n_cls} text-valued token classes with their own format/parse pair found (5 confirmed by hand)')
    if n_all < 9:
        raise AnalysisError(f'TOK-RT: only {n_all} text-valued token classes found (10 confirmed by hand)')
    ctx.stats.setdefault('tok_rt', {})['classes'] = n_all
    ctx.stats['tok_rt']['pairs'] = n_pairs


# ----------------------------------------------------------------------------- LEX-ACCEPT (round 9)
def rule_lex_accept(ctx: RuleContext, p: Program, g: rx.Grammar, rid: str) -> None:
    """every NUMBER lexeme is accepted by Number._parse_value and means the decimal its digits spell"""
    import decimal
    import itertools
    from . import possem
    from .tokenstore import TS
    ctx.rule(rid, 'Number._parse_value, interpreted on NUMBER lexemes assembled from integer parts (plain, comma-grouped, leading zeros) and '
                  'fraction parts (none, a bare dot, digits, trailing zeros) that the terminal of the grammar matches: every lexeme is accepted (a reader '
                  'stricter than the lexer makes a ledger unparseable) and its value is the decimal the digits spell with the commas taken out, '
                  'exponent included')
    c = p.cls('Number', 'models.number')
    prs = c.lookup('_parse_value')
    if not isinstance(prs, FuncInfo):
        raise AnalysisError('LEX-ACCEPT: Number._parse_value vanished')
    rule = p.class_const(c, 'RULE')
    tname = rule.value if isinstance(rule, ast.Constant) else None
    if tname not in g.terminals:
        raise AnalysisError('LEX-ACCEPT: Number.RULE is not a terminal of the grammar')
    term = re.compile(g.terminals[tname].pattern.to_regexp())
    ts = TS(p)
    clsobj = possem.Obj('NumberClass', {}, 'cls')

    class Interp(possem.PosInterp):
        tag = 'LEX-ACCEPT'

        def expr(self, e: Any, env: dict) -> Any:                 # type: ignore[override]
            if isinstance(e, ast.Call) and norm(e.func) in ('decimal.Decimal', 'Decimal') and len(e.args) == 1 and not e.keywords:
                v = self.expr(e.args[0], env)
                if not isinstance(v, (str, int, decimal.Decimal)) or isinstance(v, bool):
                    raise self.err(e, 'Decimal() of an abstract value')
                try:
                    return decimal.Decimal(v)
                except decimal.InvalidOperation:
                    raise possem.Raised(f'decimal.InvalidOperation: Decimal({v!r})')
            if isinstance(e, ast.Attribute) and isinstance(e.value, ast.Name) and env.get(e.value.id) is clsobj:
                k_ = p.class_const(c, e.attr)
                if k_ is not None:
                    return self.expr(k_, {})
            return super().expr(e, env)

    ints = ['0', '7', '12', '123', '1234', '12345678', '007', '1,234', '12,345', '123,456', '1,234,567', '12,345,678', '0,000', '001,000']
    fracs = ['', '.', '.5', '.50', '.000', '.123456789']
    lexemes = [i + f for i, f in itertools.product(ints, fracs) if term.fullmatch(i + f)]
    if len(lexemes) < 60:
        raise AnalysisError(f'LEX-ACCEPT: only {len(lexemes)} of the sample texts are {tname} lexemes')
    problem = None
    for lx in lexemes:
        try:
            got = Interp(ts, [], module=prs.module).call_function(prs, [clsobj, lx], {})
        except possem.Raised as ex:
            problem = problem or f'the {tname} lexeme {lx!r} is refused ({ex}): a ledger that contains it no longer parses, and raw_text = {lx!r} raises'
            continue
        want = decimal.Decimal(lx.replace(',', ''))
        if not isinstance(got, decimal.Decimal) or got != want or got.as_tuple() != want.as_tuple():
            problem = problem or f'the {tname} lexeme {lx!r} reads as {got!r}, its digits spell {want!r}'
    ctx.check(problem is None, rid, 'models.number:Number._parse_value', 'every NUMBER lexeme is accepted and means its digits', problem or '', prs.where,
              note=f'{len(lexemes)} lexemes')


def rule_num_rt(ctx: RuleContext, p: Program, g: rx.Grammar, rid: str) -> None:
    """the writer side of Number, evaluated (FMT-LANG decides it by language inclusion when it recognises the shape of the formatter; this rule does
    not depend on the shape): what _format_value writes for a finite non-negative decimal is one NUMBER lexeme that reads back as that value"""
    import decimal
    from . import possem
    from .tokenstore import TS
    ctx.rule(rid, 'Number._format_value, interpreted on a pool of finite non-negative decimals (everyday amounts, positive exponents as normalize() '
                  'leaves them, magnitudes below 1e-6 and zeros with seven or more decimals -- where str() of a Decimal switches to scientific '
                  'notation --, trailing zeros, more digits than the arithmetic context keeps, also under a context of 6 digits): the text is '
                  'one lexeme of the NUMBER terminal of the grammar, and Number._parse_value, interpreted on it, gives a decimal equal to the value')
    c = p.cls('Number', 'models.number')
    fmt, prs = c.lookup('_format_value'), c.lookup('_parse_value')
    if not isinstance(fmt, FuncInfo) or not isinstance(prs, FuncInfo):
        raise AnalysisError('NUM-RT: Number._format_value / _parse_value vanished')
    rule = p.class_const(c, 'RULE')
    tname = rule.value if isinstance(rule, ast.Constant) else None
    if tname not in g.terminals:
        raise AnalysisError('NUM-RT: Number.RULE is not a terminal of the grammar')
    term = re.compile(g.terminals[tname].pattern.to_regexp())
    ts = TS(p)
    clsobj = possem.Obj('NumberClass', {}, 'cls')

    class Interp(possem.PosInterp):
        tag = 'NUM-RT'

        def expr(self, e: Any, env: dict) -> Any:                 # type: ignore[override]
            if isinstance(e, ast.Call) and norm(e.func) in ('decimal.Decimal', 'Decimal') and len(e.args) == 1 and not e.keywords:
                v = self.expr(e.args[0], env)
                if not isinstance(v, (str, int, decimal.Decimal)) or isinstance(v, bool):
                    raise self.err(e, 'Decimal() of an abstract value')
                try:
                    return decimal.Decimal(v)
                except decimal.InvalidOperation:
                    raise possem.Raised(f'decimal.InvalidOperation: Decimal({v!r})')
            if isinstance(e, ast.Attribute) and isinstance(e.value, ast.Name) and env.get(e.value.id) is clsobj:
                k_ = p.class_const(c, e.attr)
                if k_ is not None:
                    return self.expr(k_, {})
            if isinstance(e, ast.Call) and isinstance(e.func, ast.Name) and e.func.id in ('format', 'str', 'abs', 'repr') and e.func.id not in env \
                    and e.args and not e.keywords:
                a = [self.expr(x, env) for x in e.args]
                if isinstance(a[0], decimal.Decimal) and all(isinstance(x, str) for x in a[1:]):
                    try:
                        return {'format': format, 'str': str, 'abs': abs, 'repr': repr}[e.func.id](*a)      # the decimal module: trusted, as `re` is
                    except (ValueError, TypeError, decimal.InvalidOperation) as ex:
                        raise possem.Raised(f'{type(ex).__name__}: {ex}')
            if isinstance(e, ast.JoinedStr):
                out = ''
                for part in e.values:
                    if isinstance(part, ast.Constant):
                        out += str(part.value)
                        continue
                    v_ = self.expr(part.value, env)
                    if not isinstance(v_, decimal.Decimal):
                        return super().expr(e, env)
                    spec = ''.join(str(x.value) for x in part.format_spec.values if isinstance(x, ast.Constant)) if part.format_spec is not None else ''
                    v2 = str(v_) if part.conversion == 115 else repr(v_) if part.conversion == 114 else v_
                    out += format(v2, spec)
                return out
            if isinstance(e, (ast.UnaryOp, ast.BinOp)):
                # decimal arithmetic under the arithmetic context in force (rounds to its precision)
                try:
                    if isinstance(e, ast.UnaryOp) and isinstance(e.op, (ast.USub, ast.UAdd)):
                        v_ = self.expr(e.operand, env)
                        if isinstance(v_, decimal.Decimal):
                            return -v_ if isinstance(e.op, ast.USub) else +v_
                    if isinstance(e, ast.BinOp) and isinstance(e.op, (ast.Add, ast.Sub, ast.Mult)):
                        l_, r_ = self.expr(e.left, env), self.expr(e.right, env)
                        if isinstance(l_, decimal.Decimal) and isinstance(r_, (decimal.Decimal, int)) or isinstance(r_, decimal.Decimal) and isinstance(l_, int):
                            return l_ + r_ if isinstance(e.op, ast.Add) else l_ - r_ if isinstance(e.op, ast.Sub) else l_ * r_
                except decimal.InvalidOperation as ex:
                    raise possem.Raised(f'decimal.InvalidOperation: {ex}')
            return super().expr(e, env)

    pool = ['0', '1', '7', '42.10', '100', '100.00', '1234567.89', '0.5', '0.10', '0.000', '1E+2', '1.5E+3', '0E+2', '12E0', '1E+30',
            '0.000001', '0.0000001', '0.00000001', '1E-7', '0.000000857', '0E-7', '0.0000000', '1.0E-10', '5E-1', '1.234E-9',
            '123456789012345678901234567890.123456789', '0.1234567890123456789012345678901234567890', '99999999999999999999999999999.5']
    problem = None
    n = 0
    for prec in (28, 6):
        for txt in pool:
            v = decimal.Decimal(txt)
            with decimal.localcontext() as lc:
                lc.prec = prec
                n += 1
                shown = f'Decimal({txt!r})' + (f' under a context of {prec} digits' if prec != 28 else '')
                try:
                    out = Interp(ts, [], module=fmt.module).call_function(fmt, [clsobj, v], {})
                except possem.Raised as ex:
                    problem = problem or f'{shown} is refused by _format_value ({ex}): a finite non-negative decimal is in the domain of Number'
                    continue
                if not isinstance(out, str):
                    raise AnalysisError(f'NUM-RT: _format_value({shown}) evaluates to {out!r}')
                if not term.fullmatch(out):
                    problem = problem or (f'{shown} is written as {out!r}, which is not a lexeme of {tname} ({term.pattern!r}): str() of a Decimal uses scientific '
                                          f'notation for a positive exponent and for an adjusted exponent below -6; the printed ledger no longer parses')
                    continue
                try:
                    back = Interp(ts, [], module=prs.module).call_function(prs, [clsobj, out], {})
                except possem.Raised as ex:
                    problem = problem or f'{shown} is written as {out!r}, which _parse_value refuses ({ex})'
                    continue
                if not isinstance(back, decimal.Decimal) or back.compare_total(v) != 0 and (back.as_tuple().sign, back.normalize(decimal.Context(prec=200)).as_tuple()) != (v.as_tuple().sign, v.normalize(decimal.Context(prec=200)).as_tuple()):
                    problem = problem or (f'{shown} is written as {out!r}, which reads back as {back!r}: digits are lost on the way into the text '
                                          f'(abs(), unary minus and arithmetic round to the precision of the context; copy_abs / copy_negate and format do not)')
    ctx.check(problem is None, rid, 'models.number:Number._format_value', 'every decimal of the pool is written as one NUMBER lexeme that reads back as it',
              problem or '', fmt.where, note=f'{n} (value, context) pairs')


def rule_esc_rt(ctx: RuleContext, p: Program, g: rx.Grammar, rid: str) -> None:
    """EscapedString evaluated end to end (ESC-TABLE decides the table and the callables, STR-BOUNDARY where the lexer stops on what a CORRECT escape
    writes; neither runs the escape pattern itself on a text): _format_value, _parse_value, escape, unescape and the class-level patterns, as written"""
    from . import possem
    from .tokenstore import TS
    c = p.cls('EscapedString', 'models.escaped_string')
    fmt, prs = c.lookup('_format_value'), c.lookup('_parse_value')
    if not isinstance(fmt, FuncInfo) or not isinstance(prs, FuncInfo):
        raise AnalysisError('ESC-RT: EscapedString._format_value / _parse_value vanished')
    rule = p.class_const(c, 'RULE')
    tname = rule.value if isinstance(rule, ast.Constant) else None
    if tname not in g.terminals:
        raise AnalysisError('ESC-RT: EscapedString.RULE is not a terminal of the grammar')
    pat = g.terminals[tname].pattern
    flags = 0
    for f in getattr(pat, 'flags', ()) or ():
        flags |= {'i': re.I, 'm': re.M, 's': re.S, 'x': re.X, 'u': re.U}.get(f, 0)
    term = re.compile(pat.to_regexp(), flags)
    pieces = ['', 'a', ' ', '"', '\\', 'n', '\n', '\t', '\r', 'é', ';']
    pool = sorted({a + b + c_ for a in pieces for b in pieces for c_ in ('', 'x', '"', '\\')} | {'\\\\"', '"\\"', 'C:\\"x\\"', 'say "hi"', '\\n', 'a\\\\', '\\"\\"', '\f\b'})
    ctx.rule(rid, 'EscapedString._format_value / _parse_value with escape / unescape and the class-level patterns and tables, interpreted on %d texts '
                  '(every arrangement of up to three of: a letter, a blank, a quote, a backslash, the letter n, line feed, tab, carriage return, a '
                  'non-ASCII letter, a semicolon -- so a quote right behind a backslash, a backslash at the end, two backslashes before a quote): the '
                  'text written is exactly one lexeme of the string terminal of the grammar (the lexer stops at its last character and nowhere before), '
                  'and reads back as the value' % len(pool))
    ts = TS(p)
    clsobj = possem.Obj('EscapedStringClass', {}, 'cls')
    cenv: dict = {}

    class Interp(possem.PosInterp):
        tag = 'ESC-RT'

        def expr(self, e: Any, env: dict) -> Any:                 # type: ignore[override]
            if isinstance(e, ast.Attribute) and isinstance(e.value, ast.Name) and (env.get(e.value.id) is clsobj or (e.value.id == c.name and c.name not in env)):
                nm = e.attr
                for k in (nm, nm.split('__')[-1] if nm.startswith('_' + c.name) else nm):
                    if k in cenv:
                        return cenv[k]
                    if '__' + k in cenv:
                        return cenv['__' + k]
            if isinstance(e, ast.Name) and e.id not in env and e.id in cenv:
                return cenv[e.id]                 # a class-level name read inside the class body
            if isinstance(e, ast.Call) and isinstance(e.func, ast.Attribute) and isinstance(e.func.value, ast.Name) \
                    and (env.get(e.func.value.id) is clsobj or (e.func.value.id == c.name and c.name not in env)):
                h = c.lookup(e.func.attr)
                if isinstance(h, FuncInfo):
                    a = [self.expr(x, env) for x in e.args]
                    kw = {k.arg: self.expr(k.value, env) for k in e.keywords if k.arg}
                    return self.call_function(h, a if h.kind == 'staticmethod' else [clsobj] + a, kw)
            if isinstance(e, ast.Call) and norm(e.func) in ('re.sub', 're.subn') and len(e.args) >= 3 and not e.keywords:
                a = [self.expr(x, env) for x in e.args]
                if (isinstance(a[0], str) or type(a[0]).__name__ == 'Pattern') and isinstance(a[2], str) and not isinstance(a[1], str):
                    def repl(m_: Any, _f: Any = a[1]) -> str:
                        r_ = self.call_value(_f, [m_], {}, e)
                        if not isinstance(r_, str):
                            raise possem.Raised(f'TypeError: expected str instance, {type(r_).__name__} found')
                        return r_
                    try:
                        out = re.sub(a[0], repl, a[2], *a[3:])       # the standard library's engine applies the pattern (trusted); the callable is interpreted
                    except KeyError as ex:
                        raise possem.Raised(f'KeyError: {ex}')
                    return out
            if isinstance(e, ast.Subscript) and not isinstance(e.slice, ast.Slice):
                b = self.expr(e.value, env)
                if isinstance(b, dict):
                    k = self.expr(e.slice, env)
                    if k not in b:
                        raise possem.Raised(f'KeyError: {k!r}')
                    return b[k]
                if type(b).__name__ == 'Match':
                    return b[self.expr(e.slice, env)]
            if isinstance(e, ast.Call) and isinstance(e.func, ast.Attribute) and e.func.attr in ('group', 'groups', 'start', 'end', 'span') \
                    and not (isinstance(e.func.value, ast.Name) and e.func.value.id not in env):
                b = self.expr(e.func.value, env)
                if type(b).__name__ == 'Match':
                    return getattr(b, e.func.attr)(*[self.expr(x, env) for x in e.args])
            return super().expr(e, env)

    # the class body, top to bottom: tables and compiled patterns (whatever they are called and however they are built)
    boot = Interp(ts, [], module=c.module)
    for st in c.node.body:
        if isinstance(st, ast.Assign) and len(st.targets) == 1 and isinstance(st.targets[0], ast.Name):
            cenv[st.targets[0].id] = boot.expr(st.value, {})
        elif isinstance(st, ast.AnnAssign) and isinstance(st.target, ast.Name) and st.value is not None:
            cenv[st.target.id] = boot.expr(st.value, {})

    def run(fn: FuncInfo, arg: str) -> Any:
        return Interp(ts, [], module=fn.module).call_function(fn, [arg] if fn.kind == 'staticmethod' else [clsobj, arg], {})

    problem = None
    for v in pool:
        try:
            raw = run(fmt, v)
        except possem.Raised as ex:
            problem = problem or f'the value {v!a} is refused by _format_value ({ex}); every text is a string value'
            continue
        if not isinstance(raw, str):
            raise AnalysisError(f'ESC-RT: _format_value({v!a}) evaluates to {raw!r}')
        m_ = term.match(raw)
        if m_ is None or m_.end() != len(raw):
            problem = problem or (f'the value {v!a} is written as {raw!a}; the lexer ({tname}: {term.pattern!a}) '
                                  + ('does not find a string there' if m_ is None else f'ends the string after {raw[:m_.end()]!a} and meets {raw[m_.end():]!a} behind it')
                                  + ': a quote or backslash of the value is written without its backslash, the printed ledger no longer parses')
            continue
        try:
            back = run(prs, raw)
        except possem.Raised as ex:
            problem = problem or f'the value {v!a} is written as {raw!a}, which _parse_value refuses ({ex})'
            continue
        if back != v:
            problem = problem or f'the value {v!a} is written as {raw!a}, which reads back as {back!a}'
    ctx.check(problem is None, rid, 'models.escaped_string:EscapedString._format_value / _parse_value', 'every text of the pool is written as one string lexeme that reads back as it',
              problem or '', fmt.where, note=f'{len(pool)} values')
