"""TS-SEQ -- symbolic evaluation of TokenStore._splice and its block helpers over symbolic token sequences.

The source of _splice / _update_block / _merge_blocks / _split_block / _update_block_indexes is interpreted (an AST
interpreter written here, never the Python interpreter) over an abstract store: a concrete short list of block
objects whose token lists are *symbolic sequences* (concatenations of named atoms and of slices at symbolic cut
points) and whose lengths / thresholds are linear forms over opaque symbols.  Every comparison that is not decided
by the linear forms forks the path (both outcomes explored), so every combination of split / merge / rebalance /
rebuild / fast path is walked for every placement (first, middle, last block; same block or several blocks).

Obligations at the return of _splice, per path:
  sequence : concat(block token lists) == before[:start] + inserted + before[end:]           (normal forms compared)
  index    : blocks[i].index == i and blocks[i].store is the store, no block listed twice
  handles  : every block in the list has had its handles re-established since its token list last changed
             (rebuild(), extend() onto a clean block, the in-place loop from the first changed position)
  sizes    : every block's size / last_newline_index caches were rebuilt, or patched (both fields), since then
  len      : _len == old _len + len(inserted) - len(removed range)                              (linear forms)
  detach   : the handles of exactly the removed ranges were set to None (per block, as ranges over the old token lists)
rebuild / extend / from_tokens / _build_blocks are primitives here; their bodies are the business of POS-FORM and
BUILD-PART.  Unsupported syntax is an analysis error (exit 2), never a pass.
"""
from __future__ import annotations

import ast
import dataclasses
import itertools
from typing import Any, Optional

from ..model import AnalysisError, FuncInfo, norm, stmts_no_doc
from ..report import RuleContext
from .tokenstore import TS


# ----------------------------------------------------------------------------- linear forms
@dataclasses.dataclass(frozen=True)
class Lin:
    terms: tuple            # sorted tuple of (atom, coef)
    const: int = 0

    def __repr__(self) -> str:
        parts = [f'{c}*{_show_atom(a)}' if c != 1 else _show_atom(a) for a, c in self.terms]
        if self.const or not parts:
            parts.append(str(self.const))
        return ' + '.join(parts)


def _show_atom(a: Any) -> str:
    if isinstance(a, tuple) and a and a[0] == 'sym':
        return a[1]
    if isinstance(a, tuple) and a and a[0] == 'len':
        return f'len({show_seq(a[1])})'
    if isinstance(a, tuple) and a and a[0] in ('>>', '//', '*'):
        return f'({a[1]!r} {a[0]} {a[2]!r})'
    return repr(a)


def lin(x: Any) -> Lin:
    if isinstance(x, Lin):
        return x
    if isinstance(x, bool):
        return Lin((), int(x))
    if isinstance(x, int):
        return Lin((), x)
    raise AnalysisError(f'TS-SEQ: not an integer value: {x!r}')


def mk(terms: dict, const: int) -> Any:
    t = tuple(sorted(((a, c) for a, c in terms.items() if c), key=repr))
    if not t:
        return const
    return Lin(t, const)


def add(a: Any, b: Any, sign: int = 1) -> Any:
    a, b = lin(a), lin(b)
    terms = dict(a.terms)
    for at, c in b.terms:
        terms[at] = terms.get(at, 0) + sign * c
    return mk(terms, a.const + sign * b.const)


def mul(a: Any, b: Any) -> Any:
    if isinstance(a, int) and not isinstance(a, bool):
        a, b = b, a
    if isinstance(b, int):
        a = lin(a)
        return mk({at: c * b for at, c in a.terms}, a.const * b)
    return mk({('*', a, b): 1}, 0)


def sym(name: str) -> Lin:
    return Lin(((('sym', name), 1),), 0)


# ----------------------------------------------------------------------------- symbolic sequences
# Seq = tuple of pieces; piece = ('atom', name) | ('slice', Seq, lo, hi)   (lo / hi: int | Lin | None)
def atom(name: str) -> tuple:
    return (('atom', name),)


def seq_slice(s: tuple, lo: Any, hi: Any) -> tuple:
    if lo == 0:
        lo = None
    if lo is None and hi is None:
        return s
    if not s:
        return s
    return normalise((('slice', s, lo, hi),))


def normalise(s: tuple) -> tuple:
    out: list = []
    for p in s:
        if out and p[0] == 'slice' and out[-1][0] == 'slice' and out[-1][1] == p[1] and out[-1][3] is not None \
                and out[-1][3] == p[2]:
            prev = out.pop()
            lo, hi = prev[2], p[3]
            if lo is None and hi is None:
                out.extend(p[1])
            else:
                out.append(('slice', p[1], lo, hi))
            continue
        out.append(p)
    res = tuple(out)
    if res != s:
        return normalise(res)
    return res


def concat(*seqs: tuple) -> tuple:
    return normalise(tuple(itertools.chain.from_iterable(seqs)))


def show_seq(s: tuple) -> str:
    if not s:
        return '[]'
    parts = []
    for p in s:
        if p[0] == 'atom':
            parts.append(p[1])
        else:
            lo = '' if p[2] is None else repr(p[2])
            hi = '' if p[3] is None else repr(p[3])
            inner = show_seq(p[1])
            parts.append(f'({inner})[{lo}:{hi}]' if len(p[1]) > 1 else f'{inner}[{lo}:{hi}]')
    return ' + '.join(parts)


_COORD = None


def _is_coord(v: Any) -> bool:
    """one of the scenario's coordinates start_j / end_j (valid positions of their blocks by precondition)"""
    return isinstance(v, Lin) and v.const == 0 and len(v.terms) == 1 and v.terms[0][1] == 1 and v.terms[0][0] in (('sym', 'start_j'), ('sym', 'end_j'))


def seq_len(s: tuple) -> Any:
    total: Any = 0
    for p in s:
        if p[0] == 'slice' and len(p[1]) == 1 and p[1][0][0] == 'atom' and (p[2] is None or _is_coord(p[2])) and (p[3] is None or _is_coord(p[3])):
            # X[lo:hi] with lo / hi valid positions of X: hi - lo elements
            hi = p[3] if p[3] is not None else Lin(((('len', (p[1][0],)), 1),), 0)
            lo = p[2] if p[2] is not None else 0
            total = add(total, add(hi, lo, -1))
            continue
        total = add(total, Lin(((('len', (p,)), 1),), 0))
    return total


# ----------------------------------------------------------------------------- abstract objects
class Block:
    def __init__(self, store: Any, index: Any, tokens: tuple, clean: bool, name: str) -> None:
        self.store = store
        self.index = index
        self.tokens = tokens
        self.cp: set = set() if clean else {0}          # lower bounds of the first position whose handle may be stale
        self.bad_handles = ''                           # handles written with the wrong block / index
        self.sdirty = not clean
        self.patched: set = set()
        self.name = name

    def touch(self, lo: Any) -> None:
        self.cp.add(lo)
        self.sdirty = True
        self.patched = set()

    def __repr__(self) -> str:
        return f'<block {self.name} index={self.index} tokens={show_seq(self.tokens)}>'


class Store:
    def __init__(self) -> None:
        self.blocks: list = []
        self.len: Any = 0


@dataclasses.dataclass(frozen=True)
class SizeRef:
    block: Any


@dataclasses.dataclass(frozen=True)
class TokensRef:
    """`<block>.tokens` as an assignable place"""
    block: Any


@dataclasses.dataclass(frozen=True)
class TokElem:
    block: Any              # Block or None (a token of the inserted sequence)
    idx: Any                # RangeVar or None


@dataclasses.dataclass(frozen=True)
class SeqElem:
    """loop variable over a symbolic token sequence: stands for every token of every piece"""
    pieces: tuple


@dataclasses.dataclass(frozen=True)
class RangeVar:
    lo: Any
    hi: Any
    uid: int


@dataclasses.dataclass(frozen=True)
class HandleV:
    block: Any
    index: Any


class Unk:
    def __repr__(self) -> str:
        return '?'


UNK = Unk()


@dataclasses.dataclass(frozen=True)
class RangeV:
    lo: Any
    hi: Any


@dataclasses.dataclass(frozen=True)
class BoundMethod:
    recv: Any
    name: str


class _Return(Exception):
    def __init__(self, v: Any) -> None:
        self.v = v


class _Raised(Exception):
    pass


class _Pruned(Exception):
    pass


# ----------------------------------------------------------------------------- interpreter
class SeqInterp:
    MAX_STEPS = 20000

    def __init__(self, ts: TS, script: list[int]) -> None:
        self.ts = ts
        self.script = script
        self.pos = 0
        self.taken: list[tuple[int, int, str]] = []      # (choice, arity, label)
        self.abstract = 0
        self.steps = 0
        self.uid = 0
        self.calls: list[str] = []
        self.trace: list[str] = []
        self.fresh = 0
        self.cleared: list[tuple[str, Any, Any]] = []      # (block, lo, hi): handles set to None over tokens[lo:hi] as they were then

    # -- nondeterminism ---------------------------------------------------------
    def choose(self, n: int, label: str) -> int:
        if self.pos < len(self.script):
            c = self.script[self.pos]
        else:
            c = 0
        self.pos += 1
        self.taken.append((c, n, label))
        return c

    def err(self, node: ast.AST, what: str) -> AnalysisError:
        return AnalysisError(f'TS-SEQ: unsupported {what}: `{norm(node)[:90]}` (token_store.py:{getattr(node, "lineno", "?")})')

    # -- calls ------------------------------------------------------------------
    def all_blocks(self) -> list:
        st = getattr(self, 'root_store', None)
        return list(st.blocks) if st is not None else []

    def call_function(self, fn: FuncInfo, args: list, kwargs: dict) -> Any:
        if args and isinstance(args[0], Store) and getattr(self, 'root_store', None) is None:
            self.root_store = args[0]
        params = list(fn.params)
        env: dict[str, Any] = {}
        for name, v in zip(params, args):
            env[name] = v
        for k, v in kwargs.items():
            env[k] = v
        a = fn.node.args
        defaults = dict(zip([x.arg for x in a.args][len(a.args) - len(a.defaults):], a.defaults))
        for name in params:
            if name not in env:
                if name in defaults:
                    env[name] = self.expr(defaults[name], {})
                else:
                    raise AnalysisError(f'TS-SEQ: missing argument {name} calling {fn.qualname}')
        self.calls.append(fn.qualname)
        self.trace.append(fn.qualname)
        try:
            self.block(stmts_no_doc(fn.node.body), env)
        except _Return as r:
            return r.v
        return None

    # -- statements -------------------------------------------------------------
    def block(self, body: list[ast.stmt], env: dict) -> None:
        for st in body:
            self.stmt(st, env)

    def stmt(self, st: ast.stmt, env: dict) -> None:
        self.steps += 1
        if self.steps > self.MAX_STEPS:
            raise AnalysisError('TS-SEQ: step budget exhausted (unbounded loop over symbolic values?)')
        if isinstance(st, ast.Expr):
            if not isinstance(st.value, ast.Constant):
                self.expr(st.value, env)
        elif isinstance(st, ast.Assign):
            v = self.expr(st.value, env)
            for t in st.targets:
                self.assign(t, v, env)
        elif isinstance(st, ast.AnnAssign):
            if st.value is not None:
                self.assign(st.target, self.expr(st.value, env), env)
        elif isinstance(st, ast.AugAssign):
            self.augassign(st, env)
        elif isinstance(st, ast.If):
            t = self.truth(self.expr(st.test, env), st.test)
            if t == 'both':
                self.block(st.body, env)
                self.block(st.orelse, env)
            elif t:
                self.block(st.body, env)
            else:
                self.block(st.orelse, env)
        elif isinstance(st, ast.While):
            n = 0
            while True:
                t = self.truth(self.expr(st.test, env), st.test)
                if t == 'both':
                    raise self.err(st, 'while loop over an undecided condition')
                if not t:
                    break
                n += 1
                if n > 64:
                    raise self.err(st, 'while loop (more than 64 iterations)')
                self.block(st.body, env)
            self.block(st.orelse, env)
        elif isinstance(st, ast.For):
            self.for_(st, env)
        elif isinstance(st, ast.Return):
            raise _Return(self.expr(st.value, env) if st.value is not None else None)
        elif isinstance(st, ast.Raise):
            if self.abstract:
                # a refusal inside a summarised loop (the "already in a store" gate): it must come before the store is touched
                if getattr(self, 'mutations', 0) and getattr(self, 'late_raise', None) is None:
                    self.late_raise = f'`{norm(st)[:60]}` (line {getattr(st, "lineno", "?")}) can refuse after {self.mutations} write(s) to the store / its tokens'
                return
            raise _Raised()
        elif isinstance(st, ast.Delete):
            for t in st.targets:
                self.delete(t, env)
        elif isinstance(st, ast.Pass):
            pass
        elif isinstance(st, ast.Assert):
            pass
        else:
            raise self.err(st, 'statement')

    def for_(self, st: ast.For, env: dict) -> None:
        it = self.expr(st.iter, env)
        if st.orelse:
            raise self.err(st, 'for-else')
        if isinstance(it, RangeV) and isinstance(it.lo, int) and isinstance(it.hi, int):
            for i in range(it.lo, it.hi):
                self.assign(st.target, i, env)
                self.block(st.body, env)
            return
        if isinstance(it, list):
            for x in list(it):
                self.assign(st.target, x, env)
                self.block(st.body, env)
            return
        # a loop over a symbolic range or over a token sequence: its body is summarised (run once, abstractly)
        if isinstance(it, RangeV):
            self.uid += 1
            var: Any = RangeVar(it.lo, it.hi, self.uid)
        elif isinstance(it, tuple):
            var = SeqElem(it)
        elif isinstance(it, TokensRef):
            var = TokElem(it.block, None)
        else:
            raise self.err(st, f'loop over {it!r}')
        self.assign(st.target, var, env)
        self.abstract += 1
        try:
            self.block(st.body, env)
        finally:
            self.abstract -= 1

    def delete(self, t: ast.AST, env: dict) -> None:
        if isinstance(t, ast.Subscript):
            base = self.expr(t.value, env)
            if isinstance(base, TokensRef) and isinstance(t.slice, ast.Slice):
                lo, hi = self.slice_bounds(t.slice, env)
                b = base.block
                old = b.tokens
                b.tokens = concat(seq_slice(old, None, lo) if lo is not None else (), seq_slice(old, hi, None) if hi is not None else ())
                if hi is not None:
                    b.touch(lo if lo is not None else 0)
                else:
                    b.sdirty = True
                    b.patched = set()
                return
            if isinstance(base, list):
                if isinstance(t.slice, ast.Slice):
                    lo, hi = self.slice_bounds(t.slice, env)
                    del base[slice(self.cint(lo, t), self.cint(hi, t))]
                else:
                    del base[self.cint(self.expr(t.slice, env), t)]
                return
        raise self.err(t, 'del target')

    def cint(self, v: Any, node: ast.AST) -> Any:
        if v is None or (isinstance(v, int) and not isinstance(v, bool)):
            return v
        raise self.err(node, f'block-list position that is not a concrete integer ({v!r})')

    def slice_bounds(self, s: ast.Slice, env: dict) -> tuple[Any, Any]:
        if s.step is not None:
            raise self.err(s, 'slice step')
        lo = self.expr(s.lower, env) if s.lower is not None else None
        hi = self.expr(s.upper, env) if s.upper is not None else None
        return lo, hi

    def assign(self, t: ast.AST, v: Any, env: dict) -> None:
        if isinstance(t, ast.Name):
            env[t.id] = v
        elif isinstance(t, (ast.Tuple, ast.List)):
            if not isinstance(v, tuple) or (v and isinstance(v[0], tuple) and v[0] and v[0][0] in ('atom', 'slice')):
                raise self.err(t, f'unpacking of {v!r}')
            if len(v) != len(t.elts):
                raise self.err(t, 'unpacking arity')
            for sub, x in zip(t.elts, v):
                self.assign(sub, x, env)
        elif isinstance(t, ast.Attribute):
            base = self.expr(t.value, env)
            self.setattr_(base, t.attr, v, t)
        elif isinstance(t, ast.Subscript):
            base = self.expr(t.value, env)
            if isinstance(base, TokensRef) and isinstance(t.slice, ast.Slice):
                lo, hi = self.slice_bounds(t.slice, env)
                b = base.block
                new = self.as_seq(v, t)
                old = b.tokens
                b.tokens = concat(seq_slice(old, None, lo) if lo is not None else (), new,
                                  seq_slice(old, hi, None) if hi is not None else ())
                b.touch(lo if lo is not None else 0)
                return
            if isinstance(base, list) and isinstance(t.slice, ast.Slice):
                lo, hi = self.slice_bounds(t.slice, env)
                if not isinstance(v, list):
                    raise self.err(t, f'block-list slice assigned {v!r}')
                base[slice(self.cint(lo, t), self.cint(hi, t))] = list(v)
                return
            if isinstance(base, list):
                base[self.cint(self.expr(t.slice, env), t)] = v
                return
            raise self.err(t, 'subscript assignment')
        else:
            raise self.err(t, 'assignment target')

    def setattr_(self, base: Any, attr: str, v: Any, node: ast.AST) -> None:
        if isinstance(base, (Block, Store, TokElem, SeqElem, TokensRef, SizeRef)):
            self.mutations = getattr(self, 'mutations', 0) + 1
        if isinstance(base, Block):
            if attr == 'index':
                base.index = v
            elif attr == 'tokens':
                base.tokens = self.as_seq(v, node)
                base.touch(0)
            elif attr == 'store':
                base.store = v
            elif attr == 'last_newline_index':
                base.patched.add('nl')
            elif attr == 'size':
                base.patched.add('line')
                base.patched.add('column')
            else:
                raise self.err(node, f'write to block attribute {attr}')
        elif isinstance(base, SizeRef):
            base.block.patched.add(attr)
        elif isinstance(base, Store):
            if attr == '_len':
                base.len = v
            elif attr == '_blocks':
                if not isinstance(v, list):
                    raise self.err(node, 'block list assigned a non-list')
                base.blocks = v
            else:
                raise self.err(node, f'write to store attribute {attr}')
        elif isinstance(base, SeqElem):
            if attr != 'store_handle':
                raise self.err(node, f'write to token attribute {attr}')
            if v is not None:
                raise self.err(node, 'handles assigned in a loop over a computed token sequence')
            # handles cleared over every piece that is (a slice of) the unchanged content of a block of the store
            blocks = {b.name: b for b in self.all_blocks()}
            for piece in base.pieces:
                if piece[0] == 'atom' and piece[1] in blocks and blocks[piece[1]].tokens == (piece,):
                    self.cleared.append((piece[1], 0, seq_len((piece,))))
                elif piece[0] == 'slice' and len(piece[1]) == 1 and piece[1][0][0] == 'atom' and piece[1][0][1] in blocks \
                        and blocks[piece[1][0][1]].tokens == piece[1]:
                    self.cleared.append((piece[1][0][1], 0 if piece[2] is None else piece[2], seq_len(piece[1]) if piece[3] is None else piece[3]))
        elif isinstance(base, TokElem):
            if attr != 'store_handle':
                raise self.err(node, f'write to token attribute {attr}')
            if v is None:
                if base.block is not None:
                    if isinstance(base.idx, RangeVar):
                        self.cleared.append((base.block.name, base.idx.lo, base.idx.hi))
                    elif base.idx is None:
                        self.cleared.append((base.block.name, 0, seq_len(base.block.tokens)))
                return
            if not isinstance(v, HandleV):
                raise self.err(node, 'store_handle assigned something other than None / _StoreHandle(...)')
            self.rehandle(base, v, node)
        else:
            raise self.err(node, f'attribute write on {base!r}')

    def rehandle(self, tok: TokElem, h: HandleV, node: ast.AST) -> None:
        b = tok.block
        if b is None or not isinstance(tok.idx, RangeVar):
            raise self.err(node, 're-handling loop')
        if h.block is not b or h.index != tok.idx:
            b.bad_handles = f'`{norm(node)}` writes a handle that does not name the token\'s own block and position'
            return
        rv = tok.idx
        if rv.hi != seq_len(b.tokens):
            return                          # does not run to the end of the block: later handles stay as they were
        if all(x == rv.lo or x == seq_len(b.tokens) for x in b.cp) or rv.lo == 0:
            b.cp = set()

    def augassign(self, st: ast.AugAssign, env: dict) -> None:
        t = st.target
        rhs = self.expr(st.value, env)
        if isinstance(t, ast.Name):
            cur = env.get(t.id, UNK)
            env[t.id] = self.binop(st.op, cur, rhs, st)
            return
        if isinstance(t, ast.Attribute):
            base = self.expr(t.value, env)
            if isinstance(base, Block) and t.attr == 'tokens':
                if not isinstance(st.op, ast.Add):
                    raise self.err(st, 'operator on a token list')
                old = base.tokens
                base.tokens = concat(old, self.as_seq(rhs, st))
                base.touch(seq_len(old))
                return
            if isinstance(base, Block) and t.attr == 'last_newline_index':
                base.patched.add('nl')
                return
            if isinstance(base, Block) and t.attr == 'index':
                base.index = self.binop(st.op, base.index, rhs, st)
                return
            if isinstance(base, SizeRef):
                base.block.patched.add(t.attr)
                return
            if isinstance(base, Store) and t.attr == '_len':
                base.len = self.binop(st.op, base.len, rhs, st)
                return
        raise self.err(st, 'augmented assignment')

    # -- expressions ------------------------------------------------------------
    def as_seq(self, v: Any, node: ast.AST) -> tuple:
        if isinstance(v, TokensRef):
            return v.block.tokens
        if isinstance(v, tuple) and (not v or (isinstance(v[0], tuple) and v[0] and v[0][0] in ('atom', 'slice'))):
            return v
        raise self.err(node, f'token sequence expected, got {v!r}')

    def truth(self, v: Any, node: ast.AST) -> Any:
        if isinstance(v, bool):
            return v
        if v is None:
            return False
        if isinstance(v, int):
            return v != 0
        if isinstance(v, (Lin, Unk)) or (isinstance(v, tuple) and v and v[0] == 'cmp'):
            if self.abstract:
                return 'both'
            return bool(self.choose(2, f'{norm(node)[:60]} (line {getattr(node, "lineno", "?")})'))
        if isinstance(v, list):
            return bool(v)
        if isinstance(v, (Block, Store, HandleV)):
            return True
        if isinstance(v, TokensRef):
            return self.truth(seq_len(v.block.tokens), node)
        if isinstance(v, tuple):
            return self.truth(seq_len(v), node) if v else False
        raise self.err(node, f'truth value of {v!r}')

    def binop(self, op: ast.operator, a: Any, b: Any, node: ast.AST) -> Any:
        if isinstance(a, TokensRef):
            a = a.block.tokens
        if isinstance(b, TokensRef):
            b = b.block.tokens
        if isinstance(a, Unk) or isinstance(b, Unk):
            return UNK
        if isinstance(op, ast.Add):
            if isinstance(a, tuple) and isinstance(b, tuple):
                return concat(self.as_seq(a, node), self.as_seq(b, node))
            if isinstance(a, list) and isinstance(b, list):
                return a + b
            return add(a, b)
        if isinstance(op, ast.Sub):
            return add(a, b, -1)
        if isinstance(op, ast.Mult):
            return mul(a, b)
        if isinstance(op, (ast.RShift, ast.FloorDiv)):
            if isinstance(a, int) and isinstance(b, int):
                return a >> b if isinstance(op, ast.RShift) else a // b
            return mk({('>>' if isinstance(op, ast.RShift) else '//', a, b): 1}, 0)
        raise self.err(node, 'operator')

    def compare(self, op: ast.cmpop, a: Any, b: Any, node: ast.AST) -> Any:
        if isinstance(op, (ast.Is, ast.IsNot)):
            same = a is b
            if isinstance(a, Unk) or isinstance(b, Unk):
                return UNK
            return same if isinstance(op, ast.Is) else not same
        if isinstance(a, Unk) or isinstance(b, Unk):
            return UNK
        if isinstance(a, tuple) and isinstance(b, tuple) and not self._is_seq(a) and not self._is_seq(b):
            # lexicographic comparison of (block index, position) pairs
            if len(a) != len(b):
                raise self.err(node, 'tuple comparison')
            for x, y in zip(a, b):
                if isinstance(x, Unk) or isinstance(y, Unk):
                    return UNK
                d = add(y, x, -1)
                if isinstance(d, int) and d == 0:
                    continue
                return self.compare(op, x, y, node) if isinstance(d, int) else UNK
            return isinstance(op, (ast.Eq, ast.LtE, ast.GtE))
        if isinstance(a, (int, Lin)) and isinstance(b, (int, Lin)) and not isinstance(a, bool) and not isinstance(b, bool):
            d = add(b, a, -1)
            if isinstance(d, int):
                return {ast.Lt: d > 0, ast.LtE: d >= 0, ast.Gt: d < 0, ast.GtE: d <= 0, ast.Eq: d == 0, ast.NotEq: d != 0}[type(op)]
            return ('cmp', type(op).__name__, a, b)
        if isinstance(op, (ast.Eq, ast.NotEq)):
            eq = a == b
            return eq if isinstance(op, ast.Eq) else not eq
        raise self.err(node, f'comparison of {a!r} and {b!r}')

    @staticmethod
    def _is_seq(v: tuple) -> bool:
        return not v or (isinstance(v[0], tuple) and bool(v[0]) and v[0][0] in ('atom', 'slice'))

    def expr(self, e: ast.AST, env: dict) -> Any:
        if isinstance(e, ast.Constant):
            return e.value
        if isinstance(e, ast.Name):
            if e.id in env:
                return env[e.id]
            if e.id.isupper() or (e.id.startswith('_') and e.id[1:].replace('_', '').isupper()):
                return sym(e.id)
            if e.id in ('_StoreBlock', '_StoreHandle', 'len', 'range', 'list', 'isinstance', '_build_blocks', 'Position', 'enumerate', 'tuple'):
                return ('builtin', e.id)
            if e.id in self.ts.funcs and '.' not in e.id:
                return ('function', self.ts.funcs[e.id])         # a module-level helper of token_store.py: interpreted like a method
            raise self.err(e, 'name')
        if isinstance(e, ast.Attribute):
            base = self.expr(e.value, env)
            return self.getattr_(base, e.attr, e)
        if isinstance(e, ast.Subscript):
            base = self.expr(e.value, env)
            if isinstance(e.slice, ast.Slice):
                lo, hi = self.slice_bounds(e.slice, env)
                if isinstance(base, TokensRef):
                    return seq_slice(base.block.tokens, lo, hi)
                if isinstance(base, tuple) and self._is_seq(base):
                    return seq_slice(base, lo, hi)
                if isinstance(base, list):
                    return base[slice(self.cint(lo, e), self.cint(hi, e))]
                raise self.err(e, 'slice')
            i = self.expr(e.slice, env)
            if isinstance(base, list):
                i = self.cint(i, e)
                if not -len(base) <= i < len(base):
                    raise _BadIndex(f'`{norm(e)}` indexes the block list at {i} while it holds {len(base)} block(s)')
                return base[i]
            if isinstance(base, TokensRef):
                if isinstance(i, RangeVar):
                    return TokElem(base.block, i)
                return TokElem(base.block, None)
            if isinstance(base, tuple) and not self._is_seq(base):
                return base[self.cint(i, e)]
            raise self.err(e, 'subscript')
        if isinstance(e, ast.BinOp):
            return self.binop(e.op, self.expr(e.left, env), self.expr(e.right, env), e)
        if isinstance(e, ast.UnaryOp):
            v = self.expr(e.operand, env)
            if isinstance(e.op, ast.Not):
                t = self.truth(v, e.operand)
                return UNK if t == 'both' else (not t)
            if isinstance(e.op, ast.USub):
                return mul(v, -1) if not isinstance(v, Unk) else UNK
            raise self.err(e, 'unary operator')
        if isinstance(e, ast.BoolOp):
            unknown = False
            v: Any = None
            t: Any = None
            for sub in e.values:
                v = self.expr(sub, env)
                t = self.truth(v, sub)
                if t == 'both':
                    unknown = True
                    continue
                if isinstance(e.op, ast.And) and not t:
                    return False
                if isinstance(e.op, ast.Or) and t:
                    return v if isinstance(v, (Block, Store, list)) else True
            if unknown:
                return UNK
            return v if isinstance(v, (Block, Store, list)) or v is None else bool(t)
        if isinstance(e, ast.Compare):
            left = self.expr(e.left, env)
            result: Any = True
            for op, c in zip(e.ops, e.comparators):
                right = self.expr(c, env)
                r = self.compare(op, left, right, e)
                if isinstance(r, Unk):
                    result = UNK
                else:
                    t = self.truth(r, e)
                    if t == 'both':
                        result = UNK
                    elif not t:
                        return False
                left = right
            return result
        if isinstance(e, ast.IfExp):
            t = self.truth(self.expr(e.test, env), e.test)
            if t == 'both':
                raise self.err(e, 'conditional expression over an undecided condition')
            return self.expr(e.body if t else e.orelse, env)
        if isinstance(e, ast.Tuple):
            return tuple(self.expr(x, env) for x in e.elts)
        if isinstance(e, ast.List):
            vals: list = []
            seq_mode = False
            pieces: list = []
            for x in e.elts:
                if isinstance(x, ast.Starred):
                    v = self.expr(x.value, env)
                    if isinstance(v, list):
                        vals.extend(v)
                    else:
                        seq_mode = True
                        pieces.append(self.as_seq(v, x))
                else:
                    vals.append(self.expr(x, env))
            if seq_mode:
                if vals:
                    raise self.err(e, 'list display mixing blocks and token sequences')
                return concat(*pieces)
            if not vals:
                return []
            return vals
        if isinstance(e, ast.Call):
            return self.call(e, env)
        if isinstance(e, ast.NamedExpr):
            v = self.expr(e.value, env)
            env[e.target.id] = v
            return v
        raise self.err(e, 'expression')

    def getattr_(self, base: Any, attr: str, node: ast.AST) -> Any:
        if isinstance(base, Store):
            if attr == '_blocks':
                return base.blocks
            if attr == '_len':
                return base.len
            fn = self.ts.funcs.get(f'TokenStore.{attr}')
            if fn is not None:
                return BoundMethod(base, attr)
            raise self.err(node, 'store attribute')
        if isinstance(base, Block):
            if attr == 'index':
                return base.index
            if attr == 'tokens':
                return TokensRef(base)
            if attr == 'store':
                return base.store
            if attr == 'size':
                return SizeRef(base)
            if attr == 'last_newline_index':
                return UNK
            if attr in ('rebuild', 'extend'):
                return BoundMethod(base, attr)
            raise self.err(node, 'block attribute')
        if isinstance(base, list) and attr in ('pop', 'append', 'insert', 'extend', 'clear'):
            return BoundMethod(base, attr)
        if isinstance(base, TokensRef) and attr in ('extend', 'clear', 'copy'):
            return BoundMethod(base, attr)
        if isinstance(base, (TokElem, SeqElem, Unk, SizeRef)):
            return UNK
        if isinstance(base, HandleV):
            if attr == 'block':
                return base.block
            if attr == 'index':
                return base.index
        if isinstance(base, tuple) and base and base[0] == 'builtin' and base[1] == '_StoreBlock' and attr == 'from_tokens':
            return ('builtin', '_StoreBlock.from_tokens')
        raise self.err(node, f'attribute of {base!r}')

    def new_block(self, store: Any, index: Any, tokens: tuple, clean: bool) -> Block:
        self.fresh += 1
        return Block(store, index, tokens, clean, f'new{self.fresh}')

    def call(self, e: ast.Call, env: dict) -> Any:
        if isinstance(e.func, ast.Name) and e.func.id == 'sum' and e.func.id not in env and e.args and not e.keywords:
            total: Any = self.expr(e.args[1], env) if len(e.args) > 1 else 0
            a0 = e.args[0]
            if isinstance(a0, (ast.GeneratorExp, ast.ListComp)) and len(a0.generators) == 1 and not a0.generators[0].ifs:
                it_ = self.expr(a0.generators[0].iter, env)
                if isinstance(it_, RangeV) and isinstance(it_.lo, int) and isinstance(it_.hi, int):
                    items: list = list(range(it_.lo, it_.hi))
                elif isinstance(it_, list):
                    items = list(it_)
                else:
                    raise self.err(e, 'sum over a symbolic iterable')
                for x in items:
                    en = dict(env)
                    self.assign(a0.generators[0].target, x, en)
                    total = add(total, self.expr(a0.elt, en))
                return total
            v = self.expr(a0, env)
            if isinstance(v, list):
                for x in v:
                    total = add(total, x)
                return total
            raise self.err(e, 'sum()')
        f = self.expr(e.func, env)
        if any(isinstance(a, ast.Starred) for a in e.args) or any(k.arg is None for k in e.keywords):
            raise self.err(e, 'star arguments')
        args = [self.expr(a, env) for a in e.args]
        kwargs = {k.arg: self.expr(k.value, env) for k in e.keywords}
        if isinstance(f, tuple) and len(f) == 2 and f[0] == 'function':
            return self.call_function(f[1], args, kwargs)
        if isinstance(f, BoundMethod):
            r = f.recv
            if isinstance(r, Store):
                fn = self.ts.funcs[f'TokenStore.{f.name}']
                return self.call_function(fn, [r] + args, kwargs)
            if isinstance(r, Block):
                if f.name == 'rebuild':
                    r.cp = set()
                    r.bad_handles = ''
                    r.sdirty = False
                    r.patched = set()
                    self.calls.append('_StoreBlock.rebuild')
                    return None
                if f.name == 'extend':
                    new = self.as_seq(args[0], e)
                    old = r.tokens
                    r.tokens = concat(old, new)
                    self.calls.append('_StoreBlock.extend')
                    # appended tokens get their handles and are added to the size; earlier ones are left as they were
                    return None
            if isinstance(r, TokensRef):
                b = r.block
                if f.name == 'extend':
                    old = b.tokens
                    b.tokens = concat(old, self.as_seq(args[0], e))
                    b.touch(seq_len(old))
                    return None
                if f.name == 'clear':
                    b.tokens = ()
                    b.touch(0)
                    return None
                if f.name == 'copy':
                    return b.tokens
            if isinstance(r, list):
                if f.name == 'pop':
                    i = self.cint(args[0], e) if args else -1
                    if not -len(r) <= i < len(r):
                        raise _BadIndex(f'`{norm(e)}` pops position {i} of a block list of {len(r)}')
                    return r.pop(i)
                if f.name == 'append':
                    r.append(args[0])
                    return None
                if f.name == 'insert':
                    r.insert(self.cint(args[0], e), args[1])
                    return None
                if f.name == 'extend':
                    r.extend(args[0])
                    return None
            raise self.err(e, 'method call')
        if isinstance(f, tuple) and f and f[0] == 'builtin':
            name = f[1]
            if name == 'len':
                v = args[0]
                if isinstance(v, list):
                    return len(v)
                if isinstance(v, TokensRef):
                    return seq_len(v.block.tokens)
                if isinstance(v, tuple):
                    return seq_len(self.as_seq(v, e))
                raise self.err(e, 'len()')
            if name == 'range':
                if len(args) == 1:
                    return RangeV(0, args[0])
                if len(args) == 2:
                    return RangeV(args[0], args[1])
                raise self.err(e, 'range with a step')
            if name == 'list':
                v = args[0] if args else []
                if isinstance(v, list):
                    return list(v)
                return self.as_seq(v, e)
            if name == '_StoreHandle':
                blk = kwargs.get('block', args[0] if args else None)
                idx = kwargs.get('index', args[1] if len(args) > 1 else None)
                return HandleV(blk, idx)
            if name == '_StoreBlock':
                store = kwargs.get('store', args[0] if args else None)
                index = kwargs.get('index', args[1] if len(args) > 1 else None)
                toks = kwargs.get('tokens', args[2] if len(args) > 2 else ())
                if isinstance(toks, list) and not toks:
                    toks = ()
                return self.new_block(store, index, self.as_seq(toks, e), clean=False)
            if name == '_StoreBlock.from_tokens':
                toks = kwargs.get('tokens', args[0] if args else ())
                store = kwargs.get('store', args[1] if len(args) > 1 else None)
                index = kwargs.get('index', args[2] if len(args) > 2 else None)
                return self.new_block(store, index, self.as_seq(toks, e), clean=True)
            if name == '_build_blocks':
                store = kwargs.get('store', args[0] if args else None)
                index = kwargs.get('start_index', args[1] if len(args) > 1 else None)
                toks = self.as_seq(kwargs.get('tokens', args[2] if len(args) > 2 else ()), e)
                n = 1 + self.choose(3, f'_build_blocks yields 1..3 blocks (line {e.lineno})')
                self.calls.append('_build_blocks')
                self.uid += 1
                cuts = [None] + [sym(f'cut{self.uid}_{i}') for i in range(1, n)] + [None]
                return [self.new_block(store, add(index, i), seq_slice(toks, cuts[i], cuts[i + 1]), clean=True) for i in range(n)]
            if name == 'isinstance':
                return UNK
            raise self.err(e, 'call')
        raise self.err(e, 'call')


class _BadIndex(Exception):
    pass


# ----------------------------------------------------------------------------- driver
def _scenarios(max_blocks: int) -> list[tuple[int, int, int]]:
    out = []
    for n in range(1, max_blocks + 1):
        for si in range(n):
            for ei in range(si, n):
                out.append((n, si, ei))
    return out


def rule_ts_seq(ctx: RuleContext, ts: TS, rid: str, max_blocks: int = 4, kinds: Optional[list[str]] = None) -> None:
    ctx.rule(rid, 'symbolic evaluation of TokenStore._splice (with _update_block, _merge_blocks, _split_block, '
                  '_update_block_indexes inlined) over stores of 1..%d blocks holding symbolic token sequences, for every '
                  'placement of the replaced range and every outcome of every size test: at return the concatenated block '
                  'contents equal before[:start] + inserted + before[end:], blocks[i].index == i, every block in the list '
                  'has fresh handles and fresh (or patched) size caches, and _len changed by inserted - removed' % max_blocks)
    entry = ts._need('TokenStore._splice')
    for q in ('TokenStore._update_block', 'TokenStore._merge_blocks', 'TokenStore._split_block'):
        ts._need(q)
    found: dict[str, tuple[str, list[str]]] = {}
    seen_calls: set[str] = set()
    n_paths = 0
    n_refused = 0
    for (n, si, ei) in _scenarios(max_blocks):
        script: list[int] = []
        while True:
            it = SeqInterp(ts, script)
            store = Store()
            names = [f'B{i}' for i in range(n)]
            for i in range(n):
                store.blocks.append(Block(store, i, atom(names[i]), True, names[i]))
            store.len = 0
            for i in range(n):
                store.len = add(store.len, seq_len(atom(names[i])))
            len0 = store.len
            sj, ej = sym('start_j'), sym('end_j')
            ins = atom('INS')
            before = [b.tokens for b in store.blocks]
            expected = concat(*before[:si], seq_slice(before[si], None, sj), ins, seq_slice(before[ei], ej, None), *before[ei + 1:])
            if si == ei:
                removed: Any = add(ej, sj, -1)
            else:
                removed = add(add(seq_len(before[si]), sj, -1), ej)
                for k in range(si + 1, ei):
                    removed = add(removed, seq_len(before[k]))
            where = (f'{n} block(s), range ({si}, start_j)..({ei}, end_j)')
            outcome = 'returned'
            problem: Optional[tuple[str, str]] = None
            try:
                it.call_function(entry, [store, ins, (si, sj), (ei, ej)], {})
            except _Raised:
                outcome = 'raised'
            except _BadIndex as ex:
                problem = ('index', str(ex))
            n_paths += 1
            seen_calls.update(it.calls)
            decisions = [f'{lab} -> {"yes" if c else "no"}' if a == 2 else f'{lab} -> {c + 1}' for c, a, lab in it.taken]
            if outcome == 'raised':
                n_refused += 1
            elif problem is None:
                if getattr(it, 'late_raise', None):
                    problem = ('refusal', f'{it.late_raise}: when the call is refused the removed tokens have already lost their handles (they are still '
                                          f'listed in their block, but get_index / get_position / a later text change no longer find them)')
            if outcome != 'raised' and problem is None:
                problem = _judge(store, expected, add(add(len0, seq_len(ins)), removed, -1))
                if problem is None:
                    if si == ei:
                        want_cleared = {(names[si], sj, ej)}
                    else:
                        want_cleared = {(names[si], sj, seq_len(before[si])), (names[ei], 0, ej)} | {
                            (names[k], 0, seq_len(before[k])) for k in range(si + 1, ei)}
                    got_cleared = {(b, (0 if lo is None else lo), hi) for b, lo, hi in it.cleared}
                    missing = want_cleared - got_cleared
                    if missing:
                        b, lo, hi = sorted(missing, key=repr)[0]
                        problem = ('detach', f'the removed tokens {b}[{lo!r}:{hi!r}] keep their store handles (cleared ranges: '
                                             f'{sorted((x[0], repr(x[1]), repr(x[2])) for x in got_cleared)}): a removed token still claims to be in the store')
            if problem is not None:
                kind, msg = problem
                if kind not in found:
                    found[kind] = (f'{msg} [scenario: {where}]', [f'scenario: {where}', *decisions, f'helpers run: {" > ".join(it.trace)}'])
            # next script (depth-first over the decisions actually taken)
            taken = it.taken
            while taken and taken[-1][0] + 1 >= taken[-1][1]:
                taken = taken[:-1]
            if not taken:
                break
            script = [c for c, _, _ in taken[:-1]] + [taken[-1][0] + 1]
        # end scenario
    for need in ('TokenStore._update_block', 'TokenStore._merge_blocks', 'TokenStore._split_block', '_build_blocks',
                 '_StoreBlock.rebuild', 'TokenStore._update_block_indexes'):
        if need not in seen_calls:
            raise AnalysisError(f'TS-SEQ: {need} was never reached from _splice in any explored path (anchor moved?)')
    if n_paths < 100:
        raise AnalysisError(f'TS-SEQ: only {n_paths} paths explored (>= 100 on the confirmed tree)')
    for kind in kinds or ['sequence', 'index', 'handles', 'sizes', 'len', 'detach', 'refusal']:
        if kind in found:
            msg, path = found[kind]
            ctx.fail(rid, 'token_store:TokenStore._splice', kind, msg, f'{ts.m.relpath}:{entry.node.lineno}', path)
        else:
            ctx.ok(rid, f'TokenStore._splice: {kind}', f'{n_paths} paths over {len(_scenarios(max_blocks))} placements '
                                                         f'({n_refused} refused)')


def _judge(store: Store, expected: tuple, expected_len: Any) -> Optional[tuple[str, str]]:
    blocks = store.blocks
    ids = [id(b) for b in blocks]
    if len(set(ids)) != len(ids):
        return ('index', 'a block is listed twice in _blocks')
    for i, b in enumerate(blocks):
        if not isinstance(b, Block):
            return ('index', f'_blocks[{i}] is not a block')
    got = concat(*[b.tokens for b in blocks])
    if got != expected:
        return ('sequence', f'the store now reads {show_seq(got)} where a list would read {show_seq(expected)}')
    for i, b in enumerate(blocks):
        if b.index != i:
            return ('index', f'_blocks[{i}].index is {b.index!r} at return (blocks: {[x.name for x in blocks]})')
        if b.store is not store:
            return ('index', f'_blocks[{i}].store is not the store')
    for i, b in enumerate(blocks):
        if b.bad_handles:
            return ('handles', b.bad_handles)
        if b.cp:
            lows = ', '.join(sorted(repr(x) for x in b.cp))
            return ('handles', f'block {i} ({show_seq(b.tokens)}) returns with handles not re-established from position {lows} on: '
                               f'those tokens still carry the block/index they had before the edit (or none)')
    for i, b in enumerate(blocks):
        if b.sdirty and not {'line', 'nl'} <= b.patched:
            return ('sizes', f'block {i} ({show_seq(b.tokens)}) returns with size / last_newline_index caches neither rebuilt nor patched')
    if store.len != expected_len:
        return ('len', f'_len is {store.len!r} where the list length is {expected_len!r}')
    return None
