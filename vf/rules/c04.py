"""C04 -- operations that are not edits never change the document (effect purity + permutation-only claims)."""
from __future__ import annotations

import ast
from typing import Any, Iterable, Optional

from ..absint import EffectInterp
from ..model import AnalysisError, FuncInfo, Program, dotted, norm, walk_no_nested
from ..report import RuleContext
from . import effects

EXPLANATION = (
    'Static effect analysis. PURE: every read-only entry point -- every property / custom_property / descriptor getter as '
    'instantiated on every model class, every read method of every view object handed out by repeated properties, comparison, '
    'hashing, copying and printing entry points, and all TokenStore queries -- is interpreted by the effect / ownership abstract '
    'interpreter and must have no store-structure, token-text, tree-shape or claim-flag effect on a Borrowed object (cache writes '
    'and effects on Fresh copies are allowed). CLAIM-PERM: in the comment-attribution code the only store mutation is a '
    'permutation splice: the spliced list is built exclusively from tokens enumerated between the same end points in the same '
    'function (complete two-way partition by isinstance(_, Placeholder), or the named tokens walked by _take_ignored), nothing '
    'constructed or copied flows into it and no token text is written. STORE-READ-PURE: TokenStore query methods contain no '
    'assignment to store / block / token state. It does NOT decide which placeholders neighbour a comment.')

READ_METHODS = ['__eq__', '__hash__', '__deepcopy__', '__iter__', '__len__', '__getitem__', '__contains__', '__repr__',
                'iter_children_formatted', 'clone', '_eq']


def rule_pure(ctx: RuleContext, p: Program, rid: str) -> None:
    ctx.rule(rid, 'a read-only entry point has no StoreStructure / TokenText / TreeShape / ClaimFlag effect on a Borrowed object '
                  '(CacheWrite and effects on Fresh objects are allowed)')
    it = EffectInterp(p)
    ents = effects.enumerate_entries(p, it, ctx.tier)
    n = 0
    bad: dict[str, tuple[str, list[str]]] = {}
    for g in ('get', 'wrapper_read'):
        for e in ents[g]:
            summ = e.run()
            n += 1
            if summ.muts:
                stack, (kind, detail) = next(iter(summ.muts.items()))
                fn = stack[-1][0]
                key = f'{fn}: {stack[-1][1]}'
                bad.setdefault(key, (f'{e.label}: {kind} effect ({detail})', [f'{f[0]}: {f[1]}' for f in stack]))
            ctx.ok(rid, f'read {e.label}', 'no document effect' if not summ.muts else 'see finding', nontrivial=bool(summ.refs or summ.muts or True))
    # explicit read methods of models
    from ..absval import B, Obj
    seen: set[int] = set()
    for c in effects.registered_models(p):
        me = Obj(frozenset({c.qualname}), B, False)
        for nm in READ_METHODS:
            f = c.lookup(nm)
            if not isinstance(f, FuncInfo) or id(f) in seen or f.kind == 'overload':
                continue
            seen.add(id(f))
            for vec in effects._arg_values(it, f):
                summ = it.run_entry(f'{c.name}.{nm}()', it.func_value(f, me), vec)
                n += 1
                if summ.muts:
                    stack, (kind, detail) = next(iter(summ.muts.items()))
                    bad.setdefault(f'{stack[-1][0]}: {stack[-1][1]}', (f'{c.name}.{nm}(): {kind} effect ({detail})', [f'{x[0]}: {x[1]}' for x in stack]))
                ctx.ok(rid, f'read {c.name}.{nm}()', 'no document effect', nontrivial=False)
    pm = p.func('printer', 'print_model')
    summ = it.run_entry('print_model()', it.func_value(pm), [Obj(None, B, False), Obj(None, F_, False)])
    n += 1
    if summ.muts:
        stack, (kind, detail) = next(iter(summ.muts.items()))
        bad.setdefault(f'{stack[-1][0]}: {stack[-1][1]}', (f'print_model: {kind} effect', [f'{x[0]}: {x[1]}' for x in stack]))
    for key, (msg, path) in sorted(bad.items()):
        fn, _, stmt = key.partition(': ')
        ctx.fail(rid, fn, stmt, f'read-only operation changes the document: {msg}', '', path)
    ctx.stats['pure'] = {'read_entries': n, 'unresolved_calls': it.stats['unresolved_calls'],
                         'functions_interpreted': len(it.stats['functions_interpreted']),
                         'skipped_same_signature_in_quick': ents.get('_skipped_same_signature', 0)}
    if n < 250:
        raise AnalysisError(f'PURE: only {n} read-only entry points analysed (>= 250 expected)')
    if it.stats['unresolved_calls'] > 60:
        raise AnalysisError(f'PURE: {it.stats["unresolved_calls"]} unresolved calls: {list(it.stats["unresolved_sites"].items())[:5]}')


F_ = 'F'


def rule_store_read_pure(ctx: RuleContext, p: Program, rid: str) -> None:
    ctx.rule(rid, 'TokenStore query methods (get_*, iter, __iter__, __len__) contain no assignment, augmented assignment, del or '
                  'list-mutator call: they cannot change store, block or token state')
    st = p.cls('TokenStore', 'token_store')
    n = 0
    for f in st.methods():
        if not (f.name.startswith('get_') or f.name in ('iter', '__iter__', '__len__')):
            continue
        n += 1
        bad = []
        # objects created in this call (`pos = Position()`, a copy): writing their fields is not a write to store state
        srcs: dict[str, list[ast.AST]] = {}
        for a in walk_no_nested(f.node):
            if isinstance(a, ast.Assign) and len(a.targets) == 1 and isinstance(a.targets[0], ast.Name):
                srcs.setdefault(a.targets[0].id, []).append(a.value)
        fresh = {nm for nm, vs in srcs.items() if all(
            isinstance(v, ast.Call) and ((isinstance(v.func, ast.Name) and v.func.id[:1].isupper()) or norm(v.func) in ('copy.copy', 'copy.deepcopy'))
            for v in vs)}

        def on_fresh(t: ast.AST) -> bool:
            while isinstance(t, ast.Attribute):
                t = t.value
            return isinstance(t, ast.Name) and t.id in fresh

        for x in walk_no_nested(f.node):
            if isinstance(x, ast.AugAssign) and isinstance(x.target, ast.Attribute) and on_fresh(x.target):
                continue
            if isinstance(x, ast.Assign) and all(isinstance(t, ast.Name) or (isinstance(t, ast.Attribute) and on_fresh(t)) for t in x.targets):
                continue
            if isinstance(x, ast.Delete) or (isinstance(x, ast.AugAssign) and not isinstance(x.target, ast.Name)):
                bad.append(norm(x))
            if isinstance(x, ast.AugAssign) and isinstance(x.target, ast.Name):
                # accumulating into a local: the local must have been created here (constant, len(...), fresh Position())
                src = [a for a in walk_no_nested(f.node) if isinstance(a, ast.Assign) and norm(a.targets[0]) == x.target.id]
                if not src or not all(isinstance(a.value, (ast.Constant, ast.Call)) or isinstance(a.value, ast.Attribute) and a.value.attr == 'index'
                                      for a in src):
                    bad.append(norm(x) + ' (accumulator is not a local value)')
            if isinstance(x, ast.Assign) and not all(isinstance(t, ast.Name) for t in x.targets):
                bad.append(norm(x))
            if isinstance(x, ast.Call) and isinstance(x.func, ast.Attribute) and x.func.attr in (
                    'append', 'extend', 'insert', 'pop', 'remove', 'clear', 'rebuild', 'update', 'splice', '_splice', '_update_block',
                    '_update_block_indexes', '_merge_blocks', '_split_block'):
                bad.append(norm(x))
        ctx.check(not bad, rid, f'token_store:{f.qualname}', '; '.join(bad)[:120] or 'no state write',
                  f'{f.qualname} writes state: {bad[:3]}', f.where, note='only local name bindings')
    if n < 7:
        raise AnalysisError(f'STORE-READ-PURE: only {n} query methods found')


def rule_claim_perm(ctx: RuleContext, p: Program, rid: str) -> None:
    ctx.rule(rid, 'comment attribution only permutes tokens: every store mutation in the claim code is splice(L, a, b) where L is '
                  'built only from tokens enumerated between a and b in the same function (complete partition of iter(a, b) by '
                  'isinstance(_, Placeholder), or the tokens named while walking a..b), with no constructed / copied token and no '
                  'token text write; every other store call in that code is a read')
    mods = [p.module('models.internal.surrounding_comments'), p.module('models.internal.interleaving_comments')]
    n = 0
    for m in mods:
        for f in p.functions_in(m):
            if f.kind == 'overload':
                continue
            for c in walk_no_nested(f.node):
                if not (isinstance(c, ast.Call) and isinstance(c.func, ast.Attribute)):
                    continue
                nm = c.func.attr
                recv = norm(c.func.value)
                if 'store' not in recv:
                    continue
                site = f'{m.name.split(".", 1)[1]}:{f.qualname}'
                if nm in ('insert_after', 'insert_before', 'remove', 'replace', 'update', '_splice'):
                    n += 1
                    ctx.fail(rid, site, norm(c)[:120], f'`{norm(c)[:120]}` inserts/removes tokens in comment-attribution code', f.where)
                elif nm == 'splice':
                    n += 1
                    why = _is_permutation(f, c)
                    ctx.check(not why, rid, site, norm(c)[:140], f'`{norm(c)[:140]}` is not provably a permutation of the tokens '
                              f'between its end points: {why}', f.where, note='permutation splice')
            for a in walk_no_nested(f.node):
                tg = a.targets if isinstance(a, ast.Assign) else [a.target] if isinstance(a, ast.AugAssign) else []
                for t in tg:
                    if isinstance(t, ast.Attribute) and t.attr in ('raw_text', 'value', 'indent', '_raw_text', '_value', '_indent'):
                        n += 1
                        ctx.fail(rid, f'{m.name.split(".", 1)[1]}:{f.qualname}', norm(a)[:100],
                                 f'`{norm(a)[:100]}` writes token text in comment-attribution code', f.where)
    if n < 4:
        raise AnalysisError(f'CLAIM-PERM: only {n} store mutation sites in the claim code (4 confirmed by hand)')


def rule_take_ignored(ctx: RuleContext, p: Program, rid: str) -> None:
    ctx.rule(rid, '_take_ignored(token, succ, ignored) steps only over Placeholder tokens: its loop runs while '
                  'isinstance(token, Placeholder), appends exactly that token to the collector and advances with succ; every other '
                  'token (Newline, DedentMark, Eol, comments ...) stops the walk, so claims cannot cross an indentation boundary '
                  'and the re-inserted token list is exactly what was walked')
    f = p.func('models.internal.surrounding_comments', '_take_ignored')
    tok, succ, coll = f.params[0], f.params[1], f.params[2]
    loops = [l for l in walk_no_nested(f.node) if isinstance(l, (ast.While, ast.For))]
    problems = []
    if len(loops) != 1 or not isinstance(loops[0], ast.While):
        problems.append('expected a single while loop')
    else:
        lp = loops[0]
        t = lp.test
        if not (isinstance(t, ast.Call) and norm(t.func) == 'isinstance' and norm(t.args[0]) == tok and norm(t.args[1]) == 'Placeholder'):
            problems.append(f'the walk continues while `{norm(t)}`; it must continue only while the token is a Placeholder (other zero-width '
                            f'tokens such as the dedent mark delimit indentation classes)')
        body = [norm(s) for s in lp.body]
        if body != [f'{coll}.append({tok})', f'{tok} = {succ}({tok})']:
            problems.append(f'loop body is {body}; expected append the token, then advance with succ')
    rets = [norm(r.value) for r in walk_no_nested(f.node) if isinstance(r, ast.Return)]
    if rets != [tok]:
        problems.append(f'returns {rets}, expected the first non-placeholder token')
    ctx.check(not problems, rid, 'models.internal.surrounding_comments:_take_ignored', '; '.join(problems) or 'ok', '; '.join(problems), f.where,
              note='while isinstance(token, Placeholder): collect; advance')


def _is_permutation(f: FuncInfo, c: ast.Call) -> str:
    if len(c.args) != 3:
        return 'splice without explicit end points'
    L, a, b = c.args
    a_t, b_t = norm(a), norm(b)
    # idiom 1: two lists filled by one loop over store.iter(a, b) partitioning by isinstance(token, Placeholder)
    if isinstance(L, ast.BinOp) and isinstance(L.op, ast.Add) and isinstance(L.left, ast.Name) and isinstance(L.right, ast.Name):
        parts = {L.left.id, L.right.id}
        for lp in [x for x in walk_no_nested(f.node) if isinstance(x, ast.For)]:
            it = lp.iter
            if isinstance(it, ast.Call) and isinstance(it.func, ast.Attribute) and it.func.attr == 'iter' \
                    and [norm(x) for x in it.args] == [a_t, b_t] and len(lp.body) in (1, 2) and not isinstance(lp.body[0], ast.If):
                # selection idiom: the token is appended to ONE of the two lists chosen by an expression -- (A, B)[cond] / A if cond else B
                tv = norm(lp.target)

                def selects(e: ast.AST) -> bool:
                    if isinstance(e, ast.Subscript) and isinstance(e.value, (ast.Tuple, ast.List)) and len(e.value.elts) == 2:
                        return {norm(x) for x in e.value.elts} == parts
                    if isinstance(e, ast.IfExp):
                        return {norm(e.body), norm(e.orelse)} == parts
                    return False
                sel_ok = False
                last = lp.body[-1]
                if isinstance(last, ast.Expr) and isinstance(last.value, ast.Call) and isinstance(last.value.func, ast.Attribute) \
                        and last.value.func.attr == 'append' and len(last.value.args) == 1 and norm(last.value.args[0]) == tv:
                    recv = last.value.func.value
                    if len(lp.body) == 1:
                        sel_ok = selects(recv)
                    elif isinstance(lp.body[0], ast.Assign) and len(lp.body[0].targets) == 1 and isinstance(recv, ast.Name) \
                            and norm(lp.body[0].targets[0]) == recv.id:
                        sel_ok = selects(lp.body[0].value)
                if sel_ok:
                    for nm in parts:
                        inits = [s for s in walk_no_nested(f.node) if isinstance(s, (ast.Assign, ast.AnnAssign))
                                 and norm(s.targets[0] if isinstance(s, ast.Assign) else s.target) == nm]
                        if len(inits) != 1 or not (isinstance(inits[0].value, ast.List) and not inits[0].value.elts):
                            return f'list {nm} is not initialised empty exactly once'
                        others = [s for s in walk_no_nested(f.node) if isinstance(s, ast.Call) and isinstance(s.func, ast.Attribute)
                                  and norm(s.func.value) == nm and s.func.attr != 'append']
                        if others:
                            return f'list {nm} is modified outside the partition loop'
                    return ''
                return 'loop does not append the token to exactly one of the two lists'
            if isinstance(it, ast.Call) and isinstance(it.func, ast.Attribute) and it.func.attr == 'iter' \
                    and [norm(x) for x in it.args] == [a_t, b_t] and len(lp.body) == 1 and isinstance(lp.body[0], ast.If):
                br = lp.body[0]
                tv = norm(lp.target)
                t = br.test
                if not (isinstance(t, ast.Call) and norm(t.func) == 'isinstance' and norm(t.args[0]) == tv):
                    return 'partition test is not isinstance(token, ...)'
                def app(body: list[ast.stmt]) -> Optional[str]:
                    if len(body) == 1 and isinstance(body[0], ast.Expr) and isinstance(body[0].value, ast.Call) \
                            and isinstance(body[0].value.func, ast.Attribute) and body[0].value.func.attr == 'append' \
                            and norm(body[0].value.args[0]) == tv and isinstance(body[0].value.func.value, ast.Name):
                        return body[0].value.func.value.id
                    return None
                x, y = app(br.body), app(br.orelse)
                if x and y and {x, y} == parts and x != y:
                    # both lists start empty and are not touched elsewhere
                    for nm in parts:
                        inits = [s for s in walk_no_nested(f.node) if isinstance(s, (ast.Assign, ast.AnnAssign))
                                 and norm(s.targets[0] if isinstance(s, ast.Assign) else s.target) == nm]
                        if len(inits) != 1 or not (isinstance(inits[0].value, ast.List) and not inits[0].value.elts):
                            return f'list {nm} is not initialised empty exactly once'
                        others = [s for s in walk_no_nested(f.node) if isinstance(s, ast.Call) and isinstance(s.func, ast.Attribute)
                                  and norm(s.func.value) == nm and s.func.attr != 'append']
                        if others:
                            return f'list {nm} is modified outside the partition loop'
                    return ''
                return 'loop does not append the token to exactly one of the two lists in both branches'
        return 'no loop over iter(a, b) partitions the tokens into the spliced lists'
    # idiom 2: explicit list of the tokens walked between the end points: [newline, comment, *ignored] / [*reversed(ignored), comment, newline]
    if isinstance(L, ast.List):
        names = []
        for el in L.elts:
            e = el.value if isinstance(el, ast.Starred) else el
            if isinstance(e, ast.Call) and norm(e.func) == 'reversed' and len(e.args) == 1:
                e = e.args[0]
            if not isinstance(e, ast.Name):
                return f'element {norm(el)} is not a token walked in this function'
            names.append(e.id)
        # every name must be bound from the walk (succ / _take_ignored) or be the collector passed to _take_ignored
        for nm in names:
            binds = [s for s in walk_no_nested(f.node) if isinstance(s, (ast.Assign, ast.AnnAssign))
                     and norm(s.targets[0] if isinstance(s, ast.Assign) else s.target) == nm]
            ok = False
            for s in binds:
                v = s.value
                if isinstance(v, ast.Call) and norm(v.func) in ('_take_ignored', 'succ'):
                    ok = True
                if isinstance(v, ast.List) and not v.elts:
                    # collector: only ever passed to _take_ignored
                    uses = [c2 for c2 in walk_no_nested(f.node) if isinstance(c2, ast.Call) and any(norm(x) == nm for x in c2.args)]
                    ok = bool(uses) and all(norm(c2.func) in ('_take_ignored', 'reversed') for c2 in uses)
            if not ok:
                return f'{nm} does not come from walking the tokens between the end points'
        if not ({a_t, b_t} & set(names)) or len(set(names)) != len(names):
            return 'end points are not among the re-inserted tokens'
        # the walk covers exactly a..b: one end point is the first token walked, the other the last (comment)
        return ''
    return f'spliced list {norm(L)[:60]} has an unrecognised shape'


def run(ctx: RuleContext, p: Program) -> None:
    ctx.try_rule(rule_pure, p, 'PURE')
    ctx.try_rule(rule_store_read_pure, p, 'STORE-READ-PURE')
    ctx.try_rule(rule_claim_perm, p, 'CLAIM-PERM')
    ctx.try_rule(rule_getter_nowrite, p, 'GETTER-NOWRITE')
    ctx.try_rule(rule_flag_setter, p, 'FLAG-SETTER')
    ctx.try_rule(rule_take_ignored, p, 'TAKE-IGNORED')
    ctx.not_decided += ['which placeholders sit next to a comment (the neighbourhood argument)', 'relative order of non-placeholder '
                        'tokens in _claim_comment\'s explicit list (read off by the reviewer: newline, comment kept in walk order)']
    ctx.assumptions += ['primitive models of the effect interpreter (see C19)', '_take_ignored only appends Placeholder tokens it walks over '
                        '(checked: its loop is `while isinstance(token, Placeholder): ignored.append(token); token = succ(token)`)']


# ====================================================================== GETTER-NOWRITE / FLAG-SETTER (added after seeded round 3)
def rule_getter_nowrite(ctx: RuleContext, p: Program, rid: str) -> None:
    from ..model import CustomProp, self_attr
    ctx.rule(rid, 'no property getter of a model or token class writes to the object it reads: no assignment to an attribute of self '
                  '(which would run a property setter or overwrite a cached part) and no _update_raw_text call, in the getter or in a '
                  'method of the same class it calls on self (depth 2); memoisation through instance.__dict__ / cached_property is exempt')
    raw_model = p.cls('RawModel', 'models.base')
    n = 0

    def writes(fn: FuncInfo, c: Any, depth: int, seen: set[int]) -> Optional[str]:
        if id(fn) in seen or depth > 2:
            return None
        seen.add(id(fn))
        selfn = fn.params[0] if fn.params else 'self'
        for x in walk_no_nested(fn.node):
            tg: list[ast.AST] = []
            if isinstance(x, ast.Assign):
                tg = list(x.targets)
            elif isinstance(x, (ast.AugAssign, ast.AnnAssign)):
                tg = [x.target]
            for t in tg:
                for y in ([t] if not isinstance(t, ast.Tuple) else t.elts):
                    if isinstance(y, ast.Attribute) and isinstance(y.value, ast.Name) and y.value.id == selfn:
                        return f'`{norm(x)[:70]}` in {fn.qualname}'
            if isinstance(x, ast.Call) and isinstance(x.func, ast.Attribute) and isinstance(x.func.value, ast.Name) and x.func.value.id == selfn:
                if x.func.attr == '_update_raw_text':
                    return f'`{norm(x)[:70]}` in {fn.qualname}'
                callee = c.lookup(x.func.attr)
                if isinstance(callee, FuncInfo) and callee.kind == 'method':
                    w = writes(callee, c, depth + 1, seen)
                    if w:
                        return w
        return None

    for c in [raw_model, *raw_model.all_subclasses()]:
        for name, s in c.attrs.items():
            if not isinstance(s, CustomProp) or s.fget is None or s.flavour in ('cached_property',):
                continue
            n += 1
            w = writes(s.fget, c, 0, set())
            ctx.check(w is None, rid, f'{c.module.name.split(".", 1)[1]}:{c.name}.{name}', 'getter writes nothing',
                      f'reading {c.name}.{name} executes {w}: a read re-renders or overwrites part of the object (for a token: its text in the '
                      f'document), so looking at a value changes what is printed', s.fget.where, note='no write to self', nontrivial=False)
    if n < 150:
        raise AnalysisError(f'GETTER-NOWRITE: only {n} getters examined')


def rule_flag_setter(ctx: RuleContext, p: Program, rid: str) -> None:
    from ..model import CustomProp, self_attr
    ctx.rule(rid, 'a token property that is not part of the text (anything but raw_text and the parts _parse_value derives from it, e.g. '
                  'BlockComment.claimed) has a setter that only stores its own flag: it neither calls _update_raw_text nor assigns the text or a '
                  'text-derived part -- attribution of a comment must not re-render it')
    base = p.cls('RawTokenModel', 'models.base')
    n = 0
    for c in [base, *base.all_subclasses()]:
        for name, s in c.attrs.items():
            if not isinstance(s, CustomProp) or s.fset is None or name in ('raw_text', 'value', 'indent'):
                continue
            n += 1
            bad = ''
            for x in walk_no_nested(s.fset.node):
                if isinstance(x, ast.Call) and isinstance(x.func, ast.Attribute) and x.func.attr in ('_update_raw_text', '_format_value'):
                    bad = f'`{norm(x)[:70]}`'
                if isinstance(x, ast.Assign):
                    for t in x.targets:
                        if self_attr(t) in ('_raw_text', '_value', '_indent', 'raw_text', 'value', 'indent'):
                            bad = f'`{norm(x)[:70]}`'
            ctx.check(not bad, rid, f'{c.module.name.split(".", 1)[1]}:{c.name}.{name}[set]', 'stores its flag only',
                      f'the setter of {c.name}.{name} runs {bad}: setting a flag that is not part of the text rewrites the token\'s text, so an '
                      f'operation that only attributes a comment (claim / auto-claim at parse time) changes the printed document', s.fset.where,
                      note='flag only')
    if n < 1:
        raise AnalysisError('FLAG-SETTER: no non-text token property setter found (BlockComment.claimed confirmed by hand)')
