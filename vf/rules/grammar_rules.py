"""Rules that compare Python-side tables with beancount.lark (E4)."""
from __future__ import annotations

import ast
import re
from typing import Any, Optional

from .. import rx
from ..model import AnalysisError, ClassInfo, Const, FuncInfo, Program, dotted, norm, walk_no_nested
from ..report import RuleContext
from .c12 import grammar


def _class_const_str(p: Program, c: ClassInfo, name: str) -> Optional[str]:
    n = p.class_const(c, name)
    if isinstance(n, ast.Constant) and isinstance(n.value, str):
        return n.value
    return None


def _compiled_regex(node: Optional[ast.AST]) -> Optional[tuple[str, int]]:
    if isinstance(node, ast.Call) and norm(node.func) == 're.compile' and node.args and isinstance(node.args[0], ast.Constant):
        flags = 0
        for a in node.args[1:]:
            for part in norm(a).split('|'):
                part = part.strip().replace('re.', '')
                flags |= {'S': re.S, 'DOTALL': re.S, 'M': re.M, 'MULTILINE': re.M, 'I': re.I, 'IGNORECASE': re.I}.get(part, 0)
        return node.args[0].value, flags
    return None


def rule_gram_split(ctx: RuleContext, p: Program, rid: str) -> None:
    ctx.rule(rid, 'every lexeme of _NEWLINE_INDENT_COMMENT fully matches the post-lexer split regex (the `assert match` cannot '
                  'fail); group 1 = newlines, group 2 = [ \\t]*, group 3 starts with ";" and runs to the end; the terminal names '
                  'the post-lexer compares and emits exist in the grammar / are declared')
    g = grammar(p)
    pl = p.cls('PostLex', 'parser')
    rxn = _compiled_regex(p.class_const(pl, '_NEWLINE_INDENT_COMMENT_SPLIT_RE'))
    if rxn is None:
        raise AnalysisError('GRAM-SPLIT: PostLex._NEWLINE_INDENT_COMMENT_SPLIT_RE is not re.compile(<literal>, flags)')
    pat, flags = rxn
    term = _class_const_str(p, pl, '_NEWLINE_INDENT_COMMENT')
    if term not in g.terminals:
        raise AnalysisError(f'GRAM-SPLIT: terminal {term!r} not in the grammar')
    a = g.terminal_nfa(term)             # over-approximated (anchors dropped): larger left side keeps inclusion sound
    b = rx.from_regex(pat, flags)
    ok, w = rx.included(a, b)
    ctx.check(ok, rid, 'parser:PostLex.process: split regex', f'L({term}) in L({pat!r})',
              f'lexeme {w!r} of {term} does not fully match the split regex {pat!r}: `assert match` fails / text is lost', pl.where,
              note=f'L({term}) included in L(split regex)')
    # group structure
    parsed = re.compile(pat, flags)
    groups_ok = parsed.groups == 3
    import re._parser as sp  # type: ignore[import]
    tree = sp.parse(pat, flags)
    shapes = []
    for op, av in tree:
        if str(op) == 'SUBPATTERN':
            shapes.append(av[3])
        elif str(op) in ('MAX_REPEAT',) and str(av[2][0][0]) == 'SUBPATTERN':
            shapes.append(av[2][0][1][3])
    def lang(sub) -> rx.NFA:  # type: ignore[no-untyped-def]
        n = rx.NFA()
        n.start = n.new()
        n.accept = rx._build(n, sub, flags, n.start)
        return n
    problems = []
    if not groups_ok or len(shapes) != 3:
        problems.append(f'split regex has {parsed.groups} groups, expected 3 (newlines, indent, comment)')
    else:
        nl = g.terminal_nfa('_NEWLINE')
        star_nl = rx.from_regex(f'(?:{g.terminals["_NEWLINE"].pattern.to_regexp()})*')
        ok1, w1 = rx.included(star_nl, lang(shapes[0]))
        if not ok1:
            problems.append(f'group 1 does not cover newline run {w1!r}')
        # group 1 must not be able to swallow blanks or ";" (they belong to groups 2 and 3)
        g1 = lang(shapes[0])
        for ch in ' \t;':
            if rx.some_word_containing(g1, ord(ch)) is not None:
                problems.append(f'group 1 can contain {ch!r}')
        eq, x, y = rx.equivalent(lang(shapes[1]), rx.from_regex(r'[ \t]*'))
        if not eq:
            problems.append(f'group 2 is not [ \\t]* (differs on {x!r} / {y!r})')
        ok3, w3 = rx.included(lang(shapes[2]), rx.from_regex(r';.*', re.S))
        if not ok3:
            problems.append(f'group 3 can match {w3!r}, which does not start with ";"')
    ctx.check(not problems, rid, 'parser:PostLex: split regex groups', '; '.join(problems) or 'groups ok', '; '.join(problems),
              pl.where, note='(newlines)(blanks)(;comment)?')
    # names used by the post-lexer
    for cname in ('_NEWLINE', '_EOL', '_INDENT_MARK', '_DEDENT_MARK', '_INDENT', '_BLOCK_COMMENT', '_NEWLINE_INDENT_COMMENT'):
        v = _class_const_str(p, pl, cname)
        ok = v is not None and (v in g.terminals or v in g.declared)
        ctx.check(ok, rid, f'parser:PostLex.{cname}', f'{v}', f'PostLex.{cname} = {v!r} is not a terminal of the grammar', pl.where,
                  note=f'{v}', nontrivial=False)


def rule_gram_reg(ctx: RuleContext, p: Program, rid: str) -> None:
    ctx.rule(rid, 'every terminal that can reach the model builder (used by a rule, %ignore-d or %declare-d, or emitted by the '
                  'post-lexer) has a registered token model with that RULE; every rule that can appear as tree.data is registered '
                  'as a tree model or handled by name in ModelBuilder._build_tree')
    g = grammar(p)
    token_rules = {}
    for c in p.registered('token_model'):
        r = _class_const_str(p, c, 'RULE')
        if r:
            token_rules[r] = c
    tree_rules = {}
    for c in p.registered('tree_model'):
        r = _class_const_str(p, c, 'RULE')
        if r:
            tree_rules[r] = c
    used_terms: set[str] = set()
    tree_names: set[str] = set()
    for r in g.rules:
        if not r.origin.name.startswith('_') and not (r.options and r.options.expand1 and False):
            tree_names.add(str(r.origin.name))
        if str(r.origin.name).split('{')[0].endswith('_') and not str(r.origin.name).startswith('_'):
            continue    # subtrees named *_ are dropped whole by _build_tree: their tokens never reach TOKEN_MODELS
        for s in r.expansion:
            if s.is_term and not getattr(s, 'filter_out', False):
                used_terms.add(str(s.name))
    used_terms |= set(g.ignore)       # ignored terminals carry text and are materialised from gaps
    pl = p.cls('PostLex', 'parser')
    for cname in ('_NEWLINE', '_INDENT', '_BLOCK_COMMENT'):      # emitted with text by the post-lexer
        v = _class_const_str(p, pl, cname)
        if v:
            used_terms.add(v)
    # terminals that never carry text into the builder: NEVER* match nothing, the combined terminal is split by the post-lexer
    never = {t for t in g.terminals if 'NEVER' in t} | {_class_const_str(p, pl, '_NEWLINE_INDENT_COMMENT') or ''}
    n = 0
    for t in sorted(used_terms - never):
        n += 1
        ctx.check(t in token_rules, rid, f'terminal {t}', 'registered token model',
                  f'terminal {t} can reach ModelBuilder (TOKEN_MODELS[{t!r}]) but no token model registers RULE = {t!r}: '
                  f'parsing any text containing it raises KeyError', '', note=f'{token_rules[t].name if t in token_rules else None}')
    mb = p.cls('ModelBuilder', 'parser')
    bt = p.method(mb, '_build_tree', inherited=False)
    # which rule names _build_tree copes with (a Repeated, an indent, dropped by its `_` suffix ...) is decided by interpreting it on a tree that has a
    # sub-tree of that name as its only child (TREE-SEM's interpreter): an unhandled name fails with the KeyError of the model table
    from . import treesem as _treesem
    cand = sorted({r.split('{')[0] for r in tree_names if not r.startswith('__')} - set(tree_rules))
    unhandled = _treesem.unhandled_tree_names(p, cand, set(tree_rules))
    for r in sorted(tree_names):
        if r.startswith('__'):
            continue
        base = r.split('{')[0]
        n += 1
        expand1 = all(rr.options and rr.options.expand1 for rr in g.rules if str(rr.origin.name) == r)
        ok = base in tree_rules or base not in unhandled or expand1
        ctx.check(ok, rid, f'rule {r}', 'registered tree model / handled by name',
                  f'grammar rule {r} can appear as tree.data but is neither a registered tree model nor handled in _build_tree', bt.where,
                  note='tree model' if base in tree_rules else 'handled by _build_tree (interpreted)' if base not in unhandled else 'inlined (?rule)',
                  nontrivial=base in tree_rules)
    if n < 60:
        raise AnalysisError(f'GRAM-REG: only {n} grammar symbols checked')


def rule_spacing_re(ctx: RuleContext, p: Program, rid: str) -> None:
    ctx.rule(rid, 'the two alternatives of _SPACING_GROUP_RE are language-equivalent to the terminals WHITESPACE and _NEWLINE, in '
                  'that order (group 1 -> Whitespace, group 2 -> Newline), and those classes register exactly these terminals')
    g = grammar(p)
    m = p.module('models.internal.spacing_accessors')
    sym = m.symbols.get('_SPACING_GROUP_RE')
    rxn = _compiled_regex(sym.node) if isinstance(sym, Const) else None
    if sym is None:
        # the converter is spelled without this table: SP-ROUTE interprets _text_to_tokens on every spacing text of the domain, whatever it uses
        for tname, cname in (('WHITESPACE', 'Whitespace'), ('_NEWLINE', 'Newline')):
            c = p.cls(cname, 'models.spacing')
            ctx.check(_class_const_str(p, c, 'RULE') == tname, rid, f'models.spacing:{cname}.RULE', tname,
                      f'{cname}.RULE is not {tname}', c.where, note=tname, nontrivial=False)
        return
    if rxn is None:
        raise AnalysisError('SPACING-RE: _SPACING_GROUP_RE is not re.compile(<literal>)')
    pat, flags = rxn
    import re._parser as sp  # type: ignore[import]
    tree = sp.parse(pat, flags)
    alts = []
    if len(tree) == 1 and str(tree[0][0]) == 'BRANCH':
        for alt in tree[0][1][1]:
            if len(alt) == 1 and str(alt[0][0]) == 'SUBPATTERN':
                alts.append(alt[0][1][3])
    if len(alts) != 2:
        raise AnalysisError(f'SPACING-RE: expected two capturing alternatives in {pat!r}')
    def lang(sub) -> rx.NFA:  # type: ignore[no-untyped-def]
        n = rx.NFA()
        n.start = n.new()
        n.accept = rx._build(n, sub, flags, n.start)
        return n
    for i, (tname, cname) in enumerate((('WHITESPACE', 'Whitespace'), ('_NEWLINE', 'Newline'))):
        eq, x, y = rx.equivalent(lang(alts[i]), g.terminal_nfa(tname))
        ctx.check(eq, rid, f'models.internal.spacing_accessors:_SPACING_GROUP_RE group {i + 1}', f'== {tname}',
                  f'group {i + 1} of {pat!r} is not equivalent to terminal {tname} (differs on {x!r} / {y!r}): a spacing string '
                  f'would be tokenised differently from the lexer', '', note=f'group {i + 1} == L({tname})')
        c = p.cls(cname, 'models.spacing')
        ctx.check(_class_const_str(p, c, 'RULE') == tname, rid, f'models.spacing:{cname}.RULE', tname,
                  f'{cname}.RULE is not {tname}', c.where, note=tname, nontrivial=False)
    # every string over blanks and newline sequences is covered: (WHITESPACE | _NEWLINE)* == ([ \t] | \r*\n)*; a lone "\r" is not
    # spacing for the lexer either, so nothing more to check here.


def rule_op_table(ctx: RuleContext, p: Program, rid: str) -> None:
    """finite-domain evaluation of the value getters of the expression nodes with exact rational stand-ins for decimals"""
    import fractions
    import itertools
    from . import possem
    from .tokenstore import TS
    ctx.rule(rid, 'the value getters of NumberAddExpr / NumberMulExpr / NumberUnaryExpr, interpreted with exact rational stand-ins for the '
                  'operand values over every sequence of up to 3 operators drawn from the literal alternatives of ADD_OP / MUL_OP / UNARY_OP in '
                  'the grammar: the result is the left-to-right evaluation with the matching arithmetic operator (+ - * / and unary + -), every '
                  'alternative of the terminal is handled, and an operator text outside the terminal cannot slip through silently')
    g = grammar(p)
    ts = TS(p)
    F = fractions.Fraction

    class Interp(possem.PosInterp):
        tag = 'OP-TABLE'

        def truth(self, v: Any, node: Any) -> bool:               # type: ignore[override]
            if isinstance(v, possem.Obj):
                return True
            return super().truth(v, node)

    ref = {'+': lambda a, b: a + b, '-': lambda a, b: a - b, '*': lambda a, b: a * b, '/': lambda a, b: a / b}
    primes = [F(7), F(3), F(2), F(5)]
    for cname, term in (('NumberAddExpr', 'ADD_OP'), ('NumberMulExpr', 'MUL_OP')):
        c = p.cls(cname)
        f = p.method(c, 'value', inherited=False)
        alts = g.literal_alternatives(term)
        if not alts:
            raise AnalysisError(f'OP-TABLE: {term} is not a set of literals')
        problem = ''
        n = 0
        for k in range(0, 4):
            for ops in itertools.product(alts, repeat=k):
                operands = [possem.Obj('Operand', {'value': primes[i]}, f'operand{i}') for i in range(k + 1)]
                opobjs = [possem.Obj('Op', {'raw_text': o}, o) for o in ops]
                me = possem.Obj(cname, {'_raw_operands': tuple(operands), '_raw_ops': tuple(opobjs), 'raw_operands': tuple(operands), 'raw_ops': tuple(opobjs)}, 'expr')
                n += 1
                want = primes[0]
                for o, x in zip(ops, primes[1:]):
                    want = ref[o](want, x)
                try:
                    got = Interp(ts, [], module=c.module).call_function(f, [me], {})
                except possem.Raised as ex:
                    problem = problem or f'operators {list(ops)}: raises {ex}'
                    continue
                if got != want:
                    problem = problem or f'operands 7, 3, 2, 5 with operators {list(ops)}: evaluates to {got}, arithmetic gives {want}'
        # an operator text outside the terminal must not be treated as one of them
        me = possem.Obj(cname, {'_raw_operands': (possem.Obj('Operand', {'value': F(7)}, 'a'), possem.Obj('Operand', {'value': F(3)}, 'b')),
                                '_raw_ops': (possem.Obj('Op', {'raw_text': '%'}, '%'),)}, 'expr')
        me.f['raw_operands'], me.f['raw_ops'] = me.f['_raw_operands'], me.f['_raw_ops']
        try:
            got = Interp(ts, [], module=c.module).call_function(f, [me], {})
            problem = problem or f'an operator text outside {term} (\'%\') is evaluated to {got} instead of being refused'
        except possem.Raised:
            pass
        ctx.check(not problem, rid, f'{c.module.name.split(".", 1)[1]}:{cname}.value', f'{term}={alts}', f'{cname}.value: {problem}', f.where,
                  note=f'{n} operator sequences over {alts}')
    c = p.cls('NumberUnaryExpr', 'models.number_unary_expr')
    f = p.method(c, 'value', inherited=False)
    alts = g.literal_alternatives('UNARY_OP')
    if not alts:
        raise AnalysisError('OP-TABLE: UNARY_OP is not a set of literals')
    problem = ''
    for o in alts:
        me = possem.Obj('NumberUnaryExpr', {'_unary_op': possem.Obj('Op', {'raw_text': o}, o), '_operand': possem.Obj('Operand', {'value': F(7)}, 'operand')}, 'unary')
        me.f['raw_unary_op'], me.f['raw_operand'] = me.f['_unary_op'], me.f['_operand']
        try:
            got = Interp(ts, [], module=c.module).call_function(f, [me], {})
        except possem.Raised as ex:
            problem = problem or f'operator {o!r}: raises {ex}'
            continue
        want = F(7) if o == '+' else -F(7)
        if got != want:
            problem = problem or f'unary {o!r} of 7 evaluates to {got}'
    ctx.check(not problem, rid, 'models.number_unary_expr:NumberUnaryExpr.value', f'UNARY_OP={alts}', f'NumberUnaryExpr.value: {problem}', f.where,
              note=f'{alts}')


# ------------------------------------------------------------------ GRAM-FIELDS
class _Shape:
    def __init__(self, g: rx.Grammar) -> None:
        self.g = g
        self.by_origin: dict[str, list] = {}
        for r in g.rules:
            self.by_origin.setdefault(str(r.origin.name), []).append(r)
        self.memo: dict[str, set[tuple]] = {}
        self.active: set[str] = set()

    def tree_name(self, origin: str) -> str:
        rs = self.by_origin.get(origin, [])
        for r in rs:
            if r.alias:
                return str(r.alias)
            if r.options and r.options.template_source:
                return str(r.options.template_source)
        return origin

    def kinds(self, origin: str, seen: frozenset[str] = frozenset()) -> frozenset[tuple[str, str]]:
        """what a reference to rule `origin` can turn into as a child: itself, or (for ?rules) its single child"""
        rs = self.by_origin.get(origin, [])
        if not rs or origin in seen:
            return frozenset({('R', self.tree_name(origin))})
        out: set[tuple[str, str]] = set()
        for r in rs:
            if r.options and r.options.expand1 and len(r.expansion) == 1 and not any(r.options.empty_indices or ()):
                s = r.expansion[0]
                if s.is_term:
                    out.add(('T', str(s.name)))
                else:
                    out |= self.kinds(str(s.name), seen | {origin})
            else:
                out.add(('R', self.tree_name(origin)))
        return frozenset(out)

    def children(self, origin: str) -> set[tuple]:
        """set of child sequences (after the builder's own filtering of *_ subtrees); elements are frozensets of kinds"""
        if origin in self.memo:
            return self.memo[origin]
        if origin in self.active:
            return {('<rec>',)}
        self.active.add(origin)
        result: set[tuple] = set()
        for r in self.by_origin.get(origin, []):
            ei = list(r.options.empty_indices) if r.options and r.options.empty_indices else []
            if ei:
                s = ''.join(str(int(b)) for b in ei)
                nones = [len(ones) for ones in s.split('0')]
            else:
                nones = [0] * (len(r.expansion) + 1)
            seqs: list[tuple] = [()]
            for i, sym in enumerate(r.expansion):
                pre = tuple(frozenset({('None', '')}) for _ in range(nones[i]))
                seqs = [q + pre for q in seqs]
                name = str(sym.name)
                if sym.is_term:
                    if getattr(sym, 'filter_out', False):
                        continue
                    seqs = [q + (frozenset({('T', name)}),) for q in seqs]
                elif name.startswith('_'):
                    sub = self.children(name)
                    new = []
                    for q in seqs:
                        for t in sub:
                            if t == ('<rec>',):
                                new.append(q + ('<rec>',))
                            else:
                                new.append(q + t)
                    seqs = new
                else:
                    k = self.kinds(name)
                    if all(kk[0] == 'R' and kk[1].endswith('_') for kk in k):
                        continue          # dropped whole by ModelBuilder._build_tree
                    seqs = [q + (k,) for q in seqs]
            post = tuple(frozenset({('None', '')}) for _ in range(nones[len(r.expansion)]))
            result |= {q + post for q in seqs}
        self.active.discard(origin)
        # left-recursive helper (x+): its non-recursive alternatives repeated; only supported when they vanish after filtering
        if any('<rec>' in q for q in result):
            base = {q for q in result if '<rec>' not in q}
            if base <= {()}:
                result = {()}
            else:
                raise AnalysisError(f'GRAM-FIELDS: rule {origin} repeats visible children inside an inlined rule')
        self.memo[origin] = result
        return result


def _type_rules(p: Program, m, e: Optional[ast.AST], depth: int = 0) -> Optional[set[str]]:
    """RULE names of the classes named by a field type expression (unions, aliases)"""
    if e is None or depth > 60:
        return None
    if isinstance(e, ast.BinOp) and isinstance(e.op, ast.BitOr):
        a, b = _type_rules(p, m, e.left, depth + 1), _type_rules(p, m, e.right, depth + 1)
        return None if a is None or b is None else a | b
    if isinstance(e, ast.Subscript) and norm(e.value) in ('Union', 'typing.Union', 'Optional'):
        parts = e.slice.elts if isinstance(e.slice, ast.Tuple) else [e.slice]
        out: set[str] = set()
        for x in parts:
            r = _type_rules(p, m, x, depth + 1)
            if r is None:
                return None
            out |= r
        return out
    if isinstance(e, ast.Constant) and isinstance(e.value, str):
        try:
            return _type_rules(p, m, ast.parse(e.value, mode='eval').body, depth + 1)
        except SyntaxError:
            return None
    sym = p.resolve_expr(m, e)
    out2: Optional[set[str]] = None
    if isinstance(sym, ClassInfo):
        n = p.class_const(sym, 'RULE')
        if isinstance(n, ast.Constant):
            out2 = {n.value}
    elif isinstance(sym, Const):
        out2 = _type_rules(p, sym.module, sym.node, depth + 1)
    if out2 is None and isinstance(e, ast.Name):
        # forward reference (imported only under TYPE_CHECKING, or `X = Any` at run time): the model classes of that name
        rules = set()
        for c in p.class_by_name.get(e.id, []):
            n = p.class_const(c, 'RULE')
            if isinstance(n, ast.Constant):
                rules.add(n.value)
        if rules:
            out2 = rules
    return out2


def rule_gram_fields(ctx: RuleContext, p: Program, tcs: list, rid: str) -> None:
    ctx.rule(rid, 'for every tree model with declared fields the child sequence the parser can hand to from_parsed_children '
                  '(computed from the compiled grammar: inlined _rules, [optional] placeholders, filtered tokens, subtrees the '
                  'builder drops) has one slot per constructor field, in order: required fields never None, optional fields only '
                  'their own type or None, repeated fields a repeated{...} subtree; element types match the field types')
    g = grammar(p)
    sh = _Shape(g)
    n = 0
    for tc in tcs:
        rule = p.class_const(tc.cls, 'RULE')
        if not isinstance(rule, ast.Constant):
            continue
        rname = rule.value
        if rname not in sh.by_origin:
            ctx.fail(rid, f'{tc.cls.name}', f'RULE={rname!r}', f'{tc.cls.name}.RULE = {rname!r} is not a rule of the grammar', tc.cls.where)
            continue
        seqs = sh.children(rname)
        n += 1
        site = f'{tc.cls.module.name.split(".", 1)[1]}:{tc.cls.name}'
        lens = {len(q) for q in seqs}
        # hand-written from_parsed_children overrides may re-arrange children: only the arity is compared then
        override = any('from_parsed_children' in c.attrs for c in [tc.cls, *tc.cls.all_subclasses()])
        if lens != {len(tc.fields)}:
            ctx.fail(rid, site, f'arity {sorted(lens)} vs {len(tc.fields)} fields',
                     f'grammar rule {rname} yields {sorted(lens)} children but {tc.cls.name}.__init__ takes {len(tc.fields)} child fields '
                     f'({[f.name for f in tc.fields]})', tc.cls.where)
            continue
        problems: list[str] = []
        for i, f in enumerate(tc.fields):
            kinds = set().union(*[q[i] for q in seqs])
            has_none = ('None', '') in kinds or ('T', 'NEVER') in kinds
            real = {k for k in kinds if k != ('None', '') and not (k[0] == 'T' and k[1].startswith('NEVER'))}
            if f.kind == 'repeated':
                if not real or not all(k[0] == 'R' and k[1] in ('repeated', 'repeated_sep') for k in real) or has_none and not real:
                    problems.append(f'{f.name}: repeated field receives {sorted(kinds)}')
                continue
            if f.kind == 'required' and has_none:
                problems.append(f'{f.name}: required field can receive None ({sorted(kinds)})')
            if f.optional and not has_none and real:
                pass   # an optional field that is always present is harmless
            want = _type_rules(p, tc.cls.module, f.type_expr)
            if want is None:
                raise AnalysisError(f'GRAM-FIELDS: cannot resolve the type of {site}.{f.name}: {norm(f.type_expr) if f.type_expr else None}')
            got = {('INDENT' if k[1] in ('indent', 'indent2') else k[1]) for k in real}
            if override and not got:
                continue
            if not got <= want:
                problems.append(f'{f.name}: declared {sorted(want)} but the grammar delivers {sorted(got - want)} at child {i}')
        ctx.check(not problems, rid, site, '; '.join(problems) or f'{len(tc.fields)} slots', '; '.join(problems), tc.cls.where,
                  note=f'{len(seqs)} child layouts, {len(tc.fields)} slots')
    if n < 30:
        raise AnalysisError(f'GRAM-FIELDS: only {n} classes compared with the grammar')


# ====================================================================== GRAM-OPT (added after seeded round 5)
def rule_gram_opt(ctx: RuleContext, p: Program, tcs: list, rid: str) -> None:
    import itertools
    ctx.rule(rid, 'the optional children of a tree model are independently optional in the grammar: every child the model declares optional '
                  '(and that the grammar can deliver at all -- comments and marks attached after parsing are not among them) can be set or '
                  'cleared on its own through its raw property, so every presence combination must be a child layout the compiled grammar '
                  'produces for that rule; a combination the grammar lacks is a model that constructs and prints but does not parse back')
    g = grammar(p)
    sh = _Shape(g)
    n = 0
    for tc in tcs:
        rule = p.class_const(tc.cls, 'RULE')
        if not isinstance(rule, ast.Constant) or rule.value not in sh.by_origin:
            continue
        seqs = [q for q in sh.children(rule.value) if len(q) == len(tc.fields)]
        if not seqs:
            continue

        def is_none(k: tuple) -> bool:
            return k == ('None', '') or (k[0] == 'T' and k[1].startswith('NEVER'))
        opt = [i for i, f in enumerate(tc.fields) if f.optional and f.kind != 'repeated' and any(any(not is_none(k) for k in q[i]) for q in seqs)]
        if not opt:
            continue
        if len(opt) > 8:
            raise AnalysisError(f'GRAM-OPT: {tc.cls.name} has {len(opt)} optional children')
        allowed: set = set()
        for q in seqs:
            poss = []
            for i in opt:
                poss.append(([False] if any(is_none(k) for k in q[i]) else []) + ([True] if any(not is_none(k) for k in q[i]) else []))
            allowed.update(itertools.product(*poss))
        missing = [c for c in itertools.product([False, True], repeat=len(opt)) if c not in allowed]
        n += 1
        site = f'{tc.cls.module.name.split(".", 1)[1]}:{tc.cls.name}'
        names = [tc.fields[i].name.lstrip('_') for i in opt]
        if missing:
            combo = missing[0]
            shown = ', '.join(f'{nm} {"present" if pr else "absent"}' for nm, pr in zip(names, combo))
            ctx.fail(rid, site, f'rule {rule.value}: {shown}',
                     f'the grammar rule {rule.value} has no child layout for [{shown}] ({len(missing)} of {2 ** len(opt)} presence combinations of '
                     f'{names} are missing), but each of these children is optional on its own in {tc.cls.name}: a model in that state -- built '
                     f'by from_value / from_children or reached by clearing one child -- prints text that the parser rejects', tc.cls.where)
        else:
            ctx.ok(rid, site, f'{names}: all {2 ** len(opt)} presence combinations are grammatical')
    if n < 20:
        raise AnalysisError(f'GRAM-OPT: only {n} classes with grammar-delivered optional children')


# ====================================================================== TERM-DOMAIN (added after seeded round 6)
def rule_term_domain(ctx: RuleContext, p: Program, rid: str, only: Optional[set[str]] = None) -> None:
    """the language of each value-carrying terminal of the current grammar includes the documented value domain of its token type"""
    import json
    import os
    ctx.rule(rid, 'the language of every string-valued terminal of the current beancount.lark includes the value domain of its token type '
                  '(fixtures/token_domains.json: the token languages of beancount\'s lexer at the commit the grammar cites), decided by '
                  'automata inclusion with a counterexample word: a value of the domain that the terminal does not match is written by '
                  'from_value / a value setter (which do not validate) and then lexes back as something else or not at all')
    here = os.path.dirname(os.path.dirname(os.path.dirname(os.path.abspath(__file__))))
    table = json.load(open(os.path.join(here, 'fixtures', 'token_domains.json'), encoding='utf-8'))['domains']
    g = grammar(p)
    n = 0
    for tname, spec in sorted(table.items()):
        if only is not None and tname not in only:
            continue
        if tname not in g.terminals:
            raise AnalysisError(f'{rid}: terminal {tname} is not defined by the grammar any more')
        t = g.terminal_nfa(tname)
        if t.approx:
            raise AnalysisError(f'{rid}: terminal {tname} uses assertions; inclusion would be unsound')
        ok, w = rx.included(rx.from_regex(spec['regex']), t)
        n += 1
        ctx.check(ok, rid, f'beancount.lark:{tname}', 'includes its value domain',
                  f'{tname} is now /{g.terminals[tname].pattern.to_regexp().encode("unicode_escape").decode()[:140]}/, which does not match {w!r} -- a value of the domain ({spec["source"]}). '
                  f'from_value and the value setters write it without validation, so the token does not lex back as one {tname} and a '
                  f'ledger that contains it is not accepted by parse()', 'autobean_refactor/beancount.lark',
                  note=f'/{spec["regex"][:60]}/ included')
    if n < (len(table) if only is None else 1):
        raise AnalysisError(f'{rid}: only {n} terminals compared')


# ====================================================================== LEX-PRIO (added after seeded round 6)
def _always_accept(p: Program, g: Any) -> dict[str, set[str]]:
    """PostLex classes of parser.py -> the terminal names their `always_accept` evaluates to (module / class string constants, the
    grammar's %ignore list for a name assigned from `<grammar>.ignore`)"""
    m = p.module('parser')
    out: dict[str, set[str]] = {}
    mod_assign: dict[str, ast.AST] = {}
    for st in ast.walk(m.tree):
        if isinstance(st, ast.Assign) and len(st.targets) == 1 and isinstance(st.targets[0], ast.Name):
            mod_assign.setdefault(st.targets[0].id, st.value)
    for c in [x for x in m.tree.body if isinstance(x, ast.ClassDef)]:
        consts = {st.targets[0].id: st.value for st in c.body if isinstance(st, ast.Assign) and len(st.targets) == 1 and isinstance(st.targets[0], ast.Name)}
        if 'always_accept' not in consts:
            continue

        def ev(e: ast.AST, depth: int = 0) -> set[str]:
            if depth > 6:
                raise AnalysisError('LEX-PRIO: always_accept is too deeply nested')
            if isinstance(e, ast.Constant) and isinstance(e.value, str):
                return {e.value}
            if isinstance(e, (ast.Set, ast.List, ast.Tuple)):
                return set().union(*[ev(x, depth + 1) for x in e.elts]) if e.elts else set()
            if isinstance(e, ast.BinOp) and isinstance(e.op, ast.BitOr):
                return ev(e.left, depth + 1) | ev(e.right, depth + 1)
            if isinstance(e, ast.Call) and norm(e.func) in ('frozenset', 'set', 'tuple', 'list') and len(e.args) <= 1:
                return ev(e.args[0], depth + 1) if e.args else set()
            if isinstance(e, ast.Attribute) and e.attr == 'ignore':
                return set(g.ignore)
            if isinstance(e, ast.Name):
                if e.id in consts and e.id != 'always_accept':
                    return ev(consts[e.id], depth + 1)
                if e.id in mod_assign:
                    return ev(mod_assign[e.id], depth + 1)
            raise AnalysisError(f'LEX-PRIO: cannot evaluate always_accept of {c.name}: `{norm(e)[:60]}`')
        out[c.name] = ev(consts['always_accept'])
    return out


def rule_lex_prio(ctx: RuleContext, p: Program, rid: str) -> None:
    """ordered-choice lexing: no terminal that is tried earlier cuts a lexeme of a later terminal short in a parser state that accepts both"""
    import lark
    ctx.rule(rid, 'lark\'s lexer tries the terminals a parser state accepts in a fixed order (priority, then maximal width, then pattern '
                  'length) and takes the FIRST that matches, not the longest.  For every state of the LALR table lark builds for the current '
                  'grammar (contextual lexer: terminals of the state + always_accept of the PostLex classes) and every pair A tried before B: '
                  'no word of L(B) has a proper prefix that A matches (automata product; a trailing look-ahead of A is honoured).  Otherwise a '
                  'legal B -- an account Cash:Wallet, a currency TRUEX -- is cut into A + garbage and parse() rejects text the models print')
    g = grammar(p)
    m = p.module('parser')
    lexer_kinds = {k.value.value for c in ast.walk(m.tree) if isinstance(c, ast.Call) and norm(c.func).endswith('Lark')
                   for k in c.keywords if k.arg == 'lexer' and isinstance(k.value, ast.Constant)}
    if not lexer_kinds:
        raise AnalysisError('LEX-PRIO: the lark.Lark(...) construction with its lexer= option was not found in parser.py')
    starts = [n for n in g.rule_defs if not n.startswith('_') and not g.rule_defs[n][0]]
    try:
        lk = lark.Lark(g.text, parser='lalr', lexer='contextual', start=starts)
        states = lk.parser.parser._parse_table.states
    except Exception as ex:  # noqa: BLE001
        raise AnalysisError(f'LEX-PRIO: lark cannot build the LALR table of the grammar: {type(ex).__name__}: {str(ex)[:120]}')
    terms = g.terminals
    always = _always_accept(p, g)
    if not always:
        raise AnalysisError('LEX-PRIO: no PostLex class with always_accept found')

    def order(names: Any) -> list[str]:
        ts = [terms[n] for n in names if n in terms]
        ts.sort(key=lambda x: (-x.priority, -x.pattern.max_width, -len(x.pattern.value), x.name))
        return [t.name for t in ts]

    accept_sets: dict[frozenset, Any] = {}
    for cname, alw in sorted(always.items()):
        if lexer_kinds <= {'contextual'}:
            for s, row in states.items():
                acc = frozenset(k for k in row if k in terms) | frozenset(a for a in alw if a in terms)
                accept_sets.setdefault(acc, (cname, s))
        else:
            accept_sets.setdefault(frozenset(terms), (cname, 'every state (basic lexer)'))
    nfas: dict[str, Any] = {}
    cache: dict[tuple[str, str], Any] = {}
    found: dict[tuple[str, str], tuple[str, Any]] = {}
    skipped: set[tuple[str, str]] = set()
    pairs = 0
    for acc, wit in accept_sets.items():
        o = order(acc)
        for i, a in enumerate(o):
            for b in o[i + 1:]:
                if (a, b) not in cache:
                    for t in (a, b):
                        if t not in nfas:
                            nfas[t] = g.terminal_nfa(t)
                    if nfas[a].approx or nfas[b].approx:
                        cache[(a, b)] = 'approx'
                    else:
                        cache[(a, b)] = ('word', rx.prefix_conflict(nfas[a], nfas[b]))
                r = cache[(a, b)]
                if r == 'approx':
                    skipped.add((a, b))
                    continue
                pairs += 1
                if r[1] is not None and (a, b) not in found:
                    found[(a, b)] = (r[1], (wit, sorted(acc - set().union(*always.values()))[:8]))
    exact = sorted(t for t, n in nfas.items() if not n.approx)
    ctx.stats['lex_prio'] = {'lalr_states': len(states), 'accept_sets': len(accept_sets), 'ordered_pairs_decided': len([1 for v in cache.values() if v != 'approx']),
                             'pairs_with_anchored_terminals_not_decided': len(skipped), 'exact_terminals': exact}
    if len(states) < 100 or len(exact) < 20:
        raise AnalysisError(f'LEX-PRIO: only {len(states)} states / {len(exact)} exact terminals analysed')
    decided = sorted(k for k, v in cache.items() if v != 'approx')
    for a, b in decided:
        hit = found.get((a, b))
        if hit is None:
            continue
        w, (wit, some) = hit
        pa, pb = terms[a], terms[b]
        ctx.fail(rid, f'beancount.lark:{a}<{b}', f'{a} cuts {b}',
                 f'{a} (priority {pa.priority}, /{pa.pattern.to_regexp().encode("unicode_escape").decode()[:50]}/) is tried before {b} in a parser state that accepts both '
                 f'(e.g. a state expecting {some}), and matches a proper prefix of {w!r}, which is a {b}: the lexer returns the {a} and the rest '
                 f'does not parse.  A model constructed with such a {b} (from_value does not validate) prints text that parse() rejects',
                 'autobean_refactor/beancount.lark')
    for a, b in decided:
        if (a, b) not in found:
            ctx.ok(rid, f'beancount.lark:{a}<{b}', 'no word of the later terminal has a proper prefix the earlier one matches')


# ====================================================================== INLINE-EOL (added in round 7)
def rule_inline_eol(ctx: RuleContext, p: Program, rid: str) -> None:
    """INLINE of a tree model agrees with whether its grammar rule consumes the end-of-line mark"""
    ctx.rule(rid, 'Parser.parse() picks the post-lexer by the target\'s INLINE constant: the line-oriented one closes the input with an EOL mark '
                  '(and a DEDENT mark), the inline one passes the token stream through.  For every registered tree model: INLINE is false '
                  'exactly when the last terminal a yield of its grammar rule can end with (computed over the compiled grammar, nullable '
                  'tails skipped) is one of those marks.  Otherwise the text a model prints is rejected when parsed as that model')
    g = grammar(p)
    by: dict[str, list] = {}
    for r in g.rules:
        by.setdefault(str(r.origin.name), []).append(r)
    terms = set(g.terminals) | set(g.declared)

    def nullable(sym: str, seen: frozenset = frozenset()) -> bool:
        if sym in terms or sym in seen:
            return False
        return any(all(nullable(str(x.name), seen | {sym}) for x in r.expansion) for r in by.get(sym, []))

    def last_terms(sym: str, seen: frozenset = frozenset()) -> set[str]:
        if sym in terms:
            return {sym}
        if sym in seen:
            return set()
        out: set[str] = set()
        for r in by.get(sym, []):
            for x in reversed(r.expansion):
                nm = str(x.name)
                out |= last_terms(nm, seen | {sym})
                if not nullable(nm):
                    break
        return out

    marks = {'EOL', 'DEDENT_MARK'}
    n = 0
    seen_cls: set[str] = set()
    for c in p.registered('tree_model'):
        rule = p.class_const(c, 'RULE')
        inl = p.class_const(c, 'INLINE')
        rn = rule.value if isinstance(rule, ast.Constant) else None
        if rn not in by or c.qualname in seen_cls:
            continue
        seen_cls.add(c.qualname)
        iv = bool(inl.value) if isinstance(inl, ast.Constant) else False
        lt = last_terms(rn)
        line_oriented = bool(lt & marks)
        if line_oriented and (lt - marks - {'NEVER', 'NEVER2'}):
            raise AnalysisError(f'{rid}: rule {rn} can end both with an end-of-line mark and with {sorted(lt - marks)}')
        n += 1
        ctx.check(iv == (not line_oriented), rid, f'{c.module.name.split(".", 1)[1]}:{c.name}', f'INLINE={iv}, rule {rn} ends with {sorted(lt)[:4]}',
                  f'{c.name}.INLINE is {iv}, but a yield of its grammar rule `{rn}` ends with {sorted(lt)[:5]}: parse(text, {c.name}) runs the '
                  f'{"inline" if iv else "line-oriented"} post-lexer, which {"does not supply the EOL mark the rule needs" if iv else "appends an EOL mark the rule cannot take"}, so '
                  f'every text the model prints is rejected when parsed as that model', c.where, note=f'INLINE={iv}')
    if n < 30:
        raise AnalysisError(f'{rid}: only {n} tree models with a grammar rule')


# ====================================================================== GRAM-CHAIN (C13, added in round 7)
def rule_gram_chain(ctx: RuleContext, p: Program, rid: str) -> None:
    ctx.rule(rid, 'operator chains are flat in the grammar: the rule of a binary level (the model classes whose from_parsed_children takes the '
                  'children as operand, operator, operand, ...) never has itself -- or a lower level -- as a direct child (computed over the '
                  'compiled grammar with helper, inlined and ?-rules expanded).  The value getters fold the operand list from the left, which '
                  'is the usual associativity only if `a / b / c` arrives as one list of three operands; a right-recursive rule delivers '
                  '(a, (b, c)) and 8/4/2 evaluates to 4')
    g = grammar(p)
    by: dict[str, list] = {}
    for r in g.rules:
        by.setdefault(str(r.origin.name), []).append(r)
    terms = set(g.terminals) | set(g.declared)

    def inlined(name: str) -> bool:
        if name.startswith('_'):
            return True
        rs = by.get(name, [])
        return bool(rs) and all(getattr(r.options, 'expand1', False) for r in rs)

    def direct(name: str, seen: frozenset = frozenset()) -> set[str]:
        out: set[str] = set()
        for r in by.get(name, []):
            for x in r.expansion:
                nm = str(x.name)
                if nm in terms:
                    out.add(nm)
                elif inlined(nm):
                    if nm not in seen:
                        kids = direct(nm, seen | {nm})
                        # a ?-rule with a single child vanishes, with several it stays: both are possible children
                        out |= kids
                        if not nm.startswith('_'):
                            out.add(nm)
                else:
                    out.add(nm)
        return out

    chains = []
    for c in p.registered('tree_model'):
        fpc = c.attrs.get('from_parsed_children')
        rule = p.class_const(c, 'RULE')
        if isinstance(fpc, FuncInfo) and isinstance(rule, ast.Constant) and fpc.node.args.vararg is not None \
                and any(isinstance(x, ast.Slice) and x.step is not None for x in ast.walk(fpc.node)):
            chains.append((c, rule.value))
    if len(chains) < 2:
        raise AnalysisError(f'{rid}: only {len(chains)} operator-chain models found (NumberAddExpr and NumberMulExpr confirmed)')
    level = {rn: i for i, (_, rn) in enumerate(sorted(chains, key=lambda t: 0 if 'add' in t[1] else 1))}
    for c, rn in chains:
        if rn not in by:
            raise AnalysisError(f'{rid}: rule {rn} is not in the grammar')
        kids = direct(rn)
        bad = sorted(k for k in kids if k in level and level[k] <= level[rn])
        ctx.check(not bad, rid, f'beancount.lark:{rn}', 'flat chain',
                  f'rule `{rn}` can have {bad} as a direct child: the chain is nested instead of flat, so {c.name}.value, which folds its operands '
                  f'from the left, evaluates `a / b / c` as a / (b / c) (8/4/2 gives 4) although it prints and re-parses unchanged',
                  'autobean_refactor/beancount.lark', note=f'direct children {sorted(kids)[:6]}')
