"""IDX-SPACE -- an index-space qualifier analysis over the filtered list views (added after seeded round 4).

A filtered view (RepeatedValueWrapper and everything derived from it: the typed value views, RepeatedFilteredNodeWrapper, the two meta
mapping views) shows the items of one type of a raw list that also holds interleaved comments.  Two integer spaces live side by side in
its methods: VIEW positions (what the caller passes, what enumerate(self) counts, what subscripts _raw_indexes) and RAW positions (the
elements of _raw_indexes, what subscripts _raw_wrapper).  They coincide exactly when the raw list holds no comment in front -- which is
what the unit tests use -- so a mix-up passes them and edits the wrong line of a commented document.

Every integer expression gets a space from the way it is built (table below); every place that consumes a position demands one:

    self._raw_wrapper[X], .pop(X), .insert(X, _), del self._raw_wrapper[X]   X : RAW
    self._raw_wrapper.drop_many(XS)                                          XS : iterable of RAW
    self._raw_indexes[X]                                                     X : VIEW
    bisect.bisect_left(self._raw_indexes, X)                                 X : RAW   (result: VIEW)
    super().__getitem__/__setitem__/__delitem__/pop/insert(X, ..), self[X]   X : VIEW  (or a str key)

A literal integer fits both.  An expression whose space cannot be told at such a place is an analysis error, never a pass.
"""
from __future__ import annotations

import ast
from typing import Any, Optional

from ..model import AnalysisError, ClassInfo, FuncInfo, Program, norm
from ..report import RuleContext

RAW, VIEW, CONST, KEY, UNK = 'RAW', 'VIEW', 'CONST', 'KEY', '?'
SEQ_PARAM_METHODS = {'__getitem__', '__setitem__', '__delitem__', 'insert', 'pop'}


def join(a: str, b: str) -> str:
    if a == b:
        return a
    if a == CONST:
        return b
    if b == CONST:
        return a
    return UNK


class Elem:
    """an iterable whose elements have the given space (or a tuple of spaces, for enumerate)"""

    def __init__(self, space: Any) -> None:
        self.space = space

    def __repr__(self) -> str:
        return f'iterable of {self.space}'


class SpaceCheck:
    def __init__(self, fn: FuncInfo, handler: bool, cls: Optional[ClassInfo] = None, depth: int = 0) -> None:
        self.fn = fn
        self.handler = handler
        self.cls = cls
        self.depth = depth
        self.problems: list[tuple[str, str]] = []
        self.sinks = 0
        self.returns: list[Any] = []

    def helper_return(self, name: str, args: list[ast.AST], env: dict) -> Any:
        """space of what a private helper method of the view returns (its body analysed with the spaces of the arguments)"""
        if self.cls is None or self.depth > 3:
            return UNK
        h = self.cls.lookup(name)
        if not isinstance(h, FuncInfo) or h.kind in ('staticmethod', 'classmethod', 'property') or h is self.fn:
            return UNK
        sub = SpaceCheck(h, self.handler, self.cls, self.depth + 1)
        henv: dict = {}
        for prm, a in zip(h.params[1:], args):
            v = self.space(a, env)
            henv[prm] = v
        sub.block(list(h.node.body), henv)
        self.problems.extend(sub.problems)
        self.sinks += sub.sinks
        out: Any = CONST
        for r in sub.returns:
            if isinstance(r, Elem) or isinstance(out, Elem):
                out = r if (isinstance(r, Elem) and isinstance(out, Elem) and r.space == out.space) or out == CONST else UNK
            else:
                out = join(out, r)
        return out if sub.returns else UNK

    # ------------------------------------------------------------------ expressions
    def is_self_attr(self, e: ast.AST, name: str) -> bool:
        return isinstance(e, ast.Attribute) and e.attr == name and isinstance(e.value, ast.Name) and e.value.id == self.fn.params[0]

    def is_self(self, e: ast.AST) -> bool:
        return isinstance(e, ast.Name) and e.id == self.fn.params[0]

    def is_super(self, e: ast.AST) -> bool:
        return isinstance(e, ast.Call) and isinstance(e.func, ast.Name) and e.func.id == 'super'

    def demand(self, e: ast.AST, want: str, env: dict, what: str) -> None:
        self.sinks += 1
        got = self.space(e, env)
        if isinstance(got, Elem):
            got = UNK
        if got in (want, CONST) or (want == VIEW and got == KEY):
            return
        if got == UNK:
            raise AnalysisError(f'IDX-SPACE: {self.fn.qualname}: cannot tell whether `{norm(e)[:60]}` is a view or a raw position ({what})')
        if got == 'MIXED':
            got = 'sum of view and raw'

        self.problems.append((what, f'`{norm(e)[:70]}` is a {got} position and is used as a {want} position in {what}'))

    def demand_iter(self, e: ast.AST, want: str, env: dict, what: str) -> None:
        self.sinks += 1
        got = self.space(e, env)
        sp = got.space if isinstance(got, Elem) else UNK
        if sp in (want, CONST):
            return
        if sp == UNK or isinstance(sp, tuple):
            raise AnalysisError(f'IDX-SPACE: {self.fn.qualname}: cannot tell whether `{norm(e)[:60]}` yields view or raw positions ({what})')
        self.problems.append((what, f'`{norm(e)[:70]}` yields {sp} positions and is used as {want} positions in {what}'))

    def space(self, e: Optional[ast.AST], env: dict) -> Any:
        if e is None:
            return UNK
        if isinstance(e, ast.Constant):
            if e.value is None:
                return CONST              # "no position"
            if isinstance(e.value, bool) or not isinstance(e.value, int):
                return KEY if isinstance(e.value, str) else UNK
            return CONST
        if isinstance(e, ast.Name):
            return env.get(e.id, UNK)
        if isinstance(e, ast.NamedExpr):
            v = self.space(e.value, env)
            env[e.target.id] = v
            return v
        if isinstance(e, ast.UnaryOp) and isinstance(e.op, (ast.USub, ast.UAdd)):
            return self.space(e.operand, env)
        if isinstance(e, ast.BinOp) and isinstance(e.op, (ast.Add, ast.Sub)):
            # positions form an affine space: count RAW and VIEW units through the whole +/- chain (`ll + r - l` is one VIEW unit)
            v = self.units(e, env)
            if v is None:
                return UNK
            return {(1, 0): RAW, (0, 1): VIEW, (0, 0): CONST}.get(v, 'MIXED')
        if isinstance(e, ast.BinOp) and isinstance(e.op, ast.Mod):
            a, b = self.space(e.left, env), self.space(e.right, env)
            if isinstance(a, Elem) or isinstance(b, Elem):
                return UNK
            return join(a, b)
        if isinstance(e, ast.IfExp):
            self.scan(e.test, env)
            a, b = self.space(e.body, env), self.space(e.orelse, env)
            if isinstance(a, Elem) and isinstance(b, Elem):
                return Elem(join(a.space, b.space)) if not isinstance(a.space, tuple) and not isinstance(b.space, tuple) else UNK
            return join(a, b) if not isinstance(a, Elem) and not isinstance(b, Elem) else UNK
        if isinstance(e, ast.Attribute):
            if self.is_self_attr(e, '_raw_indexes'):
                return Elem(RAW)
            if self.is_self_attr(e, '_raw_wrapper'):
                return Elem(UNK)          # iterating it yields items
            self.scan(e.value, env)
            return UNK
        if isinstance(e, ast.Subscript):
            if self.is_self_attr(e.value, '_raw_indexes'):
                if isinstance(e.slice, ast.Slice):
                    for part in (e.slice.lower, e.slice.upper):
                        if part is not None:
                            self.demand(part, VIEW, env, 'a slice of _raw_indexes')
                    return Elem(RAW)
                sl = self.space(e.slice, env)
                if isinstance(sl, Elem) or sl == 'SLICE-VIEW':
                    return Elem(RAW)      # subscripted by a slice object built from view positions
                self.demand(e.slice, VIEW, env, 'a subscript of _raw_indexes')
                return RAW
            if self.is_self_attr(e.value, '_raw_wrapper'):
                if isinstance(e.slice, ast.Slice):
                    for part in (e.slice.lower, e.slice.upper):
                        if part is not None:
                            self.demand(part, RAW, env, 'a slice of _raw_wrapper')
                    return UNK
                self.demand(e.slice, RAW, env, 'a subscript of _raw_wrapper')
                return UNK
            if self.is_self(e.value) and not self.handler:
                if not isinstance(e.slice, ast.Slice):
                    self.demand(e.slice, VIEW, env, 'a subscript of the view itself')
                return UNK
            base = self.space(e.value, env)
            self.scan(e.slice, env)
            if isinstance(base, Elem) and not isinstance(e.slice, ast.Slice):
                sp = base.space
                if isinstance(sp, tuple) and isinstance(e.slice, ast.Constant) and isinstance(e.slice.value, int) and e.slice.value < len(sp):
                    return sp[e.slice.value]
                return sp if not isinstance(sp, tuple) else UNK
            return base if isinstance(base, Elem) else UNK
        if isinstance(e, (ast.ListComp, ast.GeneratorExp, ast.SetComp)):
            en = dict(env)
            for g in e.generators:
                self.bind(g.target, self.elem_of(g.iter, en), en)
                for c in g.ifs:
                    self.scan(c, en)
            r = self.space(e.elt, en)
            return Elem(r if not isinstance(r, Elem) else UNK)
        if isinstance(e, (ast.List, ast.Tuple)):
            sp = [self.space(x, env) for x in e.elts]
            if isinstance(e, ast.Tuple):
                return Elem(tuple(sp))    # used only through unpacking
            out = CONST
            for s in sp:
                out = join(out, s) if not isinstance(s, Elem) else UNK
            return Elem(out)
        if isinstance(e, ast.Call):
            return self.call(e, env)
        if isinstance(e, ast.Compare):
            self.scan(e.left, env)
            for c in e.comparators:
                self.scan(c, env)
            return UNK
        if isinstance(e, ast.BoolOp):
            for v in e.values:
                self.scan(v, env)
            return UNK
        for ch in ast.iter_child_nodes(e):
            if isinstance(ch, ast.expr):
                self.scan(ch, env)
        return UNK

    def units(self, e: ast.AST, env: dict) -> Optional[tuple[int, int]]:
        if isinstance(e, ast.BinOp) and isinstance(e.op, (ast.Add, ast.Sub)):
            a, b = self.units(e.left, env), self.units(e.right, env)
            if a is None or b is None:
                return None
            sg = 1 if isinstance(e.op, ast.Add) else -1
            return a[0] + sg * b[0], a[1] + sg * b[1]
        s = self.space(e, env)
        if isinstance(s, Elem):
            return None
        return {RAW: (1, 0), VIEW: (0, 1), CONST: (0, 0)}.get(s)

    def scan(self, e: Optional[ast.AST], env: dict) -> None:
        if e is not None:
            self.space(e, env)

    def elem_of(self, it: ast.AST, env: dict) -> Any:
        v = self.space(it, env)
        if isinstance(v, Elem):
            return v.space
        if v == RAW and isinstance(it, ast.Subscript) and self.is_self_attr(it.value, '_raw_indexes'):
            return RAW                    # _raw_indexes[index] with a slice-valued index: some of the raw positions
        if self.is_self(it) or (isinstance(it, ast.Call) and isinstance(it.func, ast.Attribute) and self.is_super(it.func.value) and it.func.attr == '__iter__'):
            return UNK                    # items of the view
        return UNK

    def bind(self, target: ast.AST, sp: Any, env: dict) -> None:
        if isinstance(target, ast.Name):
            env[target.id] = sp if not isinstance(sp, tuple) else UNK
        elif isinstance(target, (ast.Tuple, ast.List)):
            for i, t in enumerate(target.elts):
                self.bind(t, sp[i] if isinstance(sp, tuple) and i < len(sp) else UNK, env)

    def call(self, e: ast.Call, env: dict) -> Any:
        f = e.func
        fname = norm(f)
        args = e.args
        if fname == 'len' and len(args) == 1:
            a = args[0]
            if self.is_self_attr(a, '_raw_wrapper'):
                return RAW
            if self.is_self_attr(a, '_raw_indexes') or (self.is_self(a) and not self.handler):
                return VIEW
            self.scan(a, env)
            return CONST                  # a count of something else: a distance
        if fname == 'enumerate' and args:
            a = args[0]
            if self.is_self_attr(a, '_raw_wrapper'):
                first = RAW
            elif self.is_self_attr(a, '_raw_indexes') or (self.is_self(a) and not self.handler) or \
                    (isinstance(a, ast.Call) and isinstance(a.func, ast.Attribute) and self.is_super(a.func.value) and a.func.attr == '__iter__'):
                first = VIEW
            else:
                first = CONST             # an offset into some other sequence
            inner = self.space(a, env)
            if len(args) > 1 or e.keywords:
                st = self.space(args[1] if len(args) > 1 else e.keywords[0].value, env)
                first = join(first, st) if not isinstance(st, Elem) else UNK
            return Elem((first, inner.space if isinstance(inner, Elem) and not isinstance(inner.space, tuple) else UNK))
        if fname in ('zip', 'itertools.zip_longest'):
            parts = []
            for a in args:
                v = self.space(a, env)
                parts.append(v.space if isinstance(v, Elem) and not isinstance(v.space, tuple) else UNK)
            return Elem(tuple(parts))
        if fname == 'range':
            sp = CONST
            for a in args:
                s = self.space(a, env)
                sp = join(sp, s) if not isinstance(s, Elem) else UNK
            return Elem(sp)
        if fname in ('reversed', 'sorted', 'list', 'tuple', 'iter', 'set', 'frozenset') and args:
            v = self.space(args[0], env)
            for k in e.keywords:
                self.scan(k.value, env)
            return v if isinstance(v, Elem) else UNK
        if fname in ('next',) and args:
            v = self.space(args[0], env)
            return v.space if isinstance(v, Elem) and not isinstance(v.space, tuple) else UNK
        if fname in ('min', 'max') and args:
            sp = CONST
            for a in args:
                s = self.space(a, env)
                sp = join(sp, s.space if isinstance(s, Elem) and not isinstance(s.space, tuple) else s if not isinstance(s, Elem) else UNK)
            return sp
        if fname.endswith('range_from_index') and len(args) == 2:
            self.demand(args[0], VIEW, env, 'range_from_index(position, length)') if self.space(args[1], env) == VIEW else \
                self.demand(args[0], RAW, env, 'range_from_index(position, length)') if self.space(args[1], env) == RAW else None
            ln = self.space(args[1], env)
            return Elem(ln if ln in (RAW, VIEW) else UNK)
        if fname.endswith('slice_from_range') and len(args) == 1:
            v = self.space(args[0], env)
            return 'SLICE-VIEW' if isinstance(v, Elem) and v.space == VIEW else UNK
        if fname in ('bisect.bisect_left', 'bisect.bisect_right', 'bisect.bisect', 'bisect_left', 'bisect_right') and len(args) >= 2 \
                and self.is_self_attr(args[0], '_raw_indexes'):
            self.demand(args[1], RAW, env, f'{fname}(_raw_indexes, position)')
            return VIEW
        if isinstance(f, ast.Attribute):
            recv = f.value
            if self.is_self_attr(recv, '_raw_wrapper'):
                if f.attr in ('pop', 'insert', '__getitem__', '__delitem__', '__setitem__') and args:
                    self.demand(args[0], RAW, env, f'_raw_wrapper.{f.attr}(position, ..)')
                    for a in args[1:]:
                        self.scan(a, env)
                    return UNK
                if f.attr in ('drop_many',) and args:
                    self.demand_iter(args[0], RAW, env, '_raw_wrapper.drop_many(positions)')
                    return UNK
                if f.attr == 'index':
                    for a in args:
                        self.scan(a, env)
                    return RAW
            if self.is_self_attr(recv, '_raw_indexes'):
                if f.attr == 'index' and args:
                    self.demand(args[0], RAW, env, '_raw_indexes.index(position)')
                    return VIEW
            if (self.is_super(recv) or self.is_self(recv)) and not self.handler:
                if f.attr in SEQ_PARAM_METHODS and args:
                    self.demand(args[0], VIEW, env, f'the view\'s own {f.attr}(position, ..)')
                    for a in args[1:]:
                        self.scan(a, env)
                    return UNK
                if f.attr == 'index':
                    for a in args:
                        self.scan(a, env)
                    return VIEW
                if self.is_self(recv) and f.attr.startswith('_') and not f.attr.startswith('__') and not e.keywords:
                    r = self.helper_return(f.attr, list(args), env)
                    if r != UNK:
                        return r
        for a in args:
            self.scan(a.value if isinstance(a, ast.Starred) else a, env)
        for k in e.keywords:
            self.scan(k.value, env)
        self.scan(f, env) if not isinstance(f, ast.Name) else None
        return UNK

    # ------------------------------------------------------------------ statements
    def block(self, stmts: list[ast.stmt], env: dict) -> dict:
        for st in stmts:
            env = self.stmt(st, env)
        return env

    @staticmethod
    def merge(a: dict, b: dict) -> dict:
        out = {}
        for k in set(a) | set(b):
            x, y = a.get(k, UNK), b.get(k, UNK)
            if isinstance(x, Elem) or isinstance(y, Elem):
                out[k] = x if isinstance(x, Elem) and isinstance(y, Elem) and x.space == y.space else UNK
            else:
                out[k] = join(x, y) if k in a and k in b else (x if k in a else y)
        return out

    def stmt(self, st: ast.stmt, env: dict) -> dict:
        if isinstance(st, (ast.FunctionDef, ast.AsyncFunctionDef, ast.ClassDef)):
            return env
        if isinstance(st, ast.Assign):
            v = self.space(st.value, env)
            for t in st.targets:
                if isinstance(t, ast.Name):
                    env[t.id] = v
                elif isinstance(t, (ast.Tuple, ast.List)):
                    self.bind(t, v.space if isinstance(v, Elem) else UNK, env)
                else:
                    self.store_target(t, v, env)
            return env
        if isinstance(st, ast.AnnAssign):
            if st.value is not None and isinstance(st.target, ast.Name):
                env[st.target.id] = self.space(st.value, env)
            return env
        if isinstance(st, ast.AugAssign):
            v = self.space(st.value, env)
            if isinstance(st.target, ast.Name):
                cur = env.get(st.target.id, UNK)
                if isinstance(v, Elem) or isinstance(cur, Elem):
                    env[st.target.id] = UNK
                else:
                    env[st.target.id] = join(cur, v)
            else:
                self.store_target(st.target, v, env)
            return env
        if isinstance(st, ast.Return):
            self.returns.append(self.space(st.value, env) if st.value is not None else CONST)
            return env
        if isinstance(st, ast.Delete):
            for t in st.targets:
                self.scan(t, env)
            return env
        if isinstance(st, (ast.For, ast.AsyncFor)):
            self.bind(st.target, self.elem_of(st.iter, env), env)
            e1 = self.block(st.body, dict(env))
            e1 = self.block(st.body, self.merge(env, e1))       # second round: loop-carried names
            return self.block(st.orelse, self.merge(env, e1))
        if isinstance(st, ast.While):
            self.scan(st.test, env)
            e1 = self.block(st.body, dict(env))
            e1 = self.block(st.body, self.merge(env, e1))
            return self.block(st.orelse, self.merge(env, e1))
        if isinstance(st, ast.If):
            self.scan(st.test, env)
            a = self.block(st.body, dict(env))
            b = self.block(st.orelse, dict(env))
            ta = bool(st.body) and isinstance(st.body[-1], (ast.Return, ast.Raise, ast.Continue, ast.Break))
            tb = bool(st.orelse) and isinstance(st.orelse[-1], (ast.Return, ast.Raise, ast.Continue, ast.Break))
            if ta and not tb:
                return b
            if tb and not ta:
                return a
            return self.merge(a, b)
        if isinstance(st, ast.Try):
            env = self.block(st.body, env)
            for h in st.handlers:
                env = self.merge(env, self.block(h.body, dict(env)))
            env = self.block(st.orelse, env)
            return self.block(st.finalbody, env)
        if isinstance(st, ast.With):
            for it in st.items:
                self.scan(it.context_expr, env)
            return self.block(st.body, env)
        for ch in ast.iter_child_nodes(st):
            if isinstance(ch, ast.expr):
                self.scan(ch, env)
        return env

    def store_target(self, t: ast.AST, v: Any, env: dict) -> None:
        if isinstance(t, ast.Subscript) and self.is_self_attr(t.value, '_raw_indexes'):
            # what is stored into _raw_indexes must be raw positions
            self.sinks += 1
            if isinstance(t.slice, ast.Slice):
                for part in (t.slice.lower, t.slice.upper):
                    if part is not None:
                        self.demand(part, VIEW, env, 'a slice of _raw_indexes')
                sp = v.space if isinstance(v, Elem) else UNK
            else:
                self.demand(t.slice, VIEW, env, 'a subscript of _raw_indexes')
                sp = v if not isinstance(v, Elem) else UNK
            if sp not in (RAW, CONST):
                if sp == UNK or isinstance(sp, tuple):
                    raise AnalysisError(f'IDX-SPACE: {self.fn.qualname}: cannot tell what is stored into _raw_indexes (`{norm(t)[:50]}`)')
                self.problems.append(('a store into _raw_indexes', f'{sp} positions are stored into _raw_indexes, which holds raw positions'))
            return
        self.scan(t, env)


def view_classes(p: Program) -> list[ClassInfo]:
    root = p.cls('RepeatedValueWrapper', 'models.internal.value_properties')
    out = []
    for m in p.modules.values():
        for c in m.classes:
            if root in c.mro:
                out.append(c)
    return out


def rule_idx_space(ctx: RuleContext, p: Program, rid: str) -> None:
    ctx.rule(rid, 'index-space qualifiers in the filtered list views (RepeatedValueWrapper and every class derived from it, and its update '
                  'handler): positions are VIEW (caller\'s index, enumerate(self), len(self), subscripts of _raw_indexes) or RAW (elements of '
                  '_raw_indexes, len(_raw_wrapper), enumerate(_raw_wrapper)); _raw_wrapper is subscripted / popped / inserted / dropped at RAW '
                  'positions only, _raw_indexes and the view\'s own positional methods at VIEW positions only, bisect over _raw_indexes takes RAW '
                  'and gives VIEW -- the two spaces coincide only while no comment is interleaved in front')
    classes = view_classes(p)
    handler = p.cls('_RepeatedValueWrapperUpdateHandler', 'models.internal.value_properties')
    n_fn = 0
    n_sinks = 0
    for c in classes + [handler]:
        for fn in c.methods():
            if fn.kind == 'overload' or fn.cls is not c:
                continue
            src = norm(fn.node)
            if '_raw_wrapper' not in src and '_raw_indexes' not in src and 'super()' not in src and c is not handler:
                continue
            # a private helper that other methods of the view call as self._h(..) is analysed through those calls (with the spaces of
            # the actual arguments), not on its own with unknown parameters
            if c is not handler and fn.name.startswith('_') and not fn.name.startswith('__') and fn.kind not in ('staticmethod', 'classmethod') \
                    and any(isinstance(x, ast.Call) and isinstance(x.func, ast.Attribute) and x.func.attr == fn.name and isinstance(x.func.value, ast.Name)
                            and x.func.value.id == 'self' for k in classes for g in k.methods() if g is not fn for x in ast.walk(g.node)):
                continue
            is_h = c is handler
            sc = SpaceCheck(fn, is_h, c)
            env: dict = {}
            params = fn.params[1:]
            if not is_h and fn.name in SEQ_PARAM_METHODS and params and fn.kind not in ('staticmethod', 'classmethod'):
                env[params[0]] = VIEW
            if not is_h and fn.name == 'index' and len(params) >= 2 and fn.kind not in ('staticmethod', 'classmethod'):
                # Sequence.index(value, start, stop): the bounds are positions of the sequence the method belongs to
                for prm_ in params[1:3]:
                    env[prm_] = VIEW
            if is_h and fn.name == 'handle_splice' and len(params) >= 2:
                env[params[0]] = RAW
                env[params[1]] = RAW
            if fn.name == '__init__':
                # the constructor fills _raw_indexes
                pass
            body = [s for s in fn.node.body]
            # `self._raw_indexes = [...]` in constructors: same obligation as a slice store
            for st in ast.walk(fn.node):
                if isinstance(st, ast.Assign) and len(st.targets) == 1 and sc.is_self_attr(st.targets[0], '_raw_indexes') \
                        and not isinstance(st.value, ast.Name):
                    v = sc.space(st.value, dict(env))
                    sc.sinks += 1
                    if not (isinstance(v, Elem) and v.space in (RAW, CONST)):
                        if isinstance(v, Elem) and v.space == VIEW:
                            sc.problems.append(('the initial _raw_indexes', 'view positions are stored into _raw_indexes'))
                        else:
                            raise AnalysisError(f'IDX-SPACE: {fn.qualname}: cannot tell what _raw_indexes is initialised with')
            sc.block(body, env)
            if not sc.sinks:
                continue
            n_fn += 1
            n_sinks += sc.sinks
            site = f'{c.module.name.split(".", 1)[1]}:{fn.qualname}'
            if sc.problems:
                what, msg = sc.problems[0]
                ctx.fail(rid, site, what, f'{msg}: with a comment interleaved in front of the addressed item the view position and the raw position '
                                          f'differ, so this reads / edits / removes a different line than the one the caller addressed', fn.where)
            else:
                ctx.ok(rid, site, f'{sc.sinks} position uses consistent')
    if n_fn < 15 or n_sinks < 40:
        raise AnalysisError(f'IDX-SPACE: only {n_fn} methods / {n_sinks} position uses analysed')
