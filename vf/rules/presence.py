"""PRESENCE-TRUTH -- presence of an optional child is tested by truthiness, so no class that can sit in such a slot may
have a truth value of its own.

The generated pivot / first_token / last_token chains (`(self._number and self._number.last_token) or ...`), the
form-changing setters of CostSpec (`elif isinstance(self.raw_cost, TotalCost) and value:`) and many helpers decide
"is this optional part there?" with `if x`, `x and ...`, `x or ...`.  That is equivalent to `x is not None` only while
every class of x inherits object's truth value.  The rule types every expression that stands in a truth context
(annotations of parameters and returns, descriptor type arguments, the field a property wraps, single local
assignments and walrus bindings), and for each one whose type is Optional[C...] it requires that no C -- nor any
subclass of C in the repository -- defines or inherits __bool__ or __len__.
"""
from __future__ import annotations

import ast
from typing import Any, Iterator, Optional

from ..model import (AnalysisError, ClassInfo, Const, CustomProp, DescriptorDecl, FuncInfo, ModuleInfo, Program, norm,
                     walk_no_nested)
from ..report import RuleContext

TRUTH_DUNDERS = ('__bool__', '__len__')

# Sites where "None or empty" is deliberately (and harmlessly) one case; each read and confirmed.  One named expression each.
EXEMPT = {
    'RawModel.detach: self.token_store': 'TokenStore has __len__; for an empty store the early `return []` is what list(store) yields anyway',
    'RawModel.tokens: self.token_store': 'TokenStore has __len__; for an empty store the early `return []` is what iter() over no tokens yields anyway',
}


class Ty:
    __slots__ = ('classes', 'optional', 'plain')

    def __init__(self, classes: frozenset = frozenset(), optional: bool = False, plain: frozenset = frozenset()) -> None:
        self.classes = classes
        self.optional = optional
        self.plain = plain            # names of plain value types with falsy members: 'str', 'Decimal', 'int'

    def __or__(self, other: 'Ty') -> 'Ty':
        return Ty(self.classes | other.classes, self.optional or other.optional, self.plain | other.plain)


class Typer:
    def __init__(self, p: Program) -> None:
        self.p = p
        self._attr_cache: dict[tuple[int, str], Optional[Ty]] = {}
        self._busy: set[tuple[int, str]] = set()

    # -- annotations ------------------------------------------------------------
    def ann(self, m: ModuleInfo, a: Optional[ast.AST], cls: Optional[ClassInfo] = None, depth: int = 0) -> Optional[Ty]:
        if a is None or depth > 30:
            return None
        if isinstance(a, ast.Constant):
            if a.value is None:
                return Ty(frozenset(), True)
            if isinstance(a.value, str):
                try:
                    return self.ann(m, ast.parse(a.value, mode='eval').body, cls, depth + 1)
                except SyntaxError:
                    return None
            return None
        if isinstance(a, ast.Tuple):
            out = Ty()
            for e in a.elts:
                t = self.ann(m, e, cls, depth + 1)
                if t is None:
                    return None
                out = out | t
            return out
        if isinstance(a, ast.BinOp) and isinstance(a.op, ast.BitOr):
            l, r = self.ann(m, a.left, cls, depth + 1), self.ann(m, a.right, cls, depth + 1)
            if l is None or r is None:
                return None
            return l | r
        if isinstance(a, ast.Subscript):
            head = norm(a.value).rsplit('.', 1)[-1]
            if head == 'Optional':
                inner = self.ann(m, a.slice, cls, depth + 1)
                return None if inner is None else Ty(inner.classes, True, inner.plain)
            if head == 'Union':
                elts = a.slice.elts if isinstance(a.slice, ast.Tuple) else [a.slice]
                out = Ty()
                for e in elts:
                    t = self.ann(m, e, cls, depth + 1)
                    if t is None:
                        return None
                    out = out | t
                return out
            if head in ('Type', 'type', 'Callable', 'Literal'):
                return None
            if head in ('Iterable', 'Sequence', 'Collection', 'Container', 'Mapping', 'MutableSequence', 'MutableMapping', 'AbstractSet', 'Set',
                        'FrozenSet', 'List', 'Tuple', 'Dict', 'list', 'tuple', 'set', 'frozenset', 'dict'):
                return Ty(plain=frozenset(['collection']))     # has empty (falsy) members
            return self.ann(m, a.value, cls, depth + 1)
        if isinstance(a, (ast.Name, ast.Attribute)):
            last = norm(a).rsplit('.', 1)[-1]
            if last in ('str', 'Decimal', 'int') and norm(a) in ('str', 'int', 'decimal.Decimal', 'Decimal'):
                return Ty(plain=frozenset([last]))
            if isinstance(a, ast.Name) and a.id == 'Self' and cls is not None:
                return Ty(frozenset([cls]))
            s = self.p.resolve_expr(m, a)
            if isinstance(s, ClassInfo):
                return Ty(frozenset([s]))
            if isinstance(s, Const):
                return self.ann(s.module, s.node, cls, depth + 1)
            return None
        return None

    # -- attributes of a class ---------------------------------------------------
    def attr(self, c: ClassInfo, name: str) -> Optional[Ty]:
        key = (id(c), name)
        if key in self._attr_cache:
            return self._attr_cache[key]
        if key in self._busy:
            return None
        self._busy.add(key)
        try:
            t = self._attr(c, name)
        finally:
            self._busy.discard(key)
        self._attr_cache[key] = t
        return t

    def _attr(self, c: ClassInfo, name: str) -> Optional[Ty]:
        name = c.mangle(name)
        s = c.lookup(name)
        owner = c.lookup_owner(name)
        if isinstance(s, DescriptorDecl) and owner is not None:
            kind = s.kind.name
            if s.type_args is not None and kind.endswith('_field'):
                t = self.ann(owner.module, s.type_args, owner)
                if t is None:
                    return None
                if kind.startswith('optional'):
                    return Ty(t.classes, True)
                if kind.startswith('required'):
                    return t
                return None                       # repeated_field: a wrapper, never None
            # a property descriptor wrapping a field / another property: same type as what it wraps, when the descriptor
            # class passes the inner value through (node properties); value-level properties return plain values
            if kind in ('required_node_property', 'optional_node_property'):
                a0 = s.arg(0)
                if isinstance(a0, ast.Name):
                    return self.attr(owner, a0.id)
            if kind in ('optional_string_property', 'optional_indented_string_property'):
                return Ty(optional=True, plain=frozenset(['str']))
            if kind == 'optional_decimal_property':
                return Ty(optional=True, plain=frozenset(['Decimal']))
            if kind == 'unordered_node_property':
                a1 = s.arg(1)
                t = self.ann(owner.module, a1, owner) if a1 is not None else None
                return None if t is None else Ty(t.classes, True)
            return None
        if isinstance(s, CustomProp) and s.fget is not None and owner is not None:
            return self.ann(s.fget.module, s.fget.node.returns, owner)
        if isinstance(s, Const) and owner is not None and isinstance(s.node, ast.Name):
            return self.attr(owner, s.node.id)     # alias: raw_date = raw_date_comp
        # instance attributes assigned from an annotated __init__ parameter
        for k in c.mro:
            init = k.attrs.get('__init__')
            if isinstance(init, FuncInfo):
                for n in walk_no_nested(init.node):
                    if isinstance(n, ast.Assign) and len(n.targets) == 1 and isinstance(n.targets[0], ast.Attribute) \
                            and isinstance(n.targets[0].value, ast.Name) and n.targets[0].value.id == init.params[0] \
                            and n.targets[0].attr == name and isinstance(n.value, ast.Name):
                        t = self.param(init, n.value.id)
                        if t is not None:
                            return t
            for st in k.node.body:
                if isinstance(st, ast.AnnAssign) and isinstance(st.target, ast.Name) and st.target.id == name and st.value is None:
                    t = self.ann(k.module, st.annotation, k)
                    if t is not None:
                        return t
        return None

    def param(self, fn: FuncInfo, name: str) -> Optional[Ty]:
        a = fn.node.args
        for arg in [*a.posonlyargs, *a.args, *a.kwonlyargs]:
            if arg.arg == name:
                return self.ann(fn.module, arg.annotation, fn.cls)
        return None

    # -- expressions --------------------------------------------------------------
    def expr(self, fn: FuncInfo, e: ast.AST, local: dict[str, Optional[Ty]]) -> Optional[Ty]:
        if isinstance(e, ast.NamedExpr):
            return self.expr(fn, e.value, local)
        if isinstance(e, ast.Name):
            if e.id in local:
                return local[e.id]
            if fn.cls is not None and fn.kind not in ('function', 'staticmethod', 'classmethod') and fn.params and e.id == fn.params[0]:
                return Ty(frozenset([fn.cls]))
            return self.param(fn, e.id)
        if isinstance(e, ast.Attribute):
            base = self.expr(fn, e.value, local)
            if base is None or not base.classes:
                return None
            out: Optional[Ty] = None
            for c in base.classes:
                t = self.attr(c, e.attr)
                if t is None:
                    return None
                out = t if out is None else (out | t)
            return out
        if isinstance(e, ast.Call) and isinstance(e.func, ast.Attribute) and isinstance(e.func.value, ast.Call) \
                and isinstance(e.func.value.func, ast.Name) and e.func.value.func.id == 'super' and not e.func.value.args and fn.cls is not None:
            # super().method(...): the next definition along the MRO; `Self` in its annotation is the class of the caller
            for k in fn.cls.mro[1:]:
                s = k.attrs.get(e.func.attr)
                if isinstance(s, FuncInfo) and s.kind in ('method', 'classmethod', 'staticmethod'):
                    if s.node.returns is not None and norm(s.node.returns).rsplit('.', 1)[-1].strip('\'"') == 'Self':
                        return Ty(frozenset([fn.cls]))
                    return self.ann(s.module, s.node.returns, fn.cls)
            return None
        if isinstance(e, ast.Call) and isinstance(e.func, ast.Attribute):
            base = self.expr(fn, e.func.value, local)
            if base is None or len(base.classes) != 1:
                return None
            c = next(iter(base.classes))
            s = c.lookup(c.mangle(e.func.attr))
            if isinstance(s, FuncInfo) and s.kind in ('method', 'classmethod', 'staticmethod'):
                return self.ann(s.module, s.node.returns, c)
            return None
        if isinstance(e, ast.Call) and isinstance(e.func, (ast.Name, ast.Attribute)):
            s = self.p.resolve_expr(fn.module, e.func)
            if isinstance(s, FuncInfo) and s.cls is None:
                return self.ann(s.module, s.node.returns)
            if isinstance(s, ClassInfo):
                return Ty(frozenset([s]))
            return None
        return None

    @staticmethod
    def _cache_lookup(v: ast.AST) -> bool:
        """`d.get(k)` / `d.get(k, None)` / `getattr(o, n, None)`: yields the cached object or None"""
        if not isinstance(v, ast.Call):
            return False
        none2 = len(v.args) >= 2 and isinstance(v.args[-1], ast.Constant) and v.args[-1].value is None
        if isinstance(v.func, ast.Attribute) and v.func.attr == 'get' and (len(v.args) == 1 or (len(v.args) == 2 and none2)):
            return True
        return isinstance(v.func, ast.Name) and v.func.id == 'getattr' and len(v.args) == 3 and none2

    def locals_of(self, fn: FuncInfo) -> dict[str, Optional[Ty]]:
        """names bound exactly once (assignment or walrus) to a typed expression; parameters are typed by annotation"""
        binds: dict[str, list[ast.AST]] = {}
        other: set[str] = set()
        for n in walk_no_nested(fn.node):
            if isinstance(n, ast.Assign) and len(n.targets) == 1 and isinstance(n.targets[0], ast.Name):
                binds.setdefault(n.targets[0].id, []).append(n.value)
            elif isinstance(n, ast.NamedExpr):
                binds.setdefault(n.target.id, []).append(n.value)
            elif isinstance(n, (ast.For, ast.comprehension)):
                for x in ast.walk(n.target):
                    if isinstance(x, ast.Name):
                        other.add(x.id)
            elif isinstance(n, (ast.AugAssign, ast.AnnAssign)) and isinstance(n.target, ast.Name):
                other.add(n.target.id)
            elif isinstance(n, ast.Assign):
                for t in n.targets:
                    for x in ast.walk(t):
                        if isinstance(x, ast.Name) and isinstance(x.ctx, ast.Store):       # `m.a, m.b = ...` does not rebind m
                            other.add(x.id)
            elif isinstance(n, (ast.With, ast.ExceptHandler, ast.MatchAs, ast.MatchStar)):
                nm = getattr(n, 'name', None)
                if isinstance(nm, str):
                    other.add(nm)
        a = fn.node.args
        params = {x.arg for x in [*a.posonlyargs, *a.args, *a.kwonlyargs]}
        local: dict[str, Optional[Ty]] = {}
        for name, vals in binds.items():
            if name in other or name in params:
                local[name] = None
                continue
            tys = [self.expr(fn, v, {}) for v in vals]
            lookups = [v for v, t in zip(vals, tys) if t is None and self._cache_lookup(v)]
            if lookups and len(lookups) < len(vals) and all(t is not None or self._cache_lookup(v) for v, t in zip(vals, tys)):
                # memo idiom: x = cache.get(k); if <test>: x = Build(...); cache[k] = x  -- x is Optional[Build]
                out = Ty(frozenset(), True)
                for t in tys:
                    if t is not None:
                        out = out | t
                local[name] = out
            elif any(t is None for t in tys):
                local[name] = None
            else:
                out = tys[0]
                for t in tys[1:]:
                    out = out | t         # type: ignore[operator]
                local[name] = out
        for name in other:
            if name not in params:
                local.setdefault(name, None)
        return local


def truth_contexts(fn: FuncInfo) -> Iterator[tuple[ast.AST, str]]:
    """expressions whose truth value steers control flow / a boolean operator"""
    def operands(e: ast.AST, tested: bool, why: str) -> Iterator[tuple[ast.AST, str]]:
        if isinstance(e, ast.BoolOp):
            for i, v in enumerate(e.values):
                last = i == len(e.values) - 1
                if not last or tested:
                    nxt = e.values[i + 1] if not last else None
                    empty_default = isinstance(e.op, ast.Or) and nxt is not None and (
                        (isinstance(nxt, (ast.List, ast.Tuple, ast.Set)) and not nxt.elts) or (isinstance(nxt, ast.Dict) and not nxt.keys)
                        or (isinstance(nxt, ast.Constant) and nxt.value in ('', 0, b''))
                        or (isinstance(nxt, ast.Call) and not nxt.args and not nxt.keywords and isinstance(nxt.func, ast.Name)
                            and nxt.func.id in ('list', 'tuple', 'set', 'frozenset', 'dict', 'str')))
                    yield from operands(v, True, (f'operand of `{type(e.op).__name__.lower()}`' + (' with an empty default' if empty_default else ''))
                                        if not last else why)
                else:
                    yield from operands(v, False, why)
        elif isinstance(e, ast.UnaryOp) and isinstance(e.op, ast.Not):
            yield from operands(e.operand, True, 'operand of `not`')
        elif isinstance(e, ast.IfExp):
            yield from operands(e.test, True, 'condition of a conditional expression')
            yield from operands(e.body, tested, why)
            yield from operands(e.orelse, tested, why)
        elif tested:
            yield e, why

    seen: set[int] = set()
    for n in walk_no_nested(fn.node):
        todo: list[tuple[ast.AST, bool, str]] = []
        if isinstance(n, (ast.If, ast.While)):
            todo.append((n.test, True, f'condition of `{type(n).__name__.lower()}`'))
        elif isinstance(n, ast.Assert):
            todo.append((n.test, True, 'assert'))
        elif isinstance(n, ast.comprehension):
            for c in n.ifs:
                todo.append((c, True, 'comprehension filter'))
        elif isinstance(n, ast.match_case) and n.guard is not None:
            todo.append((n.guard, True, 'case guard'))
        elif isinstance(n, (ast.BoolOp, ast.IfExp)) or (isinstance(n, ast.UnaryOp) and isinstance(n.op, ast.Not)):
            if id(n) not in seen:
                todo.append((n, False, 'value'))
        for e, tested, why in todo:
            for sub in ast.walk(e):
                seen.add(id(sub))
            yield from operands(e, tested, why)


def truthy_definers(p: Program) -> dict[int, tuple[ClassInfo, str, ClassInfo]]:
    """class -> (class, dunder, defining class) for every repository class that inherits a truth dunder from a repository class"""
    out: dict[int, tuple[ClassInfo, str, ClassInfo]] = {}
    for m in p.modules.values():
        for c in m.classes:
            for k in c.mro:
                hit = next((d for d in TRUTH_DUNDERS if isinstance(k.attrs.get(d), FuncInfo)), None)
                if hit:
                    out[id(c)] = (c, hit, k)
                    break
    return out


def rule_presence_truth(ctx: RuleContext, p: Program, rid: str, minimum: int = 60) -> None:
    ctx.rule(rid, 'every expression of type Optional[C] that is tested by truthiness (if / and / or / not / conditional expression) '
                  'has only classes C (including their repository subclasses) without __bool__ / __len__, so that the test means "is present" '
                  '(two named store-emptiness sites exempt); types come from annotations, descriptor type arguments and single local bindings')
    ty = Typer(p)
    bad = truthy_definers(p)
    n_typed = 0
    n_sites = 0
    for m in p.modules.values():
        if m.name.endswith('_test') or '.modelgen' in m.name:
            continue
        for fn in p.functions_in(m):
            if fn.kind == 'overload':
                continue
            local: Optional[dict[str, Optional[Ty]]] = None
            for e, why in truth_contexts(fn):
                n_sites += 1
                if not isinstance(e, (ast.Name, ast.Attribute, ast.NamedExpr, ast.Call)):
                    continue
                if local is None:
                    local = ty.locals_of(fn)
                t = ty.expr(fn, e, local)
                if t is not None and t.optional and t.plain and not t.classes:
                    n_typed += 1
                    if why.endswith('with an empty default'):
                        continue          # `x or ''` / `xs or ()`: the falsy member and None give the same result by construction
                    site = f'{m.name.split(".", 1)[-1]}:{fn.qualname}'
                    falsy = {'str': "''", 'Decimal': 'Decimal(0)', 'int': '0', 'collection': 'an empty collection'}
                    ctx.fail(rid, site, f'{norm(e)} : Optional[{"|".join(sorted(t.plain))}]',
                             f'`{norm(e)}` ({why}) is Optional[{" | ".join(sorted(t.plain))}] and is tested by truthiness: '
                             f'{", ".join(falsy[x] for x in sorted(t.plain))} is a legitimate value, not an absent one, so assigning / holding it takes '
                             f'the "absent" branch (an empty payee counts as no payee, a zero tolerance is rebuilt instead of updated in place, an '
                             f'empty selection of comments means "all of them")',
                             f'{m.relpath}:{getattr(e, "lineno", fn.node.lineno)}')
                    continue
                if t is None or not t.optional or not t.classes:
                    continue
                if (site_key := f'{fn.qualname}: {norm(e.value if isinstance(e, ast.NamedExpr) else e)}') in EXEMPT:
                    ctx.ok(rid, f'{m.name.split(".", 1)[-1]}:{site_key}', 'exempt: ' + EXEMPT[site_key], nontrivial=False)
                    continue
                n_typed += 1
                offenders = []
                for c in sorted(t.classes, key=lambda k: k.qualname):
                    for k in [c, *c.all_subclasses()]:
                        if id(k) in bad:
                            offenders.append(bad[id(k)])
                site = f'{m.name.split(".", 1)[-1]}:{fn.qualname}'
                if offenders:
                    c, dunder, definer = offenders[0]
                    ctx.fail(rid, site, f'{norm(e)} : {c.name}.{dunder}',
                             f'`{norm(e)}` ({why}) is Optional[{" | ".join(sorted(k.name for k in t.classes))}] and is tested by truthiness '
                             f'to mean "present", but {c.name} gets {dunder} from {definer.name} ({definer.where}): a present '
                             f'{c.name} whose {dunder} is false/zero is treated as absent -- the write or the separator/pivot '
                             f'choice that depends on this test goes the wrong way', f'{m.relpath}:{getattr(e, "lineno", fn.node.lineno)}')
                else:
                    ctx.ok(rid, f'{site}: {norm(e)}', f'Optional[{" | ".join(sorted(k.name for k in t.classes))}], {why}', nontrivial=True)
    if n_typed < minimum:
        raise AnalysisError(f'{rid}: only {n_typed} typed presence tests found out of {n_sites} truth contexts (>= {minimum} confirmed on this tree)')
