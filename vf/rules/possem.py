"""POS-SEM -- finite-domain abstract evaluation of the position bookkeeping of token_store.py.

Position.__iadd__/__add__, _StoreBlock.from_tokens / rebuild / extend, TokenStore.update and TokenStore.get_position are
interpreted from their ASTs (an interpreter written here; the Python interpreter never runs repository code) over
*abstract tokens*: a token either carries a newline or does not, its line count is a positive symbol (or 0), its column a
symbol; all arithmetic is done on linear forms over those symbols.  Blocks of 0..4 abstract tokens are enumerated with
every newline pattern, every position of the edited token and both kinds of new text.

Obligations (the representation invariant of a block, and what the queries must return):
  size            == fold of Position addition over the block's tokens   (lines add up; the column restarts after a newline)
  last_newline_index == index of the last token that carries a newline, else -1
  token.store_handle == (its block, its index)                            for the functions that (re)build a block
  update(token, new size) leaves the block's caches equal to the fold with that token's size replaced
  get_position(token)    == fold over every token before it (whole earlier blocks through their cached size)
  _splice inside the only block of a store (the in-place branch when the last newline lies at or after the replaced range,
  the rebuild branch otherwise) leaves that block == before[:start] + inserted + before[end:] with the invariant intact
Unsupported syntax is an analysis error (exit 2), never a pass.
"""
from __future__ import annotations

import ast
import itertools
from typing import Any, Optional

from ..model import AnalysisError, FuncInfo, norm, stmts_no_doc
from ..report import RuleContext
from .tokenstore import TS
from .tsseq import Lin, add, lin, mk, mul, sym


# ----------------------------------------------------------------------------- values
_RE_FUNCS = ('split', 'findall', 'sub', 'subn', 'match', 'fullmatch', 'search', 'finditer', 'compile', 'escape')
_SENTINELS: dict = {}
_IS_GEN: dict = {}        # function node -> does its own body yield (a fact of the syntax tree, computed once per node)


class Obj:
    def __init__(self, cls: str, fields: Optional[dict] = None, label: str = '') -> None:
        self.cls = cls
        self.f: dict[str, Any] = fields or {}
        self.label = label

    def __repr__(self) -> str:
        return f'<{self.cls} {self.label}>' if self.label else f'<{self.cls}>'


class ClassRef:
    def __init__(self, name: str) -> None:
        self.name = name


class StrSym:
    """the text of an abstract token: its length is its column when it has no newline, an independent symbol otherwise"""
    def __init__(self, tag: str, nl: bool) -> None:
        self.tag, self.nl = tag, nl

    def length(self) -> Any:
        return sym(f'T{self.tag}') if self.nl else sym(f'C{self.tag}')


class Bound:
    def __init__(self, recv: Any, fn: FuncInfo) -> None:
        self.recv, self.fn = recv, fn


class Builtin:
    def __init__(self, name: str) -> None:
        self.name = name


class _Return(Exception):
    def __init__(self, v: Any) -> None:
        self.v = v


class _Break(Exception):
    pass


class _Continue(Exception):
    pass


class Raised(Exception):
    pass


def sign(v: Any) -> Optional[int]:
    """sign of an integer value under 'every symbol is positive'; None when it depends on the symbols"""
    if isinstance(v, bool):
        return int(v)
    if isinstance(v, int):
        return (v > 0) - (v < 0)
    if isinstance(v, Lin):
        cs = [c for _, c in v.terms]
        if all(c > 0 for c in cs) and v.const >= 0:
            return 1
        if all(c < 0 for c in cs) and v.const <= 0:
            return -1
    return None


def _walk_own(fn_node: ast.AST):
    """nodes of a function body, not descending into nested functions / lambdas"""
    todo = list(ast.iter_child_nodes(fn_node))
    while todo:
        n = todo.pop()
        yield n
        if not isinstance(n, (ast.FunctionDef, ast.Lambda, ast.ClassDef)):
            todo.extend(ast.iter_child_nodes(n))


class PosInterp:
    MAX_STEPS = 50000
    tag = 'POS-SEM'

    def __init__(self, ts: TS, script: list[int], module: Any = None) -> None:
        self.ts = ts
        self.p = ts.p
        self.mod = module or ts.m
        self.funcs: dict[str, FuncInfo] = ts.funcs if module is None else {
            f.qualname: f for f in ts.p.functions_in(module) if f.kind != 'overload' and f.parent is None}
        self.script = script
        self.pos = 0
        self.taken: list[tuple[int, int, str]] = []
        self.memo: dict[Any, int] = {}
        self._yields: list[list] = []
        self.steps = 0

    def err(self, node: ast.AST, what: str) -> AnalysisError:
        return AnalysisError(f'{self.tag}: unsupported {what}: `{norm(node)[:90]}` (line {getattr(node, "lineno", "?")})')

    def choose(self, label: str) -> int:
        c = self.script[self.pos] if self.pos < len(self.script) else 0
        self.pos += 1
        self.taken.append((c, 2, label))
        return c

    def sign_of(self, v: Any, node: ast.AST) -> int:
        s = sign(v)
        if s is not None:
            return s
        if not isinstance(v, Lin):
            raise self.err(node, f'sign of {v!r}')
        neg = mul(v, -1)
        if v in self.memo:
            return self.memo[v]
        if neg in self.memo:
            return -self.memo[neg]
        # undecided by the symbols' positivity: explore positive / negative (equality of two independent symbols is a null case)
        s = 1 if self.choose(f'{v!r} > 0 ? (line {getattr(node, "lineno", "?")})') else -1
        self.memo[v] = s
        return s

    # -- classes -------------------------------------------------------------------
    def fields_of(self, cls: str) -> list[tuple[str, Optional[ast.AST]]]:
        ci = self._cls(cls)
        out = []
        for st in ci.node.body:
            if isinstance(st, ast.AnnAssign) and isinstance(st.target, ast.Name):
                out.append((st.target.id, st.value))
        return out

    def _cls(self, name: str) -> Any:
        cands = [c for c in self.mod.classes if c.name == name]
        return cands[0] if cands else self.p.cls(name)

    def class_constant(self, cls: str, name: str) -> Optional[ast.AST]:
        """the expression of a class-level constant of the one non-test repository class called `cls` (None when there is no such class or constant)"""
        cands = [c for c in self.p.class_by_name.get(cls, []) if not c.module.name.endswith('_test')]
        if len(cands) != 1:
            hand = [c for c in cands if '.generated' not in c.module.name]
            if len(hand) != 1:
                return None
            cands = hand
        k = self.p.class_const(cands[0], name)
        return k if isinstance(k, (ast.Constant, ast.BinOp, ast.JoinedStr, ast.Tuple)) else None

    def is_dataclass(self, cls: str) -> bool:
        ci = self._cls(cls)
        return any('dataclass' in norm(d) for d in ci.node.decorator_list)

    def instantiate(self, cls: str, args: list, kwargs: dict, node: ast.AST) -> Obj:
        if not self.is_dataclass(cls):
            init = self.method(cls, '__init__')
            if init is None:
                raise self.err(node, f'construction of {cls}')
            o = Obj(cls)
            self.call_function(init, [o] + args, kwargs)
            return o
        o = Obj(cls)
        fl = self.fields_of(cls)
        for (name, _), v in zip(fl, args):
            o.f[name] = v
        for k, v in kwargs.items():
            o.f[k] = v
        for name, default in fl:
            if name in o.f:
                continue
            if default is None:
                raise self.err(node, f'missing field {name} of {cls}')
            if isinstance(default, ast.Call) and norm(default.func).endswith('field'):
                fac = next((k.value for k in default.keywords if k.arg == 'default_factory'), None)
                dv = next((k.value for k in default.keywords if k.arg == 'default'), None)
                if fac is not None:
                    o.f[name] = self.call_value(self.expr(fac, {}), [], {}, default)
                elif dv is not None:
                    o.f[name] = self.expr(dv, {})
                else:
                    raise self.err(default, 'dataclass field')
            else:
                o.f[name] = self.expr(default, {})
        return o

    def method(self, cls: str, name: str) -> Optional[FuncInfo]:
        return self.funcs.get(f'{cls}.{name}')

    # -- calls -----------------------------------------------------------------------
    def call_function(self, fn: FuncInfo, args: list, kwargs: dict) -> Any:
        if fn.module is not self.mod and (fn.cls is None or self._foreign_methods) and fn.parent is None and fn.module is not None and self._foreign_ok:
            # a module-level function of another module: its globals are those of its own module for the duration of the call
            prev = (self.mod, self.funcs)
            self.mod = fn.module
            self.funcs = {f.qualname: f for f in self.p.functions_in(fn.module) if f.kind != 'overload' and f.parent is None}
            try:
                return self._call_function(fn, args, kwargs)
            finally:
                self.mod, self.funcs = prev
        return self._call_function(fn, args, kwargs)

    _foreign_ok = True
    _foreign_methods = False          # clients that call methods of classes of other modules by their own lookup switch this on

    def _call_function(self, fn: FuncInfo, args: list, kwargs: dict) -> Any:
        a = fn.node.args
        names = [x.arg for x in [*a.posonlyargs, *a.args]]
        env: dict[str, Any] = dict(zip(names, args))
        if a.vararg is not None:
            env[a.vararg.arg] = tuple(args[len(names):])          # *rest takes the positional arguments beyond the named ones
        elif len(args) > len(names):
            raise Raised(f'TypeError: {fn.qualname}() takes {len(names)} positional arguments but {len(args)} were given')
        env.update(kwargs)
        defaults = dict(zip(names[len(names) - len(a.defaults):], a.defaults))
        for n in names:
            if n not in env:
                if n not in defaults:
                    raise AnalysisError(f'POS-SEM: missing argument {n} calling {fn.qualname}')
                env[n] = self.default_value(fn, n, defaults[n])
        for ka, kd in zip(a.kwonlyargs, a.kw_defaults):
            if ka.arg not in env:
                if kd is None:
                    raise AnalysisError(f'POS-SEM: missing keyword argument {ka.arg} calling {fn.qualname}')
                env[ka.arg] = self.default_value(fn, ka.arg, kd)
        is_gen = _IS_GEN.get(fn.node)
        if is_gen is None:
            is_gen = _IS_GEN[fn.node] = any(isinstance(x, (ast.Yield, ast.YieldFrom)) for x in _walk_own(fn.node))
        if is_gen:
            self._yields.append([])
        try:
            self.block(stmts_no_doc(fn.node.body), env)
        except _Return as r:
            if is_gen:
                return _It(self._yields.pop())
            return r.v
        if is_gen:
            return _It(self._yields.pop())
        return None

    def default_value(self, fn: FuncInfo, name: str, node: ast.AST) -> Any:
        """a default is evaluated ONCE, when the function is defined: one object per (function, parameter) for the lifetime of this
        interpreter -- a mutable default is shared by every call that omits the argument"""
        cache = self.__dict__.setdefault('_defaults', {})
        key = (id(fn.node), name)
        if key not in cache:
            cache[key] = self.expr(node, {})
        return cache[key]

    def call_value(self, f: Any, args: list, kwargs: dict, node: ast.AST) -> Any:
        if isinstance(f, _PyFn):
            return f.fn(*args)
        if type(f).__name__ in ('builtin_function_or_method', 'builtin_method', 'method', 'method-wrapper') and (isinstance(getattr(f, '__self__', None), str) or type(getattr(f, '__self__', None)).__name__ in ('Decimal', 'Pattern', 'Match')):
            try:
                return f(*args, **kwargs)
            except (TypeError, ValueError) as ex:
                raise Raised(f'{type(ex).__name__}: {ex}')
        if type(f).__name__ == 'function' and getattr(f, '__module__', '') == 're' and f.__name__ in _RE_FUNCS:
            # a function of the standard re module applied to concrete texts (stdlib: trusted)
            if not all(isinstance(a_, (str, int)) or type(a_).__name__ == 'Pattern' for a_ in args) or not all(isinstance(v_, (str, int)) for v_ in kwargs.values()):
                raise self.err(node, f're.{f.__name__} over abstract values')
            import re as _re2
            try:
                return f(*args, **kwargs)
            except (TypeError, ValueError, _re2.error) as ex:
                raise Raised(f'{type(ex).__name__}: {ex}')
        if isinstance(f, Bound):
            if f.fn.kind == 'staticmethod':
                return self.call_function(f.fn, args, kwargs)        # reached through an instance or the class: no receiver is passed
            return self.call_function(f.fn, [f.recv] + args, kwargs)
        if isinstance(f, FuncInfo):
            return self.call_function(f, args, kwargs)
        if isinstance(f, ClassRef):
            return self.instantiate(f.name, args, kwargs, node)
        if isinstance(f, _LocalFn):
            a = f.node.args
            names = [x.arg for x in [*a.posonlyargs, *a.args]]
            if a.vararg or a.kwarg or a.kwonlyargs:
                raise self.err(node, 'call of a local function with star / keyword-only parameters')
            en = dict(f.env)                          # the enclosing names as they are now
            en.update(zip(names, args))
            en.update(kwargs)
            defaults = dict(zip(names[len(names) - len(a.defaults):], a.defaults))
            for n_ in names:
                if n_ not in en or (n_ in f.env and n_ not in kwargs and names.index(n_) >= len(args)):
                    if n_ not in defaults:
                        raise Raised(f'TypeError: {f.node.name}() missing argument {n_}')
                    en[n_] = self.expr(defaults[n_], f.env)
            try:
                self.block(stmts_no_doc(f.node.body), en)
            except _Return as r_:
                return r_.v
            return None
        if isinstance(f, _Lambda):
            a = f.node.args
            names = [x.arg for x in [*a.posonlyargs, *a.args]]
            if len(names) != len(args) or kwargs or a.vararg or a.kwarg:
                raise self.err(node, 'lambda call')
            en = dict(f.env)
            en.update(zip(names, args))
            return self.expr(f.node.body, en)
        if isinstance(f, Builtin):
            n = f.name
            if n in ('operator.imul', 'operator.mul', 'operator.itruediv', 'operator.truediv', 'operator.neg', 'operator.pos'):
                if n in ('operator.neg', 'operator.pos'):
                    return self.binop(ast.Sub(), 0, args[0], node) if n == 'operator.neg' else args[0]
                return self.binop(ast.Mult() if 'mul' in n else ast.Div(), args[0], args[1], node)
            if n in ('operator.iadd', 'operator.add', 'operator.isub', 'operator.sub'):
                a_, b_ = args
                if isinstance(a_, Obj):
                    dunder = {'operator.iadd': '__iadd__', 'operator.add': '__add__', 'operator.isub': '__isub__', 'operator.sub': '__sub__'}[n]
                    m_ = self.method(a_.cls, dunder) or (self.method(a_.cls, '__add__') if dunder == '__iadd__' else None)
                    if m_ is None:
                        raise self.err(node, f'{n} on an object without {dunder}')
                    return self.call_function(m_, [a_, b_], {})
                return self.binop(ast.Add() if 'add' in n else ast.Sub(), a_, b_, node)
            if n == 'functools.reduce':
                fn_ = args[0]
                items_ = self.iter_of(args[1], node)
                if len(args) > 2:
                    acc_ = args[2]
                else:
                    if not items_:
                        raise Raised('TypeError: reduce() of empty iterable with no initial value')
                    acc_, items_ = items_[0], items_[1:]
                for x_ in items_:
                    acc_ = self.call_value(fn_, [acc_, x_], {}, node)
                return acc_
            if n == 'map':
                seqs = [self.iter_of(a_, node) for a_ in args[1:]]
                return [self.call_value(args[0], list(xs), {}, node) for xs in zip(*seqs)]
            if n == 'filter':
                return [x_ for x_ in self.iter_of(args[1], node) if (self.truth(self.call_value(args[0], [x_], {}, node), node) if args[0] is not None else self.truth(x_, node))]
            if n == 'operator.attrgetter':
                if len(args) != 1 or not isinstance(args[0], str):
                    raise self.err(node, 'operator.attrgetter with several names')
                return _Lambda(ast.parse(f'lambda o: o.{args[0]}', mode='eval').body, {})
            if n == 'operator.itemgetter':
                if len(args) != 1:
                    raise self.err(node, 'operator.itemgetter with several keys')
                return _Lambda(ast.parse(f'lambda o: o[{args[0]!r}]', mode='eval').body, {})
            if n == 'itertools.count':
                return _Counter(args[0] if args else 0)
            if n == 'next' and args and isinstance(args[0], _Counter):
                args[0].n += 1
                return args[0].n - 1
            if n == 'itertools.groupby':
                key = kwargs.get('key') if 'key' in kwargs else (args[1] if len(args) > 1 else None)
                groups: list = []
                for x in self.iter_of(args[0], node):
                    k = self.call_value(key, [x], {}, node) if key is not None else x
                    if groups and groups[-1][0] == k:
                        groups[-1][1].append(x)
                    else:
                        groups.append((k, [x]))
                return groups
            if n == 'len':
                if isinstance(args[0], (list, tuple, range, dict, str)):
                    return len(args[0])
                if isinstance(args[0], StrSym):
                    return args[0].length()
                raise self.err(node, 'len()')
            if n == 'range':
                if not all(isinstance(x, int) for x in args):
                    raise self.err(node, 'range over symbolic bounds')
                return range(*args)
            if n == 'slice':
                if not all(x is None or isinstance(x, int) for x in args):
                    raise self.err(node, 'slice with symbolic bounds')
                return slice(*args)
            if n == 'enumerate':
                return [(i, x) for i, x in enumerate(self.iter_of(args[0], node), *args[1:])]
            if n == 'iter' and args and isinstance(args[0], _It):
                return args[0]
            if n in ('list', 'tuple', 'iter'):
                r_ = self.iter_of(args[0], node) if args else []
                return tuple(r_) if n == 'tuple' else _It(r_) if n == 'iter' else r_
            if n == 'reversed':
                return list(reversed(self.iter_of(args[0], node)))
            if n == 'zip':
                return [tuple(x) for x in zip(*[self.iter_of(a, node) for a in args])]
            if n == 'next' and isinstance(args[0], _It):
                if args[0]:
                    return args[0].pop(0)
                if len(args) > 1:
                    return args[1]
                raise Raised('StopIteration')
            if n == 'next':
                seq = self.iter_of(args[0], node)
                if seq:
                    return seq[0]
                if len(args) > 1:
                    return args[1]
                raise Raised('StopIteration')
            if n in ('any', 'all'):
                vals_ = [self.truth(x, node) for x in self.iter_of(args[0], node)]
                return any(vals_) if n == 'any' else all(vals_)
            if n == 'dict':
                return dict(args[0]) if args else {}
            if n == 'sum':
                total: Any = args[1] if len(args) > 1 else 0
                for x in self.iter_of(args[0], node):
                    total = add(total, x)
                return total
            if n == 'itertools.accumulate':
                if len(args) != 1 or set(kwargs) - {'initial'}:
                    raise self.err(node, 'itertools.accumulate with a function')
                acc: list = []
                run: Any = kwargs.get('initial')
                if run is not None:
                    acc.append(run)
                for x in self.iter_of(args[0], node):
                    run = x if run is None else add(run, x)
                    acc.append(run)
                return acc
            if n == 'itertools.chain':
                return [x for a_ in args for x in self.iter_of(a_, node)]
            if n in ('set', 'frozenset'):
                out_: list = []
                for x in (self.iter_of(args[0], node) if args else []):
                    if not any(x is y or (not isinstance(x, Obj) and x == y) for y in out_):
                        out_.append(x)
                return out_
            if n == 'id':
                return id(args[0])
            if n == 'format' and len(args) in (1, 2) and all(isinstance(a_, (str, int)) and not isinstance(a_, bool) for a_ in args):
                try:
                    return format(*args)
                except (TypeError, ValueError) as ex_:
                    raise Raised(f'{type(ex_).__name__}: {ex_}')
            if n in ('getattr', 'hasattr') and len(args) in (2, 3) and isinstance(args[1], str) and isinstance(args[0], Obj):
                # attribute of an abstract object by name: what `obj.name` evaluates to; the default / False when the object has none
                o_, nm_ = args[0], args[1]
                if nm_ in o_.f:
                    return o_.f[nm_] if n == 'getattr' else True
                m_ = self.method(o_.cls, nm_)
                if m_ is not None:
                    if n == 'hasattr':
                        return True
                    return self.call_function(m_, [o_], {}) if m_.kind == 'getter' else Bound(o_, m_)
                if n == 'hasattr':
                    return False
                if len(args) == 3:
                    return args[2]
                raise Raised(f'AttributeError: {o_!r} has no attribute {nm_}')
            if n == 'sorted':
                items_ = self.iter_of(args[0], node)
                if 'key' in kwargs and kwargs['key'] is not None:
                    kf = kwargs['key']
                    return sorted(items_, key=lambda x: self.call_value(kf, [x], {}, node), reverse=bool(kwargs.get('reverse', False)))
                return sorted(items_, **{k: v for k, v in kwargs.items() if k == 'reverse'})
            if n == 'isinstance':
                v, c = args
                if isinstance(c, ClassRef):
                    return isinstance(v, Obj) and v.cls == c.name
                if isinstance(c, Builtin) and c.name in ('list', 'str', 'int', 'tuple', 'dict'):
                    return isinstance(v, {'list': list, 'str': str, 'int': int, 'tuple': tuple, 'dict': dict}[c.name]) and not (
                        c.name == 'int' and isinstance(v, bool))
                raise self.err(node, 'isinstance')
            if n in ('max', 'min'):
                vals = list(args[0]) if len(args) == 1 and isinstance(args[0], (list, tuple)) else list(args)
                best = vals[0]
                for v in vals[1:]:
                    s_ = self.sign_of(add(v, best, -1), node)        # v - best
                    if (s_ > 0) == (n == 'max') and s_ != 0:
                        best = v
                return best
            if n == 'bool':
                return self.truth(args[0], node)
            if n == 'abs':
                return args[0] if self.sign_of(args[0], node) >= 0 else mul(args[0], -1)
            if n == 'copy.copy':
                v = args[0]
                if isinstance(v, Obj):
                    return Obj(v.cls, dict(v.f), v.label)
                raise self.err(node, 'copy.copy')
            if n == 'copy.deepcopy':
                def deep(v: Any, depth: int = 0) -> Any:
                    if isinstance(v, Obj):
                        return Obj(v.cls, {k: (deep(x, depth + 1) if isinstance(x, (list, tuple, dict)) else x) for k, x in v.f.items()}, f'copy of {v.label}')
                    if isinstance(v, list):
                        return [deep(x, depth + 1) for x in v]
                    if isinstance(v, tuple):
                        return tuple(deep(x, depth + 1) for x in v)
                    if isinstance(v, dict):
                        return {k: deep(x, depth + 1) for k, x in v.items()}
                    if v is None or isinstance(v, (bool, int, str, StrSym, Lin)):
                        return v
                    raise self.err(node, f'copy.deepcopy of {v!r}')
                return deep(args[0])
            if n == 'list.append':
                kwargs['self'].append(args[0])
                return None
        raise self.err(node, f'call of {f!r}')

    # -- statements --------------------------------------------------------------------
    def block(self, body: list[ast.stmt], env: dict) -> None:
        for st in body:
            self.stmt(st, env)

    def stmt(self, st: ast.stmt, env: dict) -> None:
        if isinstance(st, ast.Import) and all(al.name in ('re', 'unicodedata') for al in st.names):
            for al in st.names:
                env[al.asname or al.name] = _Mod(al.name)          # a function-level import of a pure standard-library module
            return
        self.steps += 1
        if self.steps > self.MAX_STEPS:
            raise AnalysisError('POS-SEM: step budget exhausted')
        if isinstance(st, ast.Expr):
            if not isinstance(st.value, ast.Constant):
                self.expr(st.value, env)
        elif isinstance(st, ast.Match):
            subject = self.expr(st.subject, env)
            for case in st.cases:
                binds: dict = {}
                if self.match_pattern(case.pattern, subject, binds, env):
                    en = env
                    en.update(binds)
                    if case.guard is not None and not self.truth(self.expr(case.guard, en), case.guard):
                        continue
                    self.block(case.body, en)
                    break
        elif isinstance(st, ast.Assign):
            v = self.expr(st.value, env)
            for t in st.targets:
                self.assign(t, v, env)
        elif isinstance(st, ast.AnnAssign):
            if st.value is not None:
                self.assign(st.target, self.expr(st.value, env), env)
        elif isinstance(st, ast.AugAssign):
            cur = self.expr(st.target, env)
            rhs = self.expr(st.value, env)
            if isinstance(cur, Obj):
                dunder = {ast.Add: '__iadd__', ast.Sub: '__isub__'}.get(type(st.op))
                m = self.method(cur.cls, dunder) if dunder else None
                if m is None:
                    raise self.err(st, 'augmented assignment on an object')
                res = self.call_function(m, [cur, rhs], {})
                if res == 'NotImplemented':
                    raise self.err(st, 'NotImplemented from an in-place operator')
                self.assign(st.target, res, env)
            else:
                self.assign(st.target, self.binop(st.op, cur, rhs, st), env)
        elif isinstance(st, ast.If):
            self.block(st.body if self.truth(self.expr(st.test, env), st.test) else st.orelse, env)
        elif isinstance(st, ast.Try):
            try:
                try:
                    self.block(st.body, env)
                except Raised as ex:
                    name = str(ex).split(':', 1)[0].split('(', 1)[0].strip()
                    for h in st.handlers:
                        names = [] if h.type is None else [norm(x).rsplit('.', 1)[-1] for x in (h.type.elts if isinstance(h.type, ast.Tuple) else [h.type])]
                        if h.type is None or name in names or 'Exception' in names or 'BaseException' in names \
                                or (name in ('IndexError', 'KeyError') and 'LookupError' in names):
                            if h.name:
                                env[h.name] = ex
                            self.block(h.body, env)
                            break
                    else:
                        raise
                else:
                    self.block(st.orelse, env)
            finally:
                self.block(st.finalbody, env)
        elif isinstance(st, ast.Raise):
            if st.exc is None:
                raise Raised('re-raised')
            raise Raised(norm(st.exc.func) + ': ' + norm(st.exc)[:60] if isinstance(st.exc, ast.Call) else norm(st.exc))
        elif isinstance(st, ast.While):
            n = 0
            while self.truth(self.expr(st.test, env), st.test):
                n += 1
                if n > 64:
                    raise self.err(st, 'while loop (more than 64 iterations)')
                try:
                    self.block(st.body, env)
                except _Break:
                    return
                except _Continue:
                    continue
            self.block(st.orelse, env)
        elif isinstance(st, ast.For):
            src_ = self.expr(st.iter, env)
            if type(src_) is list:
                # a for loop over a list reads it live: elements appended by the body are visited too
                i_ = 0
                while i_ < len(src_):
                    x = src_[i_]
                    i_ += 1
                    if i_ > 4096:
                        raise self.err(st, 'for loop over a list that keeps growing')
                    self.assign(st.target, x, env)
                    try:
                        self.block(st.body, env)
                    except _Break:
                        return
                    except _Continue:
                        continue
                self.block(st.orelse, env)
                return
            it = self.iter_of(src_, st)
            for x in list(it):
                if isinstance(src_, _It) and src_:
                    src_.pop(0)                     # a for loop over an iterator consumes what it visits
                self.assign(st.target, x, env)
                try:
                    self.block(st.body, env)
                except _Break:
                    return
                except _Continue:
                    continue
            self.block(st.orelse, env)
        elif isinstance(st, ast.Return):
            raise _Return(self.expr(st.value, env) if st.value is not None else None)
        elif isinstance(st, ast.Raise):
            raise Raised(norm(st)[:80])
        elif isinstance(st, ast.Break):
            raise _Break()
        elif isinstance(st, ast.Continue):
            raise _Continue()
        elif isinstance(st, ast.Assert):
            if isinstance(st.test, ast.Constant) and not st.test.value:
                raise Raised('AssertionError')
        elif isinstance(st, ast.Pass):
            pass
        elif isinstance(st, ast.FunctionDef) and not st.decorator_list and not any(isinstance(x, (ast.Yield, ast.YieldFrom)) for x in ast.walk(st)):
            env[st.name] = _LocalFn(st, env)          # a helper defined inside the function: a closure over the enclosing names
        elif isinstance(st, ast.Delete):
            for t in st.targets:
                if isinstance(t, ast.Name) and t.id in env:
                    del env[t.id]                  # `del text`: the local name is gone
                    continue
                if not isinstance(t, ast.Subscript):
                    raise self.err(t, 'del target')
                base = self.expr(t.value, env)
                if not isinstance(base, list):
                    raise self.err(t, 'del target')
                if isinstance(t.slice, ast.Slice):
                    lo, hi = self.expr(t.slice.lower, env), self.expr(t.slice.upper, env)
                    if not all(x is None or isinstance(x, int) for x in (lo, hi)):
                        raise self.err(t, 'del slice')
                    del base[lo:hi]
                else:
                    del base[self.expr(t.slice, env)]
        else:
            raise self.err(st, 'statement')

    def iter_of(self, v: Any, node: ast.AST) -> list:
        if isinstance(v, (list, tuple, range)) or type(v).__name__ == 'callable_iterator':
            return list(v)
        if isinstance(v, dict):
            return list(v)
        if isinstance(v, (set, frozenset)):
            return sorted(v, key=repr)          # a concrete set: some order (python's own is unspecified too)
        raise self.err(node, f'iteration over {v!r}')

    def comprehension(self, e: Any, env: dict) -> list:
        """list of environments after running the generators of a comprehension"""
        envs = [dict(env)]
        for g in e.generators:
            nxt = []
            for en in envs:
                for x in self.iter_of(self.expr(g.iter, en), g.iter):
                    e2 = dict(en)
                    self.assign(g.target, x, e2)
                    if all(self.truth(self.expr(c, e2), c) for c in g.ifs):
                        nxt.append(e2)
            envs = nxt
        return envs

    # -- structural pattern matching ---------------------------------------------------------
    def instance_of(self, v: Any, cls_expr: ast.AST, env: dict) -> bool:
        """isinstance(v, <class named by cls_expr>) for abstract objects and plain Python values; clients with richer class models override"""
        name = norm(cls_expr)
        plain = {'str': str, 'int': int, 'bool': bool, 'float': float, 'list': list, 'tuple': tuple, 'dict': dict}
        if name in plain:
            return isinstance(v, plain[name]) and not (name == 'int' and isinstance(v, bool))
        if isinstance(v, Obj):
            return v.cls == name.rsplit('.', 1)[-1]
        return type(v).__name__ == name.rsplit('.', 1)[-1]

    def match_pattern(self, pat: ast.AST, v: Any, binds: dict, env: dict) -> bool:
        if isinstance(pat, ast.MatchAs):
            if pat.pattern is not None and not self.match_pattern(pat.pattern, v, binds, env):
                return False
            if pat.name is not None:
                binds[pat.name] = v
            return True
        if isinstance(pat, ast.MatchOr):
            return any(self.match_pattern(q, v, binds, env) for q in pat.patterns)
        if isinstance(pat, ast.MatchSingleton):
            return v is pat.value
        if isinstance(pat, ast.MatchValue):
            return self.compare(ast.Eq(), v, self.expr(pat.value, env), pat)
        if isinstance(pat, ast.MatchClass):
            if pat.patterns or pat.kwd_patterns:
                raise self.err(pat, 'class pattern with sub-patterns')
            return self.instance_of(v, pat.cls, env)
        if isinstance(pat, ast.MatchSequence):
            if not isinstance(v, (tuple, list)) or len(v) != len(pat.patterns) or any(isinstance(q, ast.MatchStar) for q in pat.patterns):
                return False
            return all(self.match_pattern(q, x, binds, env) for q, x in zip(pat.patterns, v))
        raise self.err(pat, 'match pattern')

    def assign(self, t: ast.AST, v: Any, env: dict) -> None:
        if isinstance(t, ast.Name):
            env[t.id] = v
        elif isinstance(t, (ast.Tuple, ast.List)):
            stars = [i for i, sub in enumerate(t.elts) if isinstance(sub, ast.Starred)]
            if len(stars) == 1 and isinstance(v, (tuple, list)):
                # a, *rest, z = seq : the starred target takes what the others leave, as a list
                k = stars[0]
                after = len(t.elts) - k - 1
                if len(v) < len(t.elts) - 1:
                    raise Raised(f'ValueError: not enough values to unpack (expected at least {len(t.elts) - 1}, got {len(v)})')
                vals = list(v)
                for sub, x in zip(t.elts[:k], vals[:k]):
                    self.assign(sub, x, env)
                self.assign(t.elts[k].value, vals[k:len(vals) - after], env)
                for sub, x in zip(t.elts[k + 1:], vals[len(vals) - after:]):
                    self.assign(sub, x, env)
                return
            if isinstance(v, (tuple, list)) and not stars and len(v) != len(t.elts):
                raise Raised(f'ValueError: {"too many" if len(v) > len(t.elts) else "not enough"} values to unpack (expected {len(t.elts)}, got {len(v)})')
            if not isinstance(v, (tuple, list)) or len(v) != len(t.elts):
                raise self.err(t, 'unpacking')
            for sub, x in zip(t.elts, v):
                self.assign(sub, x, env)
        elif isinstance(t, ast.Attribute):
            base = self.expr(t.value, env)
            if not isinstance(base, Obj):
                raise self.err(t, f'attribute write on {base!r}')
            base.f[t.attr] = v
        elif isinstance(t, ast.Subscript):
            base = self.expr(t.value, env)
            if isinstance(base, list) and not isinstance(t.slice, ast.Slice):
                i = self.expr(t.slice, env)
                if isinstance(i, slice):
                    try:
                        base[i] = list(v)
                    except ValueError as ex:
                        raise Raised(f'ValueError: {ex}')
                    return
                if not isinstance(i, int):
                    raise self.err(t, 'symbolic list index')
                if not -len(base) <= i < len(base):
                    raise Raised('IndexError: list assignment index out of range')
                base[i] = v
                return
            if isinstance(base, list) and isinstance(t.slice, ast.Slice) and t.slice.step is None:
                lo, hi = self.expr(t.slice.lower, env), self.expr(t.slice.upper, env)
                if not all(x is None or isinstance(x, int) for x in (lo, hi)) or not isinstance(v, (list, tuple)):
                    raise self.err(t, 'slice assignment')
                base[lo:hi] = list(v)
                return
            if isinstance(base, dict) and not isinstance(t.slice, ast.Slice):
                base[self.expr(t.slice, env)] = v
                return
            raise self.err(t, 'subscript assignment')
        else:
            raise self.err(t, 'assignment target')

    # -- expressions ---------------------------------------------------------------------
    def truth(self, v: Any, node: ast.AST) -> bool:
        if isinstance(v, bool):
            return v
        if isinstance(v, StrSym):
            return True               # an abstract text stands for a non-empty one (its length is a positive symbol)
        if v is None:
            return False
        if isinstance(v, (int, Lin)):
            return self.sign_of(v, node) != 0
        if isinstance(v, (list, tuple, str, range, dict, set, frozenset)):
            return bool(v)
        if type(v).__name__ in ('Match', 'Pattern'):
            return True               # a match object (no match is None)
        if isinstance(v, Obj):
            return True
        raise self.err(node, f'truth value of {v!r}')

    def binop(self, op: ast.operator, a: Any, b: Any, node: ast.AST) -> Any:
        import fractions
        if isinstance(a, fractions.Fraction) or isinstance(b, fractions.Fraction):
            # exact rational stand-ins for decimal values
            if not all(isinstance(x, (int, fractions.Fraction)) and not isinstance(x, bool) for x in (a, b)):
                raise self.err(node, 'arithmetic between a number and something else')
            try:
                if isinstance(op, ast.Add):
                    return a + b
                if isinstance(op, ast.Sub):
                    return a - b
                if isinstance(op, ast.Mult):
                    return a * b
                if isinstance(op, ast.Div):
                    return fractions.Fraction(a) / b
            except ZeroDivisionError:
                raise Raised('ZeroDivisionError')
            raise self.err(node, 'operator on numbers')
        if isinstance(op, ast.Add):
            if isinstance(a, Obj):
                m = self.method(a.cls, '__add__')
                if m is None:
                    raise self.err(node, '+ on an object')
                return self.call_function(m, [a, b], {})
            if isinstance(a, list) and isinstance(b, list):
                return a + b
            if (isinstance(a, str) and isinstance(b, str)) or (isinstance(a, tuple) and isinstance(b, tuple)):
                return a + b                  # concrete texts / tuples
            if (isinstance(a, list) and isinstance(b, tuple)) or (isinstance(a, tuple) and isinstance(b, list)):
                raise Raised(f'TypeError: can only concatenate {type(a).__name__} (not "{type(b).__name__}") to {type(a).__name__}')
            return add(a, b)
        if isinstance(op, ast.Sub):
            return add(a, b, -1)
        if isinstance(op, ast.Mult):
            if (isinstance(a, (str, list, tuple)) and isinstance(b, int) and not isinstance(b, bool)) or \
                    (isinstance(b, (str, list, tuple)) and isinstance(a, int) and not isinstance(a, bool)):
                return a * b                  # repetition of a concrete text / sequence
            return mul(a, b)
        if isinstance(op, ast.FloorDiv) and isinstance(a, int) and isinstance(b, int):
            return a // b
        if isinstance(op, ast.RShift) and isinstance(a, int) and isinstance(b, int):
            return a >> b
        raise self.err(node, 'operator')

    def same(self, x: Any, y: Any) -> bool:
        """what `x == y` answers inside list.index / remove / count, `in` and `==`: identity first, then equality; two mock objects are equal
        only if they are the same object unless a client gives its mocks a notion of equal content (models compare by content)"""
        return x is y or (not isinstance(x, Obj) and x == y)

    def compare(self, op: ast.cmpop, a: Any, b: Any, node: ast.AST) -> bool:
        if isinstance(op, ast.Is):
            return a is b
        if isinstance(op, ast.IsNot):
            return a is not b
        if isinstance(a, (int, Lin)) and isinstance(b, (int, Lin)) and not isinstance(a, bool) and not isinstance(b, bool):
            d = add(b, a, -1)          # b - a
            if isinstance(op, (ast.Eq, ast.NotEq)):
                s = sign(d)
                if s is None:
                    # two different linear forms over independent positive symbols: generically unequal
                    s = self.sign_of(d, node)
                return (s == 0) if isinstance(op, ast.Eq) else (s != 0)
            s = self.sign_of(d, node)
            return {ast.Lt: s > 0, ast.LtE: s >= 0, ast.Gt: s < 0, ast.GtE: s <= 0}[type(op)]
        if isinstance(op, (ast.Eq, ast.NotEq)):
            eq = self.same(a, b) if isinstance(a, Obj) and isinstance(b, Obj) else a == b
            return eq if isinstance(op, ast.Eq) else not eq
        if isinstance(op, (ast.In, ast.NotIn)):
            if isinstance(a, Obj) and not isinstance(b, (dict, str)):
                found = any(self.same(x_, a) for x_ in self.iter_of(b, node))
                return found if isinstance(op, ast.In) else not found
            found = a in (b if isinstance(b, (dict, str)) else self.iter_of(b, node))
            return found if isinstance(op, ast.In) else not found
        raise self.err(node, f'comparison of {a!r} and {b!r}')

    def expr(self, e: Optional[ast.AST], env: dict) -> Any:
        if e is None:
            return None
        if isinstance(e, ast.Constant):
            return e.value
        if isinstance(e, ast.JoinedStr):
            # an f-string over concrete texts / integers
            out_ = ''
            for part in e.values:
                if isinstance(part, ast.Constant):
                    out_ += str(part.value)
                    continue
                v_ = self.expr(part.value, env)
                if not isinstance(v_, (str, int)) or isinstance(v_, bool):
                    raise self.err(e, 'f-string over an abstract value')
                spec_ = ''
                if part.format_spec is not None:
                    spec_ = self.expr(part.format_spec, env)
                if part.conversion == ord('r'):
                    v_ = repr(v_)
                elif part.conversion == ord('s'):
                    v_ = str(v_)
                out_ += format(v_, spec_)
            return out_
        if isinstance(e, ast.Name):
            if e.id in env:
                return env[e.id]
            if e.id in ('Position', '_StoreHandle', '_StoreBlock', 'TokenStore'):
                return ClassRef(e.id)
            if e.id in ('len', 'range', 'slice', 'map', 'filter', 'enumerate', 'list', 'isinstance', 'max', 'min', 'bool', 'abs', 'next', 'reversed', 'tuple', 'str', 'int', 'dict', 'iter', 'any', 'all', 'sorted', 'zip', 'sum', 'set', 'frozenset', 'id', 'repr', 'getattr', 'hasattr', 'format'):
                return Builtin(e.id)
            if e.id == 'NotImplemented':
                return 'NotImplemented'
            fn = self.funcs.get(e.id)
            if fn is not None:
                return fn
            for st in self.mod.tree.body:
                tg_ = st.target if isinstance(st, ast.AnnAssign) else st.targets[0] if isinstance(st, ast.Assign) and len(st.targets) == 1 else None
                if isinstance(tg_, ast.Name) and tg_.id == e.id and isinstance(getattr(st, 'value', None), ast.Call) and norm(st.value.func) == 'object' \
                        and not st.value.args:
                    # a module-level sentinel (`_MISSING = object()`): one object per module, equal only to itself
                    gl_ = _SENTINELS.setdefault((self.mod.name, e.id), Obj('Sentinel', {}, e.id))
                    return gl_
                if isinstance(st, ast.AnnAssign) and isinstance(st.target, ast.Name) and st.target.id == e.id and st.value is not None \
                        and (isinstance(st.value, (ast.Dict, ast.List, ast.Set)) or (isinstance(st.value, ast.Call) and norm(st.value.func) in ('dict', 'list', 'set'))):
                    # a mutable module-level table (`TOKEN_MODELS: dict[..] = {}`): one object per module for the lifetime of this interpreter
                    gl_ = self.__dict__.setdefault('_module_globals', {})
                    key_ = (self.mod.name, e.id)
                    if key_ not in gl_:
                        gl_[key_] = self.expr(st.value, {})
                    return gl_[key_]
                if isinstance(st, ast.Assign) and len(st.targets) == 1 and isinstance(st.targets[0], ast.Name) and st.targets[0].id == e.id:
                    v_ = st.value
                    re_names = {(al.asname or al.name) for im in self.mod.tree.body if isinstance(im, ast.Import) for al in im.names if al.name == 're'}
                    if isinstance(v_, ast.Call) and isinstance(v_.func, ast.Attribute) and v_.func.attr == 'compile' and isinstance(v_.func.value, ast.Name) \
                            and v_.func.value.id in re_names and v_.args and isinstance(v_.args[0], ast.Constant) \
                            and isinstance(v_.args[0].value, str):
                        import re as _re
                        fl_ = 0
                        for a_ in v_.args[1:] + [k.value for k in v_.keywords]:
                            for part in norm(a_).split('|'):
                                fl_ |= getattr(_re, part.strip().rsplit('.', 1)[-1], 0)
                        return _re.compile(v_.args[0].value, fl_)
                    return self.expr(st.value, {})          # module constant (_LOAD_FACTOR and friends)
            sym_ = getattr(self.mod, 'symbols', {}).get(e.id)
            if type(sym_).__name__ == 'FuncInfo' and sym_.kind != 'overload':
                return sym_                                          # a function imported from another module of the repository
            if sym_ is None or type(sym_).__name__ not in ('ClassInfo', 'FuncInfo'):
                try:
                    r_ = self.p.resolve_expr(self.mod, e)          # a name imported from another module of the repository
                except Exception:
                    r_ = None
                if type(r_).__name__ == 'FuncInfo' and r_.kind != 'overload':
                    return r_
            if type(sym_).__name__ == 'ClassInfo':
                return ClassRef(e.id)                       # a class of the repository, named in an isinstance test or a constructor call
            raise self.err(e, 'name')
        if isinstance(e, ast.Attribute):
            if isinstance(e.value, ast.Name) and e.value.id == 'unicodedata' and e.value.id not in env and e.attr in ('normalize', 'is_normalized', 'category', 'name', 'east_asian_width', 'combining') \
                    and any(isinstance(im, ast.Import) and any(al.name == 'unicodedata' and al.asname is None for al in im.names) for im in self.mod.tree.body):
                import unicodedata as _ud
                fn_ = getattr(_ud, e.attr)
                return _PyFn(lambda *a_, _f=fn_: _f(*a_) if all(isinstance(x_, str) for x_ in a_) else (_ for _ in ()).throw(AnalysisError('unicodedata over an abstract value')))
            if isinstance(e.value, ast.Name) and e.value.id not in env and e.attr in _RE_FUNCS \
                    and any(isinstance(im, ast.Import) and any(al.name == 're' and (al.asname or al.name) == e.value.id for al in im.names) for im in self.mod.tree.body):
                import re as _re3
                return getattr(_re3, e.attr)
            if isinstance(e.value, ast.Name) and e.value.id in ('copy', 'itertools', 'functools', 'operator') and norm(e) in ('copy.copy', 'copy.deepcopy', 'itertools.accumulate', 'itertools.chain', 'itertools.count', 'itertools.groupby', 'functools.reduce',
                           'operator.attrgetter', 'operator.itemgetter', 'operator.imul', 'operator.mul', 'operator.itruediv', 'operator.truediv',
                           'operator.neg', 'operator.pos',
                           'operator.iadd', 'operator.add', 'operator.isub', 'operator.sub'):
                return Builtin(norm(e))
            base = self.expr(e.value, env)
            if isinstance(base, _Mod):
                import importlib
                mod_ = importlib.import_module(base.name)
                if (base.name == 're' and e.attr in _RE_FUNCS) or (base.name == 'unicodedata' and e.attr in ('normalize', 'is_normalized', 'category', 'combining')):
                    fn_ = getattr(mod_, e.attr)
                    return fn_ if base.name == 're' else _PyFn(fn_)
                raise self.err(e, f'attribute of module {base.name}')
            if isinstance(base, Obj):
                if e.attr in base.f:
                    return base.f[e.attr]
                m = self.method(base.cls, e.attr)
                if m is not None:
                    if getattr(m, 'kind', None) == 'getter':
                        return self.call_function(m, [base], {})          # a property of the object's class: read it
                    return Bound(base, m)
                k_ = self.class_constant(base.cls, e.attr)
                if k_ is not None:
                    return self.expr(k_, {})          # a class-level constant (RULE, DEFAULT ...) of the repository class the object stands for
                raise self.err(e, f'attribute {e.attr} of {base.cls}')
            if isinstance(base, ClassRef):
                m = self.method(base.name, e.attr)
                if m is not None:
                    return Bound(base, m) if m.kind == 'classmethod' else m
                k_ = self.class_constant(base.name, e.attr)
                if k_ is not None:
                    return self.expr(k_, {})
            if isinstance(base, (range, slice)) and e.attr in ('start', 'stop', 'step'):
                return getattr(base, e.attr)
            if isinstance(base, slice) and e.attr == 'indices':
                def _indices(n_: Any, _s: slice = base) -> tuple:
                    if not isinstance(n_, int) or isinstance(n_, bool):
                        raise AnalysisError(f'{self.tag}: unsupported slice.indices over an abstract length')
                    try:
                        return _s.indices(n_)
                    except (TypeError, ValueError) as ex_:
                        raise Raised(f'{type(ex_).__name__}: {ex_}')
                return _PyFn(_indices)
            if isinstance(base, range) and e.attr in ('index', 'count'):
                return _PyFn(lambda v_, _r=base, _a=e.attr: getattr(_r, _a)(v_))
            if type(base).__name__ == 'Pattern' and e.attr in ('findall', 'finditer', 'fullmatch', 'match', 'search', 'split', 'sub', 'pattern', 'flags'):
                return getattr(base, e.attr)          # a compiled pattern constant applied to a concrete text (stdlib re: trusted)
            if type(base).__name__ == 'Match' and e.attr in ('group', 'groups', 'start', 'end', 'span', 'groupdict', 'lastindex'):
                return getattr(base, e.attr)
            if type(base).__name__ == 'Decimal' and e.attr in ('as_tuple', 'normalize', 'copy_abs', 'copy_negate', 'is_zero', 'is_signed', 'adjusted',
                                                                  'quantize', 'to_integral_value', 'is_finite', 'is_nan', 'is_normal', 'is_subnormal', 'is_infinite', 'is_qnan',
                                                                  'is_snan', 'is_canonical', 'copy_sign', 'compare', 'compare_total', 'same_quantum', 'to_integral',
                                                                  'to_integral_exact', 'scaleb', 'number_class', 'canonical', 'sqrt', 'max', 'min'):
                return getattr(base, e.attr)          # a method of a concrete decimal: pure
            if type(base).__name__ == 'Fraction' and e.attr in ('copy_negate', 'copy_abs', 'is_zero', 'is_signed', 'is_finite', 'is_nan', 'normalize'):
                # a rational stand-in for a decimal value: the exact (non-rounding) methods of Decimal
                return _PyFn({'copy_negate': lambda: -base, 'copy_abs': lambda: abs(base), 'is_zero': lambda: base == 0, 'is_signed': lambda: base < 0,
                              'is_finite': lambda: True, 'is_nan': lambda: False, 'normalize': lambda: base}[e.attr])
            if type(base).__name__ == 'DecimalTuple' and e.attr in ('sign', 'digits', 'exponent'):
                return getattr(base, e.attr)
            if isinstance(base, str) and not e.attr.startswith('_') and hasattr(str, e.attr):
                return getattr(base, e.attr)          # a method of a concrete text: every one of them is pure
            if isinstance(base, list) and e.attr in ('append', 'extend', 'pop', 'reverse', 'insert', 'clear', 'copy', 'index', 'count', 'remove', 'discard', 'add'):
                return _ListAppend(base, e.attr)
            if isinstance(base, dict) and e.attr in ('get', 'items', 'keys', 'values', 'pop', 'setdefault', 'update', 'clear', 'copy'):
                return _DictMethod(base, e.attr)
            if base is None:
                # what python does: the scenario reaches an attribute of None (a walk that ran off the end of the store, an absent child)
                raise Raised(f"AttributeError: 'NoneType' object has no attribute '{e.attr}' (`{norm(e)[:60]}`, line {getattr(e, 'lineno', '?')})")
            raise self.err(e, 'attribute')
        if isinstance(e, ast.Subscript):
            base = self.expr(e.value, env)
            if isinstance(e.slice, ast.Slice):
                lo = self.expr(e.slice.lower, env)
                hi = self.expr(e.slice.upper, env)
                st = self.expr(e.slice.step, env)
                if not all(x is None or isinstance(x, int) for x in (lo, hi, st)) or not isinstance(base, (list, tuple, str)):
                    raise self.err(e, 'slice')
                return base[slice(lo, hi, st)]
            i = self.expr(e.slice, env)
            if isinstance(base, (list, tuple, range)) and isinstance(i, int) and not isinstance(i, bool):
                if not -len(base) <= i < len(base):
                    raise Raised(f'IndexError: {norm(e)} with index {i} on a sequence of {len(base)}')
                return base[i]
            if isinstance(base, (list, tuple, range)) and isinstance(i, slice):
                return base[i]
            if isinstance(base, dict):
                try:
                    if i not in base:
                        raise Raised(f'KeyError: {norm(e)}')
                except TypeError:
                    raise self.err(e, 'unhashable dict key')
                return base[i]
            raise self.err(e, 'subscript')
        if isinstance(e, ast.BinOp):
            return self.binop(e.op, self.expr(e.left, env), self.expr(e.right, env), e)
        if isinstance(e, ast.UnaryOp):
            v = self.expr(e.operand, env)
            if isinstance(e.op, ast.Not):
                return not self.truth(v, e.operand)
            if isinstance(e.op, ast.USub):
                import fractions
                if isinstance(v, fractions.Fraction):
                    return -v
                return mul(v, -1)
            if isinstance(e.op, ast.UAdd):
                return v
            raise self.err(e, 'unary operator')
        if isinstance(e, ast.BoolOp):
            v: Any = None
            for sub in e.values:
                v = self.expr(sub, env)
                t = self.truth(v, sub)
                if isinstance(e.op, ast.And) and not t:
                    return v
                if isinstance(e.op, ast.Or) and t:
                    return v
            return v
        if isinstance(e, ast.Compare):
            left = self.expr(e.left, env)
            for op, c in zip(e.ops, e.comparators):
                right = self.expr(c, env)
                if not self.compare(op, left, right, e):
                    return False
                left = right
            return True
        if isinstance(e, ast.Lambda):
            return _Lambda(e, env)
        if isinstance(e, ast.IfExp):
            return self.expr(e.body if self.truth(self.expr(e.test, env), e.test) else e.orelse, env)
        if isinstance(e, ast.Yield):
            self._yields[-1].append(self.expr(e.value, env) if e.value is not None else None)
            return None
        if isinstance(e, ast.YieldFrom):
            self._yields[-1].extend(self.iter_of(self.expr(e.value, env), e))
            return None
        if isinstance(e, ast.Set):
            vals_ = [self.expr(x, env) for x in e.elts]
            if not all(isinstance(v_, (str, int, tuple, frozenset)) or v_ is None for v_ in vals_):
                raise self.err(e, 'set display of abstract values')
            return set(vals_)
        if isinstance(e, (ast.Tuple, ast.List)):
            items: list = []
            for x in e.elts:
                if isinstance(x, ast.Starred):
                    items.extend(self.iter_of(self.expr(x.value, env), x))
                else:
                    items.append(self.expr(x, env))
            return tuple(items) if isinstance(e, ast.Tuple) else items
        if isinstance(e, (ast.ListComp, ast.GeneratorExp)):
            return [self.expr(e.elt, en) for en in self.comprehension(e, env)]
        if isinstance(e, ast.SetComp):
            out_l: list = []
            for en in self.comprehension(e, env):
                v_ = self.expr(e.elt, en)
                if v_ not in out_l:
                    out_l.append(v_)
            return out_l
        if isinstance(e, ast.DictComp):
            d_: dict = {}
            for en in self.comprehension(e, env):
                d_[self.expr(e.key, en)] = self.expr(e.value, en)
            return d_
        if isinstance(e, ast.Dict):
            return {self.expr(k, env): self.expr(v_, env) for k, v_ in zip(e.keys, e.values)}
        if isinstance(e, ast.NamedExpr):
            v_ = self.expr(e.value, env)
            env[e.target.id] = v_
            return v_
        if isinstance(e, ast.Call) and isinstance(e.func, ast.Name) and e.func.id == 'isinstance' and 'isinstance' not in env and len(e.args) == 2 \
                and isinstance(e.args[1], ast.Attribute) and norm(e.args[1]) in ('datetime.datetime', 'datetime.date', 'decimal.Decimal', 'fractions.Fraction'):
            # a standard-library class named by module: decided on the concrete value (a datetime IS a date; abstract objects are neither)
            import datetime as _dt
            import decimal as _dc
            import fractions as _fr
            v_ = self.expr(e.args[0], env)
            k_ = {'datetime.datetime': _dt.datetime, 'datetime.date': _dt.date, 'decimal.Decimal': _dc.Decimal, 'fractions.Fraction': _fr.Fraction}[norm(e.args[1])]
            return isinstance(v_, k_)
        if isinstance(e, ast.Call):
            f = self.expr(e.func, env)
            if any(k.arg is None for k in e.keywords):
                raise self.err(e, 'star arguments')
            args = []
            for a in e.args:
                if isinstance(a, ast.Starred):
                    args.extend(self.iter_of(self.expr(a.value, env), a))
                else:
                    args.append(self.expr(a, env))
            kwargs = {k.arg: self.expr(k.value, env) for k in e.keywords}
            if isinstance(f, _DictMethod):
                if f.how == 'get':
                    return f.d.get(args[0], args[1] if len(args) > 1 else None)
                if f.how == 'items':
                    return [tuple(x) for x in f.d.items()]
                if f.how == 'keys':
                    return list(f.d.keys())
                if f.how == 'values':
                    return list(f.d.values())
                if f.how == 'pop':
                    return f.d.pop(*args)
                if f.how == 'update':
                    for a_ in args:
                        f.d.update(a_ if isinstance(a_, dict) else dict(self.iter_of(a_, e)))
                    f.d.update(kwargs)
                    return None
                if f.how == 'clear':
                    return f.d.clear()
                if f.how == 'copy':
                    return dict(f.d)
                return f.d.setdefault(*args)
            if isinstance(f, _ListAppend):
                if f.how == 'append':
                    f.lst.append(args[0])
                elif f.how == 'pop':
                    return f.lst.pop(*args)
                elif f.how == 'discard':              # a set modelled as a list without duplicates
                    for i_, x_ in enumerate(f.lst):
                        if self.same(x_, args[0]):
                            del f.lst[i_]
                            break
                elif f.how == 'add':
                    if not any(self.same(x_, args[0]) for x_ in f.lst):
                        f.lst.append(args[0])
                elif f.how == 'reverse':
                    f.lst.reverse()
                elif f.how == 'insert':
                    f.lst.insert(args[0], args[1])
                elif f.how == 'clear':
                    f.lst.clear()
                elif f.how == 'copy':
                    return list(f.lst)
                elif f.how == 'index':
                    rng_ = range(*slice(*args[1:3]).indices(len(f.lst))) if len(args) > 1 else range(len(f.lst))
                    for i_ in rng_:
                        if self.same(f.lst[i_], args[0]):
                            return i_
                    raise Raised('ValueError: x is not in list')
                elif f.how == 'count':
                    return sum(1 for x_ in f.lst if self.same(x_, args[0]))
                elif f.how == 'remove':
                    for i_, x_ in enumerate(f.lst):
                        if self.same(x_, args[0]):
                            del f.lst[i_]
                            return None
                    raise Raised('ValueError')
                else:
                    f.lst.extend(list(args[0]))
                return None
            if isinstance(f, Bound) and isinstance(f.recv, ClassRef):
                if f.fn.kind == 'staticmethod':
                    return self.call_function(f.fn, args, kwargs)
                return self.call_function(f.fn, [f.recv] + args, kwargs)
            return self.call_value(f, args, kwargs, e)
        raise self.err(e, 'expression')


class _LocalFn:
    def __init__(self, node: ast.FunctionDef, env: dict) -> None:
        self.node, self.env = node, env


class _Lambda:
    def __init__(self, node: ast.Lambda, env: dict) -> None:
        self.node, self.env = node, env


class _Mod:
    """a pure standard-library module imported inside a function"""
    def __init__(self, name: str) -> None:
        self.name = name


class _PyFn:
    """a pure helper of the interpreter itself (methods of the rational stand-ins for decimals)"""
    def __init__(self, fn: Any) -> None:
        self.fn = fn


class _It(list):
    """an iterator (the result of a generator function or of iter()): next() consumes it, a for loop consumes what it visits"""
    __slots__ = ()


class _Counter:
    """itertools.count()"""
    def __init__(self, start: int = 0) -> None:
        self.n = start


class _DictMethod:
    def __init__(self, d: dict, how: str) -> None:
        self.d, self.how = d, how


class _ListAppend:
    def __init__(self, lst: list, how: str = 'append') -> None:
        self.lst = lst
        self.how = how


# ----------------------------------------------------------------------------- scenarios
def fold(sizes: list[tuple[Any, Any]]) -> tuple[Any, Any, int]:
    """reference semantics: (lines, column, index of last newline token) of a run of token sizes"""
    line: Any = 0
    col: Any = 0
    lni = -1
    for i, (l, c) in enumerate(sizes):
        line = add(line, l)
        if sign(l):
            col = c
            lni = i
        else:
            col = add(col, c)
    return line, col, lni


def tok_size(tag: str, nl: bool) -> tuple[Any, Any]:
    return (sym(f'L{tag}') if nl else 0, sym(f'C{tag}'))


def mk_pos(l: Any, c: Any) -> Obj:
    return Obj('Position', {'line': l, 'column': c})


def mk_token(tag: str, nl: bool) -> Obj:
    l, c = tok_size(tag, nl)
    text = StrSym(tag, nl)
    return Obj('Token', {'size': mk_pos(l, c), 'store_handle': None, 'raw_text': text, '_raw_text': text}, label=tag)


def new_store(ts: TS, length: Any = 0) -> Obj:
    """An abstract TokenStore: whatever fields __init__ sets (interpreted), then no blocks and the given length."""
    store = Obj('TokenStore', {}, 'store')
    init = ts.funcs.get('TokenStore.__init__')
    if init is not None:
        try:
            PosInterp(ts, []).call_function(init, [store], {})
        except Raised as ex:
            raise AnalysisError(f'TokenStore.__init__ raises on the abstract store: {ex}')
    store.f['_blocks'] = []
    store.f['_len'] = length
    return store


def mk_block(store: Obj, index: int, pattern: str, tag: str, consistent: bool = True) -> Obj:
    toks = [mk_token(f'{tag}{i}', ch == 'N') for i, ch in enumerate(pattern)]
    b = Obj('_StoreBlock', {'store': store, 'index': index, 'tokens': toks}, label=f'block{index}')
    if consistent:
        l, c, lni = fold([(t.f['size'].f['line'], t.f['size'].f['column']) for t in toks])
        b.f['size'] = mk_pos(l, c)
        b.f['last_newline_index'] = lni
        for i, t in enumerate(toks):
            t.f['store_handle'] = Obj('_StoreHandle', {'block': b, 'index': i})
    else:
        b.f['size'] = mk_pos(sym('STALE_L'), sym('STALE_C'))
        b.f['last_newline_index'] = 7
    return b


def sizes_of(block: Obj) -> list[tuple[Any, Any]]:
    return [(t.f['size'].f['line'], t.f['size'].f['column']) for t in block.f['tokens']]


def judge_block(block: Obj, sizes: list[tuple[Any, Any]], handles: bool) -> Optional[str]:
    l, c, lni = fold(sizes)
    got = block.f['size']
    if not isinstance(got, Obj) or got.cls != 'Position':
        return f'block.size is {got!r}'
    if got.f['line'] != l:
        return f'cached line count is {got.f["line"]!r}, the tokens add up to {l!r}'
    if got.f['column'] != c:
        return f'cached last-line width is {got.f["column"]!r}, the tokens give {c!r}'
    if block.f['last_newline_index'] != lni:
        return f'last_newline_index is {block.f["last_newline_index"]!r}, the last token with a newline is at {lni}'
    if handles:
        for i, t in enumerate(block.f['tokens']):
            h = t.f['store_handle']
            if not isinstance(h, Obj) or h.f.get('block') is not block or h.f.get('index') != i:
                return f'token {i} does not get the handle (its block, {i})'
    return None


def explore(ts: TS, run: Any) -> tuple[int, Optional[tuple[str, list[str]]]]:
    """run(interp) -> problem or None, over every resolution of the sign forks; returns (paths, first problem)"""
    script: list[int] = []
    paths = 0
    first: Optional[tuple[str, list[str]]] = None
    while True:
        it = PosInterp(ts, script)
        try:
            problem = run(it)
        except Raised as ex:
            problem = f'raises {ex}'
        paths += 1
        if problem and first is None:
            first = (problem, [f'{lab} -> {"yes" if c else "no"}' for c, _, lab in it.taken])
        taken = it.taken
        while taken and taken[-1][0] + 1 >= taken[-1][1]:
            taken = taken[:-1]
        if not taken:
            break
        script = [c for c, _, _ in taken[:-1]] + [taken[-1][0] + 1]
    return paths, first


def rule_pos_sem(ctx: RuleContext, ts: TS, rid: str, max_tokens: int = 4) -> None:
    ctx.rule(rid, 'finite-domain abstract evaluation of Position.__iadd__/__add__, _StoreBlock.from_tokens/rebuild/extend, '
                  'TokenStore.update and TokenStore.get_position over blocks of 0..%d abstract tokens (newline / no newline, '
                  'symbolic line counts and columns): the block caches always equal the fold of its token sizes, rebuilt tokens '
                  'get (block, index) handles, update() keeps the caches equal to the fold with the edited token\'s size '
                  'replaced, get_position() is the fold over all earlier tokens' % max_tokens)
    for q in ('Position.__iadd__', '_StoreBlock.rebuild', '_StoreBlock.from_tokens', 'TokenStore.update', 'TokenStore.get_position'):
        ts._need(q)
    where = {q: f'{ts.m.relpath}:{ts.funcs[q].node.lineno}' for q in ts.funcs}
    results: dict[str, tuple[int, int, Optional[tuple[str, list[str]]]]] = {}

    def record(fn: str, scen: str, paths: int, problem: Optional[tuple[str, list[str]]]) -> None:
        n, p, first = results.get(fn, (0, 0, None))
        if problem and first is None:
            first = (f'{problem[0]} [scenario: {scen}]', [f'scenario: {scen}', *problem[1]])
        results[fn] = (n + 1, p + paths, first)

    patterns = [''.join(p) for k in range(0, max_tokens + 1) for p in itertools.product('NP', repeat=k)]   # N newline, P plain

    # --- Position algebra
    for a_nl, b_nl in itertools.product((False, True), repeat=2):
        def run_iadd(it: PosInterp, a_nl: bool = a_nl, b_nl: bool = b_nl) -> Optional[str]:
            a, b = mk_pos(*tok_size('a', a_nl)), mk_pos(*tok_size('b', b_nl))
            env = {'a': a, 'b': b}
            it.stmt(ast.parse('a += b').body[0], env)
            l, c, _ = fold([tok_size('a', a_nl), tok_size('b', b_nl)])
            r = env['a']
            if not isinstance(r, Obj) or r.f['line'] != l or r.f['column'] != c:
                return f'a += b gives ({r.f["line"]!r}, {r.f["column"]!r}), expected ({l!r}, {c!r})'
            if b.f['line'] != tok_size('b', b_nl)[0] or b.f['column'] != tok_size('b', b_nl)[1]:
                return 'a += b modifies b'
            return None
        paths, pr = explore(ts, run_iadd)
        record('Position.__iadd__', f'a {"with" if a_nl else "without"} newline += b {"with" if b_nl else "without"} newline', paths, pr)
        if 'Position.__add__' in ts.funcs:
            def run_add(it: PosInterp, a_nl: bool = a_nl, b_nl: bool = b_nl) -> Optional[str]:
                a, b = mk_pos(*tok_size('a', a_nl)), mk_pos(*tok_size('b', b_nl))
                r = it.expr(ast.parse('a + b', mode='eval').body, {'a': a, 'b': b})
                l, c, _ = fold([tok_size('a', a_nl), tok_size('b', b_nl)])
                if not isinstance(r, Obj) or r.f['line'] != l or r.f['column'] != c:
                    return f'a + b gives ({r.f["line"]!r}, {r.f["column"]!r}), expected ({l!r}, {c!r})'
                if r is a or a.f['line'] != tok_size('a', a_nl)[0] or a.f['column'] != tok_size('a', a_nl)[1]:
                    return 'a + b modifies a'
                return None
            paths, pr = explore(ts, run_add)
            record('Position.__add__', f'a {"with" if a_nl else "without"} newline + b {"with" if b_nl else "without"} newline', paths, pr)

    # --- rebuild / from_tokens / extend
    for pat in patterns:
        def run_rebuild(it: PosInterp, pat: str = pat) -> Optional[str]:
            store = Obj('TokenStore', {}, 'store')
            b = mk_block(store, 0, pat, 't', consistent=False)
            it.call_function(ts.funcs['_StoreBlock.rebuild'], [b], {})
            return judge_block(b, sizes_of(b), True)
        paths, pr = explore(ts, run_rebuild)
        record('_StoreBlock.rebuild', f'tokens {pat or "(none)"}', paths, pr)

        def run_from(it: PosInterp, pat: str = pat) -> Optional[str]:
            store = Obj('TokenStore', {}, 'store')
            toks = [mk_token(f't{i}', ch == 'N') for i, ch in enumerate(pat)]
            b = it.call_function(ts.funcs['_StoreBlock.from_tokens'], [ClassRef('_StoreBlock'), toks, store, 3], {})
            if not isinstance(b, Obj) or b.cls != '_StoreBlock':
                return f'from_tokens returns {b!r}'
            if b.f.get('store') is not store or b.f.get('index') != 3:
                return 'from_tokens does not record the store / index it is given'
            if [id(t) for t in b.f['tokens']] != [id(t) for t in toks]:
                return 'from_tokens does not keep exactly the tokens it is given, in order'
            return judge_block(b, sizes_of(b), True)
        paths, pr = explore(ts, run_from)
        record('_StoreBlock.from_tokens', f'tokens {pat or "(none)"}', paths, pr)

        if '_StoreBlock.extend' in ts.funcs and len(pat) <= max_tokens - 1:
            for extra in ('', 'N', 'P', 'PN', 'NP'):
                def run_extend(it: PosInterp, pat: str = pat, extra: str = extra) -> Optional[str]:
                    store = Obj('TokenStore', {}, 'store')
                    b = mk_block(store, 0, pat, 't')
                    new = [mk_token(f'x{i}', ch == 'N') for i, ch in enumerate(extra)]
                    before = list(b.f['tokens'])
                    it.call_function(ts.funcs['_StoreBlock.extend'], [b, new], {})
                    if [id(t) for t in b.f['tokens']] != [id(t) for t in before + new]:
                        return 'extend does not append exactly the given tokens'
                    return judge_block(b, sizes_of(b), True)
                paths, pr = explore(ts, run_extend)
                record('_StoreBlock.extend', f'tokens {pat or "(none)"} + {extra or "(none)"}', paths, pr)

    # --- update
    for pat in patterns:
        for idx in range(len(pat)):
            for new_nl in (False, True, 'same'):
                if new_nl == 'same' and pat[idx] != 'N':
                    continue          # 'same': the new text has exactly as many newlines as the old one (> 0)
                def run_update(it: PosInterp, pat: str = pat, idx: int = idx, new_nl: Any = new_nl) -> Optional[str]:
                    store = new_store(ts, len(pat))
                    b = mk_block(store, 0, pat, 't')
                    store.f['_blocks'].append(b)
                    tok = b.f['tokens'][idx]
                    nl, nc = tok_size('new', bool(new_nl))
                    if new_nl == 'same':
                        nl = tok.f['size'].f['line']
                    it.call_function(ts.funcs['TokenStore.update'], [store, tok, StrSym('new', bool(new_nl)), mk_pos(nl, nc)], {})
                    sizes = sizes_of(b)
                    if sizes[idx] != tok_size(f't{idx}', pat[idx] == 'N'):
                        return 'update() itself overwrites the token size (the caller does that afterwards)'
                    sizes[idx] = (nl, nc)
                    return judge_block(b, sizes, False)
                paths, pr = explore(ts, run_update)
                record('TokenStore.update', f'block {pat}, token {idx} gets text {"with as many newlines as before" if new_nl == "same" else "with a newline" if new_nl else "without a newline"}', paths, pr)

    # --- _splice inside one block of a one-block store (in-place branch and rebuild branch; several blocks: TS-SEQ)
    if 'TokenStore._splice' in ts.funcs:
        for pat in [x for x in patterns if len(x) <= max_tokens]:
            for sj in range(len(pat) + 1):
                for ej in range(sj, len(pat) + 1):
                    for ins in ('', 'P', 'N', 'PN'):
                        def run_splice(it: PosInterp, pat: str = pat, sj: int = sj, ej: int = ej, ins: str = ins) -> Optional[str]:
                            store = new_store(ts, len(pat))
                            b = mk_block(store, 0, pat, 't')
                            store.f['_blocks'].append(b)
                            old = list(b.f['tokens'])
                            new = [mk_token(f'x{i}', ch == 'N') for i, ch in enumerate(ins)]
                            it.call_function(ts.funcs['TokenStore._splice'], [store, new, (0, sj), (0, ej)], {})
                            want = old[:sj] + new + old[ej:]
                            if len(store.f['_blocks']) != 1:
                                return f'the store now has {len(store.f["_blocks"])} blocks'
                            blk = store.f['_blocks'][0]
                            if [id(t) for t in blk.f['tokens']] != [id(t) for t in want]:
                                return 'the block does not hold before[:start] + inserted + before[end:]'
                            if store.f['_len'] != len(want):
                                return f'_len is {store.f["_len"]!r}, the store holds {len(want)} tokens'
                            if blk.f['index'] != 0 or blk.f['store'] is not store:
                                return 'block index / store back-pointer wrong'
                            for t in old[sj:ej]:
                                if t.f['store_handle'] is not None:
                                    return 'a removed token keeps its handle'
                            return judge_block(blk, sizes_of(blk), True)
                        paths, pr = explore(ts, run_splice)
                        record('TokenStore._splice', f'block {pat or "(empty)"}, replace [{sj}:{ej}] by {ins or "(nothing)"}', paths, pr)

    # --- get_position
    small = [''.join(p) for k in range(0, 3) for p in itertools.product('NP', repeat=k)]
    for pats in itertools.product(small, ['N', 'P', 'NP', 'PN', 'PP', 'PNP']):
        blocks_pat = [p for p in pats]
        for extra_first in (False, True):
            layout = (['PN'] if extra_first else []) + blocks_pat
            for j in range(len(layout[-1])):
                def run_pos(it: PosInterp, layout: list[str] = layout, j: int = j) -> Optional[str]:
                    store = new_store(ts, sum(len(x) for x in layout))
                    for bi, pat in enumerate(layout):
                        store.f['_blocks'].append(mk_block(store, bi, pat, f'b{bi}_'))
                    blk = store.f['_blocks'][-1]
                    tok = blk.f['tokens'][j]
                    r = it.call_function(ts.funcs['TokenStore.get_position'], [store, tok], {})
                    before: list[tuple[Any, Any]] = []
                    for b in store.f['_blocks'][:-1]:
                        before += sizes_of(b)
                    before += sizes_of(blk)[:j]
                    l, c, _ = fold(before)
                    if not isinstance(r, Obj) or r.cls != 'Position':
                        return f'get_position returns {r!r}'
                    if r.f['line'] != l or r.f['column'] != c:
                        return f'get_position gives ({r.f["line"]!r}, {r.f["column"]!r}), the text before the token ends at ({l!r}, {c!r})'
                    for b in store.f['_blocks']:
                        pr2 = judge_block(b, sizes_of(b), True)
                        if pr2:
                            return f'get_position disturbs the store: {pr2}'
                    return None
                paths, pr = explore(ts, run_pos)
                record('TokenStore.get_position', f'blocks {"|".join(x or "-" for x in layout)}, token {j} of the last block', paths, pr)

    minimum = {'Position.__iadd__': 4, '_StoreBlock.rebuild': 31, '_StoreBlock.from_tokens': 31, 'TokenStore.update': 90,
               'TokenStore.get_position': 50, 'TokenStore._splice': 400}
    for fn, need in minimum.items():
        if results.get(fn, (0, 0, None))[0] < need:
            raise AnalysisError(f'POS-SEM: only {results.get(fn, (0, 0, None))[0]} scenarios evaluated for {fn} (>= {need} expected)')
    for fn, (n, paths, first) in results.items():
        if first:
            ctx.fail(rid, f'token_store:{fn}', 'caches', first[0], where.get(fn, ''), first[1])
        else:
            ctx.ok(rid, f'token_store:{fn}', f'{n} scenarios, {paths} paths')


# ====================================================================== NAV-SEM / BUILD-SEM (C07)
def _histories(mk: Any, call: Any, note: Any, positions: bool) -> int:
    """query everything, really perform one mutation (_splice interpreted, not intercepted), query everything again: whatever a query
    remembers about the layout must not survive the mutation.  positions=True asks get_position instead of the index family."""
    hist = 0
    for layout in (('P', 'PNP', ['PN', 'P'], ['N', 'PP', 'NP']) if positions else ([1], [3], [2, 1], [1, 2, 2])):
        total = sum(len(x) if isinstance(x, str) else x for x in layout) if isinstance(layout, list) else len(layout)
        layout = layout if isinstance(layout, list) else [layout]
        for op in ('insert_after', 'insert_before', 'remove', 'replace', 'splice') + (('update',) if positions else ()):
            for i in range(total):
                for j, as_tuple in [(j_, t_) for j_ in ([i] if op in ('insert_after', 'insert_before', 'replace') else range(i, total))
                                    for t_ in ((False, True) if op in ('insert_after', 'insert_before', 'splice') and not positions else (False,))]:
                    # the new tokens are a Sequence: a tuple is as good as a list
                    lay = f'blocks of {layout} tokens' + (' (new tokens given as a tuple)' if as_tuple else '')
                    store, flat, coord = mk(layout)

                    def query(flat_now: list[Obj], when: str) -> None:
                        if positions:
                            sizes = [(t.f['size'].f['line'], t.f['size'].f['column']) for t in flat_now]
                            for k, t in enumerate(flat_now):
                                r, ex, _ = call('get_position', store, t)
                                l, c, _ = fold(sizes[:k])
                                if ex or not isinstance(r, Obj) or r.f.get('line') != l or r.f.get('column') != c:
                                    got = (r.f.get('line'), r.f.get('column')) if isinstance(r, Obj) else r
                                    note('get_position', f'{lay}: {when}: get_position(token at {k}) gives {got!r} / {ex}, the text before '
                                                         f'it ends at ({l!r}, {c!r})')
                            return
                        r, ex, _ = call('__len__', store)
                        if ex or r != len(flat_now):
                            note('__len__', f'{lay}: {when}: len() gives {r!r} / {ex}, the store holds {len(flat_now)} tokens')
                        for k, t in enumerate(flat_now):
                            r, ex, _ = call('get_index', store, t)
                            if ex or r != k:
                                note('get_index', f'{lay}: {when}: get_index(token at {k}) gives {r!r} / {ex}')
                            r, ex, _ = call('get_next', store, t)
                            if ex or r is not (flat_now[k + 1] if k + 1 < len(flat_now) else None):
                                note('get_next', f'{lay}: {when}: get_next(token at {k}) is not the token at {k + 1}')
                            r, ex, _ = call('get_prev', store, t)
                            if ex or r is not (flat_now[k - 1] if k > 0 else None):
                                note('get_prev', f'{lay}: {when}: get_prev(token at {k}) is not the token at {k - 1}')
                        r, ex, _ = call('get_first', store)
                        if ex or r is not (flat_now[0] if flat_now else None):
                            note('get_first', f'{lay}: {when}: get_first() is not the first token')
                        r, ex, _ = call('get_last', store)
                        if ex or r is not (flat_now[-1] if flat_now else None):
                            note('get_last', f'{lay}: {when}: get_last() is not the last token')
                        r, ex, _ = call('__iter__', store)
                        if ex or not isinstance(r, list) or [id(x) for x in r] != [id(x) for x in flat_now]:
                            note('__iter__', f'{lay}: {when}: iteration does not yield the tokens in order')

                    query(flat, 'before any change')
                    new2 = [mk_token('m0', False), mk_token('m1', positions)]
                    if op == 'update':
                        tok = flat[i]
                        for new_nl in (False, True):
                            nl, nc = tok_size(f'u{int(new_nl)}', new_nl)
                            _, ex, _ = call(op, store, tok, StrSym('new', new_nl), mk_pos(nl, nc), live=True)
                            if ex:
                                note(op, f'{lay}: update of token {i} raises {ex}')
                                break
                            tok.f['size'] = mk_pos(nl, nc)
                            hist += 1
                            query(flat, f'after update of token {i} to a text {"with" if new_nl else "without"} a newline (and queries before it)')
                        continue
                    if op == 'insert_after':
                        _, ex, _ = call(op, store, flat[i], tuple(new2) if as_tuple else new2, live=True)
                        want = flat[:i + 1] + new2 + flat[i + 1:]
                    elif op == 'insert_before':
                        _, ex, _ = call(op, store, flat[i], tuple(new2) if as_tuple else new2, live=True)
                        want = flat[:i] + new2 + flat[i:]
                    elif op == 'remove':
                        _, ex, _ = call(op, store, flat[i], flat[j], live=True)
                        want = flat[:i] + flat[j + 1:]
                    elif op == 'replace':
                        _, ex, _ = call(op, store, flat[i], new2[0], live=True)
                        want = flat[:i] + new2[:1] + flat[i + 1:]
                    else:
                        _, ex, _ = call(op, store, tuple(new2) if as_tuple else new2, flat[i], flat[j], live=True)
                        want = flat[:i] + new2 + flat[j + 1:]
                    if ex:
                        note(op, f'{lay}: {op} of tokens {i}..{j} raises {ex}')
                        continue
                    hist += 1
                    query(want, f'after {op} at tokens {i}..{j} (and queries before it)')
    return hist


def rule_hist_pos(ctx: RuleContext, ts: TS, rid: str) -> None:
    rule_nav_sem(ctx, ts, rid, positions=True)


def rule_nav_sem(ctx: RuleContext, ts: TS, rid: str, positions: bool = False) -> None:
    if positions:
        ctx.rule(rid, 'histories over the abstract store (finite-domain evaluation, blocks of newline / plain tokens with symbolic sizes): ask '
                      'get_position of every token, really perform one insert_after / insert_before / remove / replace / splice / update '
                      '(+ size assignment), ask again: every answer is the fold of the sizes of the tokens now in front -- nothing a query '
                      'remembers survives a mutation')
    else:
        ctx.rule(rid, 'finite-domain abstract evaluation of the navigation and addressing functions of TokenStore over every block layout of a small '
                  'family (empty store, one block, several blocks of 1..3 tokens): get_first / get_last / get_next / get_prev / get_index / '
                  'iter(a, b) / __iter__ / __len__ agree with the flat list of the blocks\' tokens for every token (pair), queries on a token '
                  'without a handle are refused, and splice / insert_after / insert_before / remove / replace hand _splice the (block, index) '
                  'coordinates of exactly the addressed positions; and histories: query everything, really perform one mutation, query '
                  'again -- nothing a query remembers survives a mutation')
    layouts = [] if positions else [[0], [1], [3], [2, 1], [1, 3, 2], [2, 2, 2, 1]]
    n = [0]
    problems: dict[str, str] = {}

    class Interp(PosInterp):
        tag = 'NAV-SEM'

        def __init__(self) -> None:
            super().__init__(ts, [])
            self.spliced: list = []
            self.live = False

        def compare(self, op: Any, a: Any, b: Any, node: Any) -> bool:          # type: ignore[override]
            # token models compare by (RULE, text): in a document whose tokens all read the same, `==` holds between any two of them
            if isinstance(op, (ast.Eq, ast.NotEq)) and isinstance(a, Obj) and isinstance(b, Obj) and a.cls == 'Token' and b.cls == 'Token':
                return isinstance(op, ast.Eq)
            return super().compare(op, a, b, node)

        def call_function(self, fn: FuncInfo, args: list, kwargs: dict) -> Any:        # type: ignore[override]
            if fn.qualname == 'TokenStore._splice' and not self.live:
                self.spliced.append((list(args[1]), args[2], args[3]))
                return None
            return super().call_function(fn, args, kwargs)

    def mk(layout: list[int]) -> tuple[Obj, list[Obj], dict[int, tuple[int, int]]]:
        store = new_store(ts, sum(len(k) if isinstance(k, str) else k for k in layout))
        flat: list[Obj] = []
        coord: dict[int, tuple[int, int]] = {}
        for bi, k in enumerate(layout):
            b = mk_block(store, bi, k if isinstance(k, str) else 'P' * k, f'b{bi}_')
            store.f['_blocks'].append(b)
            for ti, t in enumerate(b.f['tokens']):
                coord[id(t)] = (bi, ti)
                flat.append(t)
        return store, flat, coord

    def call(name: str, store: Obj, *args: Any, live: bool = False) -> tuple[Any, Optional[str], 'Interp']:
        it = Interp()
        it.live = live
        n[0] += 1
        fn = ts.funcs.get(f'TokenStore.{name}')
        if fn is None:
            raise AnalysisError(f'NAV-SEM: TokenStore.{name} vanished')
        try:
            return it.call_function(fn, [store, *args], {}), None, it
        except Raised as ex:
            return None, str(ex), it
        except (IndexError, KeyError) as ex:
            # the interpreted code indexed a list / dict out of range (a store left inconsistent by an earlier step of the history)
            return None, f'{type(ex).__name__} in the interpreted code', it

    def note(fn: str, msg: str) -> None:
        problems.setdefault(fn, msg)

    for layout in layouts:
        lay = f'blocks of {layout} tokens'
        store, flat, coord = mk(layout)
        idx = {id(t): i for i, t in enumerate(flat)}
        r, ex, _ = call('get_first', store)
        if ex or r is not (flat[0] if flat else None):
            note('get_first', f'{lay}: get_first() gives {r!r} / {ex}')
        r, ex, _ = call('get_last', store)
        if ex or r is not (flat[-1] if flat else None):
            note('get_last', f'{lay}: get_last() gives {r!r} / {ex}')
        r, ex, _ = call('__len__', store)
        if ex or r != len(flat):
            note('__len__', f'{lay}: len() gives {r!r} / {ex}')
        r, ex, _ = call('__iter__', store)
        if ex or not isinstance(r, list) or [id(x) for x in r] != [id(x) for x in flat]:
            note('__iter__', f'{lay}: iteration does not yield the tokens of the blocks in order ({ex})')
        for i, t in enumerate(flat):
            r, ex, _ = call('get_next', store, t)
            if ex or r is not (flat[i + 1] if i + 1 < len(flat) else None):
                note('get_next', f'{lay}: get_next(token {i}) gives {r!r} / {ex}, expected token {i + 1 if i + 1 < len(flat) else None}')
            r, ex, _ = call('get_prev', store, t)
            if ex or r is not (flat[i - 1] if i > 0 else None):
                note('get_prev', f'{lay}: get_prev(token {i}) gives {r!r} / {ex}, expected token {i - 1 if i > 0 else None}')
            r, ex, _ = call('get_index', store, t)
            if ex or r != i:
                note('get_index', f'{lay}: get_index(token {i}) gives {r!r} / {ex}')
            for j in range(i, len(flat)):
                r, ex, _ = call('iter', store, t, flat[j])
                if ex or not isinstance(r, list) or [id(x) for x in r] != [id(x) for x in flat[i:j + 1]]:
                    got = [idx.get(id(x)) for x in r] if isinstance(r, list) else r
                    note('iter', f'{lay}: iter(token {i}, token {j}) yields tokens {got} / {ex}, expected {list(range(i, j + 1))}')
        loose = mk_token('loose', False)
        for q in ('get_next', 'get_prev', 'get_index'):
            r, ex, _ = call(q, store, loose)
            if ex is None:
                note(q, f'{lay}: {q}() of a token that is in no store answers {r!r} instead of refusing')
        # addressing of the mutators
        new = [mk_token('n0', False)]
        r, ex, it = call('insert_after', store, None, new)
        if ex or it.spliced != [(new, (0, 0), (0, 0))]:
            note('insert_after', f'{lay}: insert_after(None, ..) addresses {[(s[1], s[2]) for s in it.spliced]} / {ex}, expected (0, 0)..(0, 0)')
        r, ex, it = call('insert_before', store, None, new)
        if ex or it.spliced != [(new, (0, 0), (0, 0))]:
            note('insert_before', f'{lay}: insert_before(None, ..) addresses {[(s[1], s[2]) for s in it.spliced]} / {ex}')
        for j, tj_tok in enumerate(flat):
            bj, tj = coord[id(tj_tok)]
            r, ex, it = call('splice', store, new, None, tj_tok)
            if ex or it.spliced != [(new, (0, 0), (bj, tj + 1))]:
                note('splice', f'{lay}: splice(.., None, token {j}) -- replace everything up to and including token {j} -- addresses '
                               f'{[(s[1], s[2]) for s in it.spliced]} / {ex}, expected (0, 0)..({bj}, {tj + 1})')
        for i, t in enumerate(flat):
            bi, ti = coord[id(t)]
            r, ex, it = call('insert_after', store, t, new)
            if ex or it.spliced != [(new, (bi, ti + 1), (bi, ti + 1))]:
                note('insert_after', f'{lay}: insert_after(token {i}) addresses {[(s[1], s[2]) for s in it.spliced]} / {ex}, expected ({bi}, {ti + 1}) empty range')
            r, ex, it = call('insert_before', store, t, new)
            if ex or it.spliced != [(new, (bi, ti), (bi, ti))]:
                note('insert_before', f'{lay}: insert_before(token {i}) addresses {[(s[1], s[2]) for s in it.spliced]} / {ex}, expected ({bi}, {ti}) empty range')
            r, ex, it = call('replace', store, t, new[0])
            if ex or len(it.spliced) != 1 or it.spliced[0][1:] != ((bi, ti), (bi, ti + 1)) or [id(x) for x in it.spliced[0][0]] != [id(new[0])]:
                note('replace', f'{lay}: replace(token {i}) addresses {[(s[1], s[2]) for s in it.spliced]} / {ex}')
            r, ex, it = call('remove', store, t)
            if ex or len(it.spliced) != 1 or it.spliced[0][1:] != ((bi, ti), (bi, ti + 1)) or it.spliced[0][0] != []:
                note('remove', f'{lay}: remove(token {i}) addresses {[(s[1], s[2]) for s in it.spliced]} / {ex}')
            for j in range(i, len(flat)):
                bj, tj = coord[id(flat[j])]
                r, ex, it = call('splice', store, new, t, flat[j])
                if ex or it.spliced != [(new, (bi, ti), (bj, tj + 1))]:
                    note('splice', f'{lay}: splice(.., token {i}, token {j}) addresses {[(s[1], s[2]) for s in it.spliced]} / {ex}, expected ({bi}, {ti})..({bj}, {tj + 1})')
                r, ex, it = call('remove', store, t, flat[j])
                if ex or len(it.spliced) != 1 or it.spliced[0][1:] != ((bi, ti), (bj, tj + 1)):
                    note('remove', f'{lay}: remove(token {i}, token {j}) addresses {[(s[1], s[2]) for s in it.spliced]} / {ex}')
    hist = _histories(mk, call, note, positions)
    if (n[0] < 300 and not positions) or hist < 60:
        raise AnalysisError(f'{rid}: only {n[0]} calls / {hist} histories evaluated')
    if positions:
        for fn in ('get_position', 'update', 'insert_after', 'insert_before', 'splice', 'remove', 'replace'):
            f = ts.funcs.get(f'TokenStore.{fn}')
            where = f'{ts.m.relpath}:{f.node.lineno}' if f else ''
            ctx.check(fn not in problems, rid, f'token_store:TokenStore.{fn}', 'positions after a mutation', problems.get(fn, ''), where,
                      note=f'{hist} histories')
        return
    for fn in ('get_first', 'get_last', '__len__', '__iter__', 'get_next', 'get_prev', 'get_index', 'iter', 'insert_after', 'insert_before',
               'splice', 'remove', 'replace'):
        f = ts.funcs.get(f'TokenStore.{fn}')
        where = f'{ts.m.relpath}:{f.node.lineno}' if f else ''
        ctx.check(fn not in problems, rid, f'token_store:TokenStore.{fn}', 'agrees with the flat list', problems.get(fn, ''), where,
                  note=f'{len(layouts)} layouts, every token / token pair')


def rule_build_sem(ctx: RuleContext, ts: TS, rid: str) -> None:
    ctx.rule(rid, '_build_blocks, interpreted on token lists of lengths around every threshold it tests (0, 1, LOAD-1 .. 3*LOAD+1, 4.5*LOAD): the '
                  'blocks it returns hold the input tokens exactly once, in order, each block consistent (caches, handles), indexed '
                  'start_index, start_index+1, ..., and attached to the store it was given')
    f = ts._need('_build_blocks')
    it0 = PosInterp(ts, [])
    try:
        load = it0.expr(ast.Name(id='_LOAD_FACTOR', ctx=ast.Load()), {})
    except AnalysisError:
        load = 1000
    if not isinstance(load, int) or not 2 <= load <= 5000:
        raise AnalysisError(f'BUILD-SEM: _LOAD_FACTOR evaluates to {load!r}')
    sizes = sorted({0, 1, 2, load - 1, load, load + 1, load + load // 2 - 1, load + load // 2, load + load // 2 + 1, 2 * load - 1, 2 * load,
                    2 * load + 1, 3 * load + 1})
    problem = ''
    for nlen in sizes:
        store = new_store(ts, 0)
        toks = [mk_token(f't{i}', i % 7 == 3) for i in range(nlen)]
        it = PosInterp(ts, [])
        it.MAX_STEPS = 2_000_000
        try:
            blocks = it.call_function(f, [store, 5, toks], {})
        except Raised as ex:
            problem = problem or f'{nlen} tokens: raises {ex}'
            continue
        if not isinstance(blocks, list) or not all(isinstance(b, Obj) and b.cls == '_StoreBlock' for b in blocks):
            problem = problem or f'{nlen} tokens: returns {blocks!r}'
            continue
        got = [t for b in blocks for t in b.f['tokens']]
        if [id(t) for t in got] != [id(t) for t in toks]:
            problem = problem or f'{nlen} tokens: the blocks hold {len(got)} tokens, not the {nlen} given ones in order'
            continue
        if nlen and not blocks:
            problem = problem or f'{nlen} tokens: no block'
        if any(b.f['tokens'] is toks for b in blocks):
            problem = problem or (f'{nlen} tokens: a block adopts the caller\'s list object as its token list instead of a copy: later edits of the '
                                  f'store change the caller\'s list and the caller\'s edits change the store behind its bookkeeping')
        for k, b in enumerate(blocks):
            if b.f.get('index') != 5 + k or b.f.get('store') is not store:
                problem = problem or f'{nlen} tokens: block {k} has index {b.f.get("index")!r} (expected {5 + k}) or a foreign store'
            pr = judge_block(b, sizes_of(b), True)
            if pr:
                problem = problem or f'{nlen} tokens: block {k}: {pr}'
            if nlen and not b.f['tokens']:
                problem = problem or f'{nlen} tokens: block {k} is empty'
    ctx.check(not problem, rid, 'token_store:_build_blocks', 'partition', f'_build_blocks: {problem}', f.where,
              note=f'lengths {sizes}')


def rule_from_tokens_sem(ctx: RuleContext, ts: TS, rid: str) -> None:
    ctx.rule(rid, 'TokenStore.from_tokens, interpreted on token lists of several lengths: the new store holds exactly the given tokens in order, '
                  'in consistent blocks with consecutive indexes, _len equals their number, no block keeps the caller\'s list object, and a '
                  'token that already has a handle is refused')
    f = ts._need('TokenStore.from_tokens')
    it0 = PosInterp(ts, [])
    load = it0.expr(ast.Name(id='_LOAD_FACTOR', ctx=ast.Load()), {})
    if not isinstance(load, int):
        raise AnalysisError('FROM-SEM: _LOAD_FACTOR is not an integer constant')
    problem = ''
    for nlen in sorted({0, 1, 3, load - 1, load, load + 1, 2 * load + 1}):
        toks = [mk_token(f't{i}', i % 5 == 2) for i in range(nlen)]
        it = PosInterp(ts, [])
        it.MAX_STEPS = 2_000_000
        try:
            store = it.call_function(f, [ClassRef('TokenStore'), toks], {})
        except Raised as ex:
            problem = problem or f'{nlen} tokens: raises {ex}'
            continue
        if not isinstance(store, Obj) or not isinstance(store.f.get('_blocks'), list):
            problem = problem or f'{nlen} tokens: returns {store!r}'
            continue
        blocks = store.f['_blocks']
        got = [t for b in blocks for t in b.f['tokens']]
        if [id(t) for t in got] != [id(t) for t in toks]:
            problem = problem or f'{nlen} tokens: the store holds {len(got)} tokens, not the {nlen} given ones in order'
        if store.f.get('_len') != nlen:
            problem = problem or f'{nlen} tokens: _len is {store.f.get("_len")!r}'
        if any(b.f['tokens'] is toks for b in blocks):
            problem = problem or (f'{nlen} tokens: a block adopts the caller\'s list object as its token list: edits of the store write through into '
                                  f'the caller\'s list, and the caller re-using that list changes the store behind its bookkeeping')
        for k, b in enumerate(blocks):
            if b.f.get('index') != k or b.f.get('store') is not store:
                problem = problem or f'{nlen} tokens: block {k} has index {b.f.get("index")!r} or a foreign store'
            pr = judge_block(b, sizes_of(b), True)
            if pr:
                problem = problem or f'{nlen} tokens: block {k}: {pr}'
    # refusal of attached tokens
    attached = [mk_token('a0', False), mk_token('a1', False)]
    attached[1].f['store_handle'] = Obj('_StoreHandle', {'block': None, 'index': 0})
    it = PosInterp(ts, [])
    try:
        it.call_function(f, [ClassRef('TokenStore'), attached], {})
        problem = problem or 'a token that already has a store handle is accepted'
    except Raised:
        pass
    ctx.check(not problem, rid, 'token_store:TokenStore.from_tokens', 'fresh consistent store', f'TokenStore.from_tokens: {problem}', f.where,
              note='lengths around the load factor; attached token refused')


# ====================================================================== NAV-LAYOUT (added after seeded round 6)
def _compositions(n: int, max_part: int = 4) -> list[list[int]]:
    if n == 0:
        return [[0]]
    out: list[list[int]] = []

    def rec(rest: int, cur: list[int]) -> None:
        if rest == 0:
            out.append(list(cur))
            return
        for k in range(1, min(rest, max_part) + 1):
            cur.append(k)
            rec(rest - k, cur)
            cur.pop()
    rec(n, [])
    return out


def layout_store(ts: TS, layout: list[int]) -> tuple[Obj, list[Obj]]:
    """a consistent abstract store whose blocks hold `layout` plain tokens each; returns (store, flat token list)"""
    store = new_store(ts, sum(layout))
    flat: list[Obj] = []
    for bi, k in enumerate(layout):
        b = mk_block(store, bi, 'P' * k, f'b{bi}_')
        store.f['_blocks'].append(b)
        flat.extend(b.f['tokens'])
    return store, flat


def _flat_of(store: Obj) -> list[Obj]:
    return [t for b in store.f['_blocks'] for t in b.f['tokens']]


def store_query(ts: TS, name: str, layout: list[int], args: list, interp_cls: Any = None) -> tuple[Any, bool]:
    """interpret TokenStore.<name> on a fresh store with the given block layout.  `args`: ('tok', flat index) | None | plain values.
    Returns (answer with tokens written as ('tok', flat index), whether the flat sequence of the store changed)."""
    fn = ts.funcs.get(f'TokenStore.{name}')
    if fn is None:
        raise AnalysisError(f'TokenStore.{name} does not exist')
    store, flat = layout_store(ts, layout)
    before = [id(t) for t in flat]
    pos = {id(t): i for i, t in enumerate(flat)}

    def enc(v: Any, depth: int = 0) -> Any:
        if isinstance(v, Obj):
            if id(v) in pos:
                return ('tok', pos[id(v)])
            return ('obj', v.cls)
        if isinstance(v, (list, tuple)) and depth < 3:
            return [enc(x, depth + 1) for x in v]
        if v is None or isinstance(v, (bool, int, str)):
            return v
        return ('value', type(v).__name__)

    real = [flat[a[1]] if isinstance(a, tuple) and a and a[0] == 'tok' else a for a in args]
    it = (interp_cls or PosInterp)(ts, [])
    try:
        res = enc(it.call_function(fn, [store, *real], {}))
    except Raised as ex:
        res = ('raises', str(ex).split(':')[0].split('(')[0])
    except (IndexError, KeyError) as ex:
        res = ('raises', type(ex).__name__)
    changed = [id(t) for t in _flat_of(store)] != before
    return res, changed


_NAV_KNOWN = {'get_first', 'get_last', '__len__', '__iter__', 'get_next', 'get_prev', 'get_index', 'iter', 'insert_after', 'insert_before',
              'splice', 'remove', 'replace', 'update', 'get_position', 'from_tokens', '__init__'}


def _param_domain(ann: str, n: int) -> Optional[list]:
    a = ann.replace(' ', '')
    toks: list = [('tok', i) for i in range(n)]
    if a in ('_T', 'Token', 'base.RawTokenModel'):
        return toks
    if a in ('Optional[_T]', '_T|None', 'None|_T', 'Optional[Token]'):
        return toks + [None]
    if a == 'int':
        return list(range(-n - 1, n + 2))
    if a == 'bool':
        return [False, True]
    return None


def rule_nav_layout(ctx: RuleContext, ts: TS, rid: str, max_len: int = 4) -> None:
    import itertools
    ctx.rule(rid, 'block layout is invisible: every public method of TokenStore that the other navigation rules do not name (a new iterator, a '
                  'new lookup), interpreted for every argument tuple (tokens, None, small integers, by parameter annotation) on every way of '
                  'cutting the same flat sequence of 0..%d tokens into blocks, gives one answer per (sequence, arguments) -- a plain list has no '
                  'blocks, so an answer that depends on where the block boundaries fall is not an answer about the sequence.  Methods that '
                  'change the sequence are left to the mutation rules' % max_len)
    extra = sorted(q.split('.', 1)[1] for q, f in ts.funcs.items() if q.startswith('TokenStore.') and f.cls is ts.store
                   and not q.split('.', 1)[1].startswith('_') and q.split('.', 1)[1] not in _NAV_KNOWN and f.kind in ('method', 'getter'))
    ctx.stats['nav_layout_methods'] = extra
    calls = 0
    for name in extra:
        fn = ts.funcs[f'TokenStore.{name}']
        a = fn.node.args
        plist = [*a.posonlyargs, *a.args][1:]
        site = f'token_store:TokenStore.{name}'
        where = f'{ts.m.relpath}:{fn.node.lineno}'
        if a.vararg or a.kwarg or a.kwonlyargs:
            ctx.not_decided.append(f'NAV-LAYOUT: TokenStore.{name} takes */** arguments; not driven')
            continue
        problem = None
        mutator = False
        undriven = None
        for n in range(0, max_len + 1):
            doms = []
            for q in plist:
                d = _param_domain(norm(q.annotation) if q.annotation is not None else '', n)
                if d is None:
                    undriven = q.arg
                    break
                doms.append(d)
            if undriven:
                break
            for args in itertools.product(*doms):
                answers: dict[str, Any] = {}
                for lay in _compositions(n):
                    res, changed = store_query(ts, name, lay, list(args))
                    calls += 1
                    if changed:
                        mutator = True
                        break
                    answers[str(lay)] = res
                if mutator:
                    break
                kinds = {repr(v) for v in answers.values()}
                if len(kinds) > 1 and problem is None:
                    items = sorted(answers.items(), key=lambda kv: (repr(kv[1]), kv[0]))
                    a0 = items[0]
                    b0 = next(x for x in items if repr(x[1]) != repr(a0[1]))
                    problem = (f'{name}({", ".join(f"token {x[1]}" if isinstance(x, tuple) else repr(x) for x in args)}) on a sequence of {n} tokens answers '
                               f'{a0[1]!r} when the blocks hold {a0[0]} tokens and {b0[1]!r} when they hold {b0[0]}')
            if mutator:
                break
        if undriven:
            ctx.not_decided.append(f'NAV-LAYOUT: parameter {undriven} of TokenStore.{name} has an annotation this rule cannot drive')
            continue
        if mutator:
            ctx.not_decided.append(f'NAV-LAYOUT: TokenStore.{name} changes the sequence; left to the mutation rules')
            continue
        ctx.check(problem is None, rid, site, 'same answer for every block layout',
                  f'TokenStore.{name}: {problem}: the answer depends on where the block boundaries fall, which a plain ordered sequence does not have',
                  where, note='every layout of 0..%d tokens' % max_len)
    # the rule has nothing to say about a store without such methods; a control keeps the machinery honest: get_next is layout-independent
    ctl = {repr(store_query(ts, 'get_next', lay, [('tok', 1)])[0]) for lay in _compositions(3)}
    ctx.check(ctl == {repr(('tok', 2))}, rid, 'token_store:TokenStore.get_next (control)', 'same answer for every block layout',
              f'control: get_next(token 1) of 3 tokens answers {sorted(ctl)} over the layouts', f'{ts.m.relpath}', note='control instance')
