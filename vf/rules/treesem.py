"""TREE-SEM (C01, C05, C15): the tree-building half of ModelBuilder -- build(), _build_tree, _build_required_node, _build_repeated_node,
_build_placeholder, with _build_token / _fix_gap / _build_indent underneath -- interpreted on mock parse results.

A mock parse result is a lark tree (objects with `data` / `children`) over a lexer-token list (objects with `type` / `value`): leaves with
text, absent optional children (None), repeated sections of 0..2 items (tokens or sub-trees, with and without a dropped separator sub-tree
between them), the `indent` place-holder rule (whose token is only in the token list), sub-trees whose name ends with `_` (dropped), nested
trees; between the leaves the token list holds gap tokens (blanks, zero-width marks, line breaks).  The reference is stated here:

 * the model that comes back mirrors the parse tree child by child (None stays None and keeps its position, a dropped sub-tree takes no
   position, a repeated section is one Repeated holding exactly its items in order);
 * what is inserted into the store, once, reads -- place-holders aside -- as the texts of all lexer tokens with text, each once and in order;
 * every leaf of the model *is* one of the inserted token objects (not an equal-looking second object), and the leaves of the model, read
   depth first, occur in the inserted list in that order, the place-holder of a repeated section after everything in front of the section and
   before everything in and behind it;
 * every tree model and every Repeated is given the builder's own store.

The repository code is not run: the builder's methods are interpreted by the checker's interpreter over these mocks."""
from __future__ import annotations

import ast
import itertools
from typing import Any, Optional

from ..model import Program, FuncInfo, AnalysisError, norm
from ..report import RuleContext
from . import possem


class _N:
    """a node of the mock parse result"""
    def __init__(self, kind: str, kids: Optional[list] = None, text: str = '') -> None:
        self.kind, self.kids, self.text = kind, kids or [], text

    def show(self) -> str:
        if self.kind == 'tok':
            return 'T'
        if self.kind == 'none':
            return 'None'
        if self.kind == 'indent':
            return 'indent'
        br = {'tree': '()', 'rep': '[]', 'drop': '<>'}[self.kind]
        return br[0] + ' '.join(k.show() for k in self.kids) + br[1]


def _family(thorough: bool) -> list[_N]:
    T = lambda: _N('tok')
    out: list[_N] = []
    items_pool = [lambda: [], lambda: [T()], lambda: [T(), T()], lambda: [_N('tree', [T(), _N('none')])],
                  lambda: [T(), _N('drop', [T()]), T()], lambda: [_N('tree', [T()]), _N('tree', [_N('none'), T()])],
                  lambda: [_N('drop', [T()]), T()]]
    for mk in items_pool:
        out.append(_N('tree', [T(), _N('rep', mk()), T()]))
        out.append(_N('tree', [_N('rep', mk())]))
        out.append(_N('tree', [_N('none'), _N('rep', mk()), _N('none'), T()]))
        out.append(_N('tree', [T(), _N('rep', mk()), _N('rep', mk()), T()]))
    out += [
        _N('tree', [T()]),
        _N('tree', [T(), _N('none'), T()]),
        _N('tree', [_N('none'), T(), _N('none')]),
        _N('tree', [_N('none'), _N('none'), T(), T()]),
        _N('tree', [T(), _N('drop', [T()]), T()]),
        _N('tree', [_N('drop', [T()]), T(), _N('drop', [T()])]),
        _N('tree', [T(), _N('tree', [T(), _N('none'), T()]), T()]),
        _N('tree', [_N('tree', [_N('tree', [T()]), T()]), _N('none')]),
        _N('tree', [_N('indent'), T(), _N('none'), T()]),
        _N('tree', [T(), _N('rep', [_N('tree', [_N('indent'), T()]), _N('tree', [_N('indent'), T(), T()])])]),
        _N('tree', [T(), _N('drop', [T()]), _N('rep', [_N('tree', [_N('indent'), T()])]), _N('rep', [_N('tree', [_N('indent'), T()])]), _N('drop', [T()])]),
        _N('tree', [T(), _N('tree', [T(), _N('rep', [T(), T()]), _N('none')]), _N('rep', [])]),
    ]
    if thorough:
        for a, b, c in itertools.product(range(4), repeat=3):
            mk = [lambda: T(), lambda: _N('none'), lambda: _N('rep', [T()]), lambda: _N('tree', [T(), _N('none')])]
            out.append(_N('tree', [mk[a](), mk[b](), mk[c]()]))
    return out


def tree_interp(p: Program, registered: Optional[set] = None) -> tuple:
    """the interpreter class for the tree-building half of ModelBuilder over mock lark trees / tokens (shared by TREE-SEM and GRAM-REG); with
    `registered`, TREE_MODELS[name] raises KeyError for a name outside that set, as the real table does"""
    from .c01 import builder_interp
    mb = p.cls('ModelBuilder', 'parser')
    Base, ts, m, _ign = builder_interp(p, mb)
    build = p.method(mb, 'build', inherited=False)
    rep_cls = [c for c in p.class_by_name.get('Repeated', []) if not c.module.name.endswith('_test')]
    rep_init = rep_cls[0].lookup('__init__') if len(rep_cls) == 1 else None
    if not isinstance(rep_init, FuncInfo):
        raise AnalysisError('TREE-SEM: class Repeated / its __init__ not found')
    rep_params = [a.arg for a in rep_init.node.args.args][1:]
    enum_classes = {c.name for c in m.classes if any(norm(b).endswith('Enum') for b in c.node.bases)}

    class Interp(Base):                                            # type: ignore[misc, valid-type]
        tag = 'TREE-SEM'

        def expr(self, e: Any, env: dict) -> Any:                 # type: ignore[override]
            if isinstance(e, ast.Attribute) and isinstance(e.value, ast.Name) and e.value.id not in env:
                if e.value.id in enum_classes:
                    return ('enum', e.value.id, e.attr)
                if e.value.id in ('internal', 'models') and e.attr == 'Repeated':
                    return possem.Obj('RepeatedClass', {}, 'Repeated')
                if e.value.id in ('internal', 'models') and self.token_class(e.attr) is None and e.attr == 'Placeholder':
                    return possem.Obj('PlaceholderClass', {}, 'Placeholder')
            if isinstance(e, ast.Call) and norm(e.func) in ('models.TokenStore.from_tokens', 'TokenStore.from_tokens', 'base.TokenStore.from_tokens'):
                return possem.Obj('Store', {'log': []}, 'another store')
            # a lark.Token IS a str (a subclass carrying type and position): str(token) and the str methods give / work on its text
            if isinstance(e, ast.Call) and isinstance(e.func, ast.Name) and e.func.id == 'str' and 'str' not in env and len(e.args) == 1 and not e.keywords:
                v_ = self.expr(e.args[0], env)
                if isinstance(v_, possem.Obj) and v_.cls == 'LarkToken':
                    return v_.f['value']
            if isinstance(e, ast.Attribute) and not e.attr.startswith('_') and hasattr(str, e.attr) and e.attr not in ('type', 'value') \
                    and not (isinstance(e.value, ast.Name) and e.value.id not in env):
                v_ = self.expr(e.value, env)
                if isinstance(v_, possem.Obj) and v_.cls == 'LarkToken':
                    return getattr(v_.f['value'], e.attr)
            if isinstance(e, ast.Subscript) and norm(e.value) in ('models.TREE_MODELS', 'TREE_MODELS'):
                k_ = self.expr(e.slice, env)
                if registered is not None and k_ not in registered:
                    raise possem.Raised(f'KeyError: {k_!r}')
                return possem.Obj('TreeClass', {'rule': k_}, 'tree model class')
            if isinstance(e, ast.Call) and norm(e.func) == 'isinstance' and len(e.args) == 2:
                t = norm(e.args[1])
                if t in ('lark.Tree', 'Tree', 'lark.Token', 'Token', 'lark.tree.Tree', 'lark.lexer.Token', 'lexer.Token'):
                    v = self.expr(e.args[0], env)
                    return isinstance(v, possem.Obj) and v.cls == ('LarkTree' if t.endswith('Tree') else 'LarkToken')
                if isinstance(e.args[1], ast.Name) and e.args[1].id in env and isinstance(env[e.args[1].id], possem.Obj) and env[e.args[1].id].cls == 'Target':
                    v = self.expr(e.args[0], env)
                    return isinstance(v, possem.Obj) and v.cls == 'BuiltTree'
            if isinstance(e, ast.Call) and isinstance(e.func, ast.Attribute):
                if e.func.attr in ('from_parsed_children', 'from_default', 'insert_after', 'insert_before', 'splice') or norm(e.func).endswith('.Repeated'):
                    try:
                        recv = self.expr(e.func.value, env) if e.func.attr != 'Repeated' else self.expr(e.func, env)
                    except AnalysisError:
                        recv = None
                    if isinstance(recv, possem.Obj) and recv.cls in ('TreeClass', 'RepeatedClass', 'PlaceholderClass', 'Store'):
                        args: list = []
                        for a in e.args:
                            if isinstance(a, ast.Starred):
                                args.extend(self.iter_of(self.expr(a.value, env), e))
                            else:
                                args.append(self.expr(a, env))
                        kw = {k.arg: self.expr(k.value, env) for k in e.keywords if k.arg}
                        if recv.cls == 'TreeClass' and e.func.attr == 'from_parsed_children':
                            return possem.Obj('BuiltTree', {'rule': recv.f['rule'], 'store': args[0] if args else kw.get('token_store'),
                                                            'children': list(args[1:])}, f'model of {recv.f["rule"]}')
                        if recv.cls == 'RepeatedClass':
                            vals = dict(zip(rep_params, args))
                            vals.update(kw)
                            if set(vals) != set(rep_params):
                                raise possem.Raised(f'TypeError: Repeated({sorted(vals)})')
                            return possem.Obj('Repeated', {'store': vals[rep_params[0]], 'items': list(self.iter_of(vals[rep_params[1]], e)),
                                                           'placeholder': vals[rep_params[2]]}, 'Repeated')
                        if recv.cls == 'PlaceholderClass' and e.func.attr == 'from_default':
                            return possem.Obj('Built', {'type': 'PLACEHOLDER', 'raw_text': '', 'claimed': True}, 'placeholder')
                        if recv.cls == 'Store':
                            recv.f['log'].append((e.func.attr, args[0] if args else None, list(self.iter_of(args[-1], e)) if args else None))
                            return None
            return super().expr(e, env)

        def truth(self, v: Any, node: Any) -> bool:               # type: ignore[override]
            if isinstance(v, possem.Obj) and v.cls in ('LarkTree', 'LarkToken', 'Built', 'BuiltTree', 'Repeated'):
                return True
            return super().truth(v, node)

    return Interp, ts, m, _ign, build, mb


def unhandled_tree_names(p: Program, names: list, registered: set) -> dict:
    """for every rule name that can appear as tree.data without being a registered tree model: _build_tree, interpreted on a tree that has a
    sub-tree of that name as its only child, either handles it (a Repeated, an indent, dropped, ...) or fails with the KeyError of the model table"""
    Interp, ts, m, _ign, build, mb = tree_interp(p, registered | {'ROOT'})
    bt = mb.lookup('_build_tree')
    out: dict = {}
    for r in names:
        mark = possem.Obj('LarkToken', {'type': 'EOL', 'value': ''}, 'mark')
        toks = [possem.Obj('LarkToken', {'type': '_NEWLINE', 'value': '\n'}, 'nl'), possem.Obj('LarkToken', {'type': 'INDENT', 'value': '  '}, 'indent'), mark]
        sub = possem.Obj('LarkTree', {'data': r, 'children': [mark]}, r)
        tree = possem.Obj('LarkTree', {'data': 'ROOT', 'children': [sub]}, 'root')
        me = possem.Obj('ModelBuilder', {'_tokens': list(toks), '_built_tokens': [], '_cursor': 0, '_token_store': possem.Obj('Store', {'log': []}, 'store'),
                                         '_token_to_index': {id(t): i for i, t in enumerate(toks)}}, 'builder')
        try:
            Interp(ts, [], module=m).call_function(bt, [me, tree], {})
        except possem.Raised as ex:
            if 'KeyError' in str(ex):
                out[r] = str(ex)
    return out


def rule_tree_sem(ctx: RuleContext, p: Program, rid: str) -> None:
    ctx.rule(rid, 'ModelBuilder.build with _build_tree / _build_required_node / _build_repeated_node / _build_placeholder (and the token half underneath), '
                  'interpreted on mock parse results (trees of leaves, absent optionals, repeated sections of 0..2 items, the indent rule, dropped '
                  'sub-trees, nested trees; gap tokens between the leaves): the model mirrors the parse tree child by child (None keeps its '
                  'position, a dropped sub-tree takes none, one Repeated per section with exactly its items); the single insertion into the store '
                  'reads, place-holders aside, as every lexer token with text once and in order; every leaf of the model is one of the inserted '
                  'objects and the leaves occur there in tree order, the place-holder of a section after what precedes the section and before its '
                  'items; tree models and Repeated get the builder\'s own store')
    Interp, ts, m, _ign, build, mb = tree_interp(p)
    cases = 0
    problem = ''
    ign_type = sorted(_ign)[0] if _ign else 'WHITESPACE'      # a dropped sub-tree holds zero-width marks or tokens of an %ignore'd type
    thorough = getattr(ctx, 'tier', 'quick') == 'thorough'
    gap_modes = [('none', False), ('none', True), ('blank', False), ('blank', True), ('marks', False), ('tail', False), ('tail', True)]
    for root in _family(thorough):
        for gaps, inline in gap_modes:
            # lay the mock out: lexer tokens in document order, lark tree over them
            toks: list = []
            counter = [0]

            def tok(type_: str, text: str) -> Any:
                t = possem.Obj('LarkToken', {'type': type_, 'value': text}, f'{len(toks)}:{type_}')
                toks.append(t)
                return t

            def gap() -> None:
                if gaps == 'blank':
                    tok('WHITESPACE', f' g{len(toks)} ')
                elif gaps == 'marks':
                    tok('EOL', '')
                    tok('_NEWLINE', f'\n{len(toks)}')

            def lay(n: _N) -> Any:
                if n.kind == 'tok':
                    gap()
                    counter[0] += 1
                    n.text = f'T{counter[0]}' + ('_' if counter[0] % 2 else '')      # a tag may end with an underscore (#trip_): the text of a token is not a rule name
                    return tok('ACCOUNT', n.text)
                if n.kind == 'none':
                    return None
                if n.kind == 'indent':
                    tok('_NEWLINE', f'\n{len(toks)}')
                    n.text = f'  i{len(toks)}'
                    tok('INDENT', n.text)
                    return possem.Obj('LarkTree', {'data': 'indent', 'children': [None]}, 'indent')
                if n.kind == 'drop':
                    kids = []
                    for k in n.kids:
                        counter[0] += 1
                        k.text = '' if counter[0] % 2 else f'D{counter[0]}'
                        kids.append(tok('EOL' if not k.text else ign_type, k.text))
                    return possem.Obj('LarkTree', {'data': 'sep_', 'children': kids}, 'dropped')
                kids = [lay(k) for k in n.kids]
                data = 'repeated' if n.kind == 'rep' and not any(k.kind == 'drop' for k in n.kids) else 'repeated_sep' if n.kind == 'rep' else 'rule'
                return possem.Obj('LarkTree', {'data': data, 'children': kids}, data)

            tree = lay(root)
            if gaps == 'tail':
                tok('WHITESPACE', ' tail ')
                tok('EOL', '')
            store = possem.Obj('Store', {'log': []}, 'store')
            me = possem.Obj('ModelBuilder', {'_tokens': list(toks), '_built_tokens': [], '_cursor': 0, '_token_store': store,
                                             '_token_to_index': {id(t): i for i, t in enumerate(toks)}}, 'builder')
            # the type the text is parsed as: a line-oriented model, or an inline one (INLINE = True: amounts, number expressions, cost specs)
            target = possem.Obj('Target', {'INLINE': inline, 'RULE': 'rule'}, 'target type')
            cases += 1
            shown = (f'parse result {root.show()} (T leaf, None absent optional, [..] repeated section, <..> dropped sub-tree, indent), gaps: {gaps}, parsed as '
                     f'{"an inline" if inline else "a line-oriented"} model')
            try:
                res = Interp(ts, [], module=m).call_function(build, [me, tree, target], {})
            except possem.Raised as ex:
                problem = f'{shown}: build() raises {ex}'
                break
            # 1. the single insertion
            log = store.f['log']
            if len(log) != 1 or log[0][0] != 'insert_after' or log[0][1] is not None:
                problem = f'{shown}: the store receives {[(o, "None" if a is None else "anchor") for o, a, _ in log]}; expected one insert_after(None, <all tokens>)'
                break
            ins = log[0][2]
            texts = [b.f.get('raw_text') for b in ins if isinstance(b, possem.Obj) and b.f.get('type') != 'PLACEHOLDER']
            want_texts = [t.f['value'] for t in toks if t.f['value'] != '']
            if len(texts) != len([b for b in ins if not (isinstance(b, possem.Obj) and b.f.get('type') == 'PLACEHOLDER')]) or texts != want_texts:
                problem = (f'{shown}: the inserted tokens read {"".join(str(x) for x in texts)!r}, the lexer tokens {"".join(want_texts)!r}: a token with text is '
                           f'lost, doubled or out of order')
                break
            if len({id(b) for b in ins}) != len(ins):
                problem = f'{shown}: one token object is inserted twice'
                break
            # 2. the model mirrors the tree
            leaves: list = []          # (object, role) in depth-first order

            def mirror(n: _N, v: Any, path: str) -> Optional[str]:
                if n.kind == 'none':
                    return None if v is None else f'{path}: an absent optional child is delivered as {v!r}'
                if n.kind in ('tok', 'indent'):
                    if not (isinstance(v, possem.Obj) and v.cls == 'Built'):
                        return f'{path}: expected the token {n.text!r}, got {v!r}'
                    if v.f.get('raw_text') != n.text or (n.kind == 'indent' and v.f.get('type') != 'INDENT'):
                        return f'{path}: expected the token {n.text!r}, got one that reads {v.f.get("raw_text")!r}'
                    leaves.append((v, 'leaf'))
                    return None
                if n.kind == 'rep':
                    if not (isinstance(v, possem.Obj) and v.cls == 'Repeated'):
                        return f'{path}: expected a Repeated, got {v!r}'
                    if v.f['store'] is not store:
                        return f'{path}: the Repeated is not given the builder\'s store'
                    ph = v.f['placeholder']
                    if not (isinstance(ph, possem.Obj) and ph.f.get('type') == 'PLACEHOLDER'):
                        return f'{path}: the Repeated has no place-holder'
                    leaves.append((ph, 'placeholder'))
                    want = [k for k in n.kids if k.kind != 'drop']
                    if len(v.f['items']) != len(want):
                        return f'{path}: the repeated section has {len(want)} item(s), the Repeated holds {len(v.f["items"])}'
                    for i, (k, it) in enumerate(zip(want, v.f['items'])):
                        r = mirror(k, it, f'{path}[{i}]')
                        if r:
                            return r
                    return None
                if not (isinstance(v, possem.Obj) and v.cls == 'BuiltTree'):
                    return f'{path}: expected a tree model, got {v!r}'
                if v.f['store'] is not store:
                    return f'{path}: the tree model is not given the builder\'s store'
                want = [k for k in n.kids if k.kind != 'drop']
                if len(v.f['children']) != len(want):
                    return (f'{path}: the grammar rule delivers {len(want)} child position(s) (dropped sub-trees aside), from_parsed_children receives '
                            f'{len(v.f["children"])}')
                for i, (k, c) in enumerate(zip(want, v.f['children'])):
                    r = mirror(k, c, f'{path}.{i}')
                    if r:
                        return r
                return None

            r = mirror(root, res, 'model')
            if r:
                problem = f'{shown}: {r}'
                break
            # 3. identity and order of the leaves within the insertion
            pos = {id(b): i for i, b in enumerate(ins)}
            last = -1
            for obj, role in leaves:
                if id(obj) not in pos:
                    problem = f'{shown}: a {role} of the model ({obj.f.get("raw_text")!r}) is not among the inserted token objects'
                    break
                if pos[id(obj)] <= last:
                    problem = (f'{shown}: the {role} {obj.f.get("raw_text")!r} lies at position {pos[id(obj)]} of the inserted tokens, not behind the model '
                               f'token in front of it (position {last}): the tree is not in token order')
                    break
                last = pos[id(obj)]
            if problem:
                break
            # the place-holder of a section directly follows the last token with text in front of the section (gap tokens of the section's
            # first item come after it): decided as "no token of a later leaf in front, no token of an earlier leaf behind" above; in addition no
            # place-holder is inserted that no Repeated owns
            owned = {id(o) for o, role in leaves if role == 'placeholder'}
            stray = [b for b in ins if isinstance(b, possem.Obj) and b.f.get('type') == 'PLACEHOLDER' and id(b) not in owned]
            if stray:
                problem = f'{shown}: {len(stray)} place-holder(s) inserted that no Repeated of the model owns'
                break
        if problem:
            break
    ctx.check(not problem, rid, 'parser:ModelBuilder.build / _build_tree / _build_repeated_node', problem or 'ok',
              f'the tree-building half of ModelBuilder interpreted on mock parse results: {problem}', build.where,
              note=f'{cases} parse results x gap layouts: model mirrors the tree, one insertion that reads as the lexer tokens, leaves are the inserted objects in order')


def rule_reg_sem(ctx: RuleContext, p: Program, rid: str) -> None:
    """the two registration decorators, interpreted: GRAM-REG and the builder rules read `@token_model` / `@tree_model` as "this class is what
    TOKEN_MODELS / TREE_MODELS hold under its RULE"; this rule decides that the decorators do exactly that"""
    from .tokenstore import TS
    ctx.rule(rid, 'the registration decorators token_model / tree_model, interpreted on mock classes: after decorating classes with the rules RA, RB '
                  '(and a class whose rule name differs from its class name) the table of that kind maps each RULE to that very class, the other '
                  'table is untouched, and each decorator returns the class it was given')
    ts = TS(p)
    m = p.module('models.internal.registry')
    n = 0
    for dec, table, other in (('token_model', 'TOKEN_MODELS', 'TREE_MODELS'), ('tree_model', 'TREE_MODELS', 'TOKEN_MODELS')):
        f = p.func('models.internal.registry', dec)
        it = possem.PosInterp(ts, [], module=m)
        classes = [possem.Obj('Cls', {'RULE': r, '__name__': nm}, f'class {nm}') for r, nm in (('RA', 'Ra'), ('RB', 'Other'), ('lower_rule', 'LowerRule'))]
        problem = ''
        try:
            for c in classes:
                r = it.call_function(f, [c], {})
                if r is not c:
                    problem = f'{dec}(cls) returns {r!r}, not the class it decorates: the name of every decorated class is bound to that'
                    break
            t = it.expr(ast.parse(table, mode='eval').body, {})
            o = it.expr(ast.parse(other, mode='eval').body, {})
        except possem.Raised as ex:
            problem = f'{dec} raises {ex}'
        if not problem:
            want = {c.f['RULE']: c for c in classes}
            if not isinstance(t, dict) or set(t) != set(want) or any(t[k] is not want[k] for k in want):
                problem = (f'after {dec} on classes with the rules {sorted(want)} the table {table} has the keys {sorted(map(str, t)) if isinstance(t, dict) else t!r}'
                           f'{"" if not isinstance(t, dict) or set(t) != set(want) else " bound to other classes"}: the parser looks a model up by the name of the grammar rule / terminal')
            elif o:
                problem = f'{dec} also writes {other}'
        n += 1
        ctx.check(not problem, rid, f'models.internal.registry:{dec}', problem or 'ok', f'{dec}: {problem}', f.where, note=f'{table}[cls.RULE] is cls; returns cls')
