"""Sibling-agreement / coverage rules over the tree-model classes with declared fields.

Each function takes a RuleContext and judges one rule over every class of the field
model (fieldmodel.build_tree_classes).  All comparisons are semantic (field sequences
and roles extracted from the AST), never textual.
"""
from __future__ import annotations

import ast
from typing import Optional

from ..fieldmodel import (Field, Operand, TreeClass, expected_chain, parse_edge_chain,
                          single_return_expr, truncate)
from ..model import (AnalysisError, ClassInfo, CustomProp, DescriptorDecl, FuncInfo, Program, dotted, norm,
                     self_attr, stmts_no_doc, walk_no_nested)
from ..report import RuleContext


def _own_method(p: Program, tc: TreeClass, name: str) -> Optional[FuncInfo]:
    sym = tc.cls.attrs.get(name)
    if isinstance(sym, FuncInfo):
        return sym
    if isinstance(sym, CustomProp):
        return sym.fget
    return None


def _need(p: Program, tc: TreeClass, name: str) -> FuncInfo:
    f = _own_method(p, tc, name)
    if f is None:
        raise AnalysisError(f'{tc.cls.qualname} declares fields but has no own {name}()')
    return f


def _field_ref(e: ast.AST) -> Optional[str]:
    """`type(self)._f` / `cls._f` / `ClassName._f` -> '_f'."""
    if isinstance(e, ast.Attribute):
        v = e.value
        if isinstance(v, ast.Call) and isinstance(v.func, ast.Name) and v.func.id == 'type' \
                and len(v.args) == 1 and isinstance(v.args[0], ast.Name) and v.args[0].id == 'self':
            return e.attr
        if isinstance(v, ast.Name) and v.id == 'cls':
            return e.attr
    return None


def _is_none_guarded(e: ast.AST, field: str) -> Optional[ast.AST]:
    """`X if self.f is not None else None` / `self.f and X` -> X."""
    if isinstance(e, ast.IfExp) and isinstance(e.orelse, ast.Constant) and e.orelse.value is None:
        t = e.test
        if isinstance(t, ast.Compare) and len(t.ops) == 1 and isinstance(t.ops[0], ast.IsNot) \
                and self_attr(t.left) == field and isinstance(t.comparators[0], ast.Constant) \
                and t.comparators[0].value is None:
            return e.body
    return None


# ------------------------------------------------------------------ BORDER / PIVOT
def rule_border(ctx: RuleContext, p: Program, tcs: list[TreeClass], rid: str) -> None:
    ctx.rule(rid, 'first_token/last_token of a tree model is the first/last token of its first/last present '
                  'child field (optional fields guarded, scan stops at the first always-present field)')
    for tc in tcs:
        for name, start, step in (('first_token', 0, 1), ('last_token', len(tc.fields) - 1, -1)):
            fn = _need(p, tc, name)
            _judge_chain(ctx, rid, tc, fn, expected_chain(tc, start, step, name), allow_store_edge=False)
    # overrides in subclasses (File: whole-document tokens first)
    for tc in tcs:
        for sub in tc.cls.all_subclasses():
            for name, start, step in (('first_token', 0, 1), ('last_token', len(tc.fields) - 1, -1)):
                sym = sub.attrs.get(name)
                fn = sym.fget if isinstance(sym, CustomProp) else None
                if fn is None:
                    continue
                _judge_chain(ctx, rid, tc, fn, expected_chain(tc, start, step, name), allow_store_edge=True)


def _judge_chain(ctx: RuleContext, rid: str, tc: TreeClass, fn: FuncInfo, expected: list[Operand],
                 allow_store_edge: bool) -> None:
    site = f'{fn.module.name.split(".", 1)[1]}:{fn.qualname}'
    expr = single_return_expr(fn)
    if expr is None:
        raise AnalysisError(f'{site}: not a single return expression; BORDER/PIVOT cannot interpret it')
    if allow_store_edge and isinstance(expr, ast.BoolOp) and isinstance(expr.op, ast.Or):
        first = expr.values[0]
        want = 'get_first' if expected and expected[0].edge == 'first_token' else 'get_last'
        if isinstance(first, ast.Call) and dotted(first.func) in (f'self._token_store.{want}', f'self.token_store.{want}'):
            rest = expr.values[1:]
            expr = rest[0] if len(rest) == 1 else ast.BoolOp(op=ast.Or(), values=rest)
    def resolver(name: str) -> Optional[ast.AST]:
        sym_ = tc.cls.lookup(name)
        g = sym_.fget if isinstance(sym_, CustomProp) else sym_ if isinstance(sym_, FuncInfo) else None
        return single_return_expr(g) if g is not None and g is not fn else None
    chain = parse_edge_chain(expr, resolver)
    if chain is None:
        raise AnalysisError(f'{site}: unrecognised edge expression {norm(expr)!r}')
    got = truncate(chain, tc)
    ok = got == expected
    ctx.check(ok, rid, site, norm(expr),
              f'edge chain is {[(o.field, o.edge, "guarded" if o.guarded else "plain") for o in got]}, '
              f'the ordered field list requires {[(o.field, o.edge, "guarded" if o.guarded else "plain") for o in expected]}',
              fn.where, note=' or '.join(o.field for o in got))


def rule_pivot(ctx: RuleContext, p: Program, tcs: list[TreeClass], rid: str) -> None:
    ctx.rule(rid, 'the pivot of an optional field is the last token of the nearest preceding present field '
                  '(left-floating) / first token of the nearest following present field (right-floating), '
                  'and the node property of that field uses that pivot')
    for tc in tcs:
        for i, f in enumerate(tc.fields):
            if not f.optional:
                continue
            # find the optional_node_property that wraps this field, through the MRO of all subclasses
            decls = [d for c in [tc.cls, *tc.cls.all_subclasses()] for d in c.attrs.values()
                     if isinstance(d, DescriptorDecl) and d.kind.name == 'optional_node_property'
                     and _names_field(d.arg(0, 'inner_field'), f.name)]
            if not decls:
                continue   # non-public optional field (dedent mark): no setter, no pivot needed
            for d in decls:
                pv = d.arg(1, 'pivot_property')
                if not isinstance(pv, ast.Name):
                    raise AnalysisError(f'{tc.cls.qualname}.{d.name}: pivot argument is not a name')
                sym = d.owner.lookup(pv.id)
                if not isinstance(sym, CustomProp) or sym.fget is None:
                    raise AnalysisError(f'{tc.cls.qualname}.{d.name}: pivot {pv.id} is not a property')
                if f.kind == 'optional_left':
                    exp = expected_chain(tc, i - 1, -1, 'last_token')
                else:
                    exp = expected_chain(tc, i + 1, 1, 'first_token')
                if not exp:
                    raise AnalysisError(f'{tc.cls.qualname}.{f.name}: floating field without a neighbour')
                _judge_chain(ctx, rid, tc, sym.fget, exp, allow_store_edge=False)


def _names_field(e: Optional[ast.AST], field: str) -> bool:
    if e is None:
        return False
    if isinstance(e, ast.Name):
        return e.id == field
    if isinstance(e, ast.Attribute):
        return e.attr == field
    return False


# ------------------------------------------------------------------ COVER-INIT
def rule_cover_init(ctx: RuleContext, p: Program, tcs: list[TreeClass], rid: str) -> None:
    ctx.rule(rid, '__init__ stores every declared child field exactly once, each from its own parameter')
    for tc in tcs:
        site = f'{tc.cls.name}.__init__'
        declared = [d.name for c in tc.cls.mro for d in c.attrs.values()
                    if isinstance(d, DescriptorDecl) and d.kind.name in
                    ('required_field', 'optional_left_field', 'optional_right_field', 'repeated_field', 'data_field')]
        stored = [f.name for f in tc.all_fields]
        params = tc.init.params[2:] + [a.arg for a in tc.init.node.args.kwonlyargs]
        used = [f.param for f in tc.all_fields]
        ok = sorted(declared) == sorted(stored) and len(set(stored)) == len(stored) and sorted(params) == sorted(used)
        ctx.check(ok, rid, site, f'declared={sorted(declared)} stored={sorted(stored)}',
                  f'declared fields {sorted(set(declared) - set(stored))} are never stored / parameters '
                  f'{sorted(set(params) - set(used))} unused / duplicates in {stored}', tc.init.where,
                  note=f'{len(stored)} fields')


# ------------------------------------------------------------------ COVER-CLONE
def rule_cover_clone(ctx: RuleContext, p: Program, tcs: list[TreeClass], rid: str) -> None:
    ctx.rule(rid, 'clone() builds a new instance on the *parameter* store and passes every child field '
                  'through .clone(store, transformer), each at its own constructor position')
    for tc in tcs:
        fn = _need(p, tc, 'clone')
        site = f'{tc.cls.name}.clone'
        params = fn.params
        if len(params) < 3:
            raise AnalysisError(f'{site}: expected (self, token_store, token_transformer)')
        S, T = params[1], params[2]
        expr = single_return_expr(fn)
        if not isinstance(expr, ast.Call):
            raise AnalysisError(f'{site}: not a single `return <ctor>(...)`')
        ctor = norm(expr.func)
        if ctor not in ('type(self)', 'self.__class__', tc.cls.name):
            ctx.fail(rid, site, norm(expr.func), f'clone() constructs {ctor}, not its own type', fn.where)
            continue
        problems: list[str] = []
        if not expr.args or not (isinstance(expr.args[0], ast.Name) and expr.args[0].id == S):
            problems.append(f'first constructor argument is {norm(expr.args[0]) if expr.args else None}, '
                            f'not the store parameter {S!r} (the copy would live in the original store)')
        by_param: dict[str, ast.AST] = {}
        ctor_params = tc.init.params[2:]
        for i, a in enumerate(expr.args[1:]):
            if i < len(ctor_params):
                by_param[ctor_params[i]] = a
            else:
                problems.append(f'extra positional argument {norm(a)}')
        for k in expr.keywords:
            if k.arg:
                by_param[k.arg] = k.value
        for f in tc.fields:
            a = by_param.get(f.param)
            if a is None:
                problems.append(f'field {f.name} is not passed to the constructor')
                continue
            why = _is_clone_of(a, f, S, T)
            if why:
                problems.append(f'{f.name}: {why}')
        for f in tc.data:
            a = by_param.get(f.param)
            if a is None or self_attr(a) != f.name:
                problems.append(f'data field {f.name} is not copied (got {norm(a) if a else None})')
        ctx.check(not problems, rid, site, '; '.join(problems) or 'all fields cloned',
                  '; '.join(problems), fn.where, note=f'{len(tc.fields)} child fields')


def _is_clone_of(a: ast.AST, f: Field, S: str, T: str, method: str = 'clone') -> str:
    """'' when `a` is `<field f>.clone(self.f, S, T)` in an accepted idiom, else the reason."""
    inner = _is_none_guarded(a, f.name)
    guarded = inner is not None
    e = inner if inner is not None else a
    if not (isinstance(e, ast.Call) and isinstance(e.func, ast.Attribute) and e.func.attr == method):
        return f'passed as {norm(a)!r}, not through .{method}() (child would be shared)'
    recv = e.func.value
    args = list(e.args)
    fr = _field_ref(recv)
    if fr is not None:
        if fr != f.name:
            return f'uses descriptor {fr} for field {f.name}'
        if not args or self_attr(args[0]) != f.name:
            return f'{method}s {norm(args[0]) if args else None}, not self.{f.name}'
        args = args[1:]
    elif self_attr(recv) == f.name:
        if f.optional and not guarded:
            return f'calls .{method}() on optional field without a None guard'
    else:
        return f'{method}s {norm(recv)}, not field {f.name}'
    names = [x.id if isinstance(x, ast.Name) else norm(x) for x in args]
    if names[:1] != [S]:
        return f'{method} target store is {names[:1]}, not the parameter {S!r}'
    if method == 'clone' and names[1:2] != [T]:
        return f'clone transformer is {names[1:2]}, not the parameter {T!r}'
    if method == 'reattach' and len(names) > 1 and names[1] != T:
        return f'reattach transformer is {names[1]}, not the parameter {T!r}'
    return ''


# ------------------------------------------------------------------ COVER-REATTACH
def rule_cover_reattach(ctx: RuleContext, p: Program, tcs: list[TreeClass], rid: str) -> None:
    ctx.rule(rid, '_reattach() rebinds _token_store to the parameter store and re-binds every child field '
                  'through .reattach(store, transformer)')
    for tc in tcs:
        fn = _need(p, tc, '_reattach')
        site = f'{tc.cls.name}._reattach'
        S, T = fn.params[1], fn.params[2]
        problems: list[str] = []
        store_set = False
        done: set[str] = set()
        for st in stmts_no_doc(fn.node.body):
            if isinstance(st, ast.Assign) and len(st.targets) == 1:
                tgt = self_attr(st.targets[0])
                if tgt == '_token_store':
                    if isinstance(st.value, ast.Name) and st.value.id == S:
                        store_set = True
                    else:
                        problems.append(f'_token_store assigned {norm(st.value)}, not the parameter {S!r}')
                    continue
                f = tc.field(tgt) if tgt else None
                if f is not None and f.kind != 'data':
                    why = _is_clone_of(st.value, f, S, T, method='reattach')
                    if why:
                        problems.append(f'{f.name}: {why}')
                    else:
                        done.add(f.name)
                    continue
            if isinstance(st, ast.Expr) and isinstance(st.value, ast.Call):
                # `self._f.reattach(S, T)` as a statement is fine for tree children (returns self) but
                # loses the transformer image for tokens: only the assignment form is accepted
                problems.append(f'unsupported statement {norm(st)!r}')
                continue
            problems.append(f'unsupported statement {norm(st)!r}')
        if not store_set:
            problems.append('_token_store is not re-bound')
        missing = [f.name for f in tc.fields if f.name not in done]
        if missing:
            problems.append(f'fields not reattached: {missing}')
        ctx.check(not problems, rid, site, '; '.join(problems) or 'all fields reattached',
                  '; '.join(problems), fn.where, note=f'{len(done)} fields')


# ------------------------------------------------------------------ COVER-EQ
def rule_cover_eq(ctx: RuleContext, p: Program, tcs: list[TreeClass], rid: str) -> None:
    ctx.rule(rid, '_eq() is a conjunction of isinstance(other, <own class>) and `self.f == other.f` for every '
                  'child field and data field')
    for tc in tcs:
        fn = _need(p, tc, '_eq')
        site = f'{tc.cls.name}._eq'
        other = fn.params[1]
        expr = single_return_expr(fn)
        if expr is None:
            raise AnalysisError(f'{site}: not a single return expression')
        conj = expr.values if isinstance(expr, ast.BoolOp) and isinstance(expr.op, ast.And) else [expr]
        has_inst = False
        compared: set[str] = set()
        problems: list[str] = []
        for c in conj:
            if isinstance(c, ast.Call) and isinstance(c.func, ast.Name) and c.func.id == 'isinstance' \
                    and len(c.args) == 2 and isinstance(c.args[0], ast.Name) and c.args[0].id == other:
                k = p.resolve_expr(fn.module, c.args[1], None, tc.cls)
                if isinstance(k, ClassInfo) and (k is tc.cls or tc.cls in k.mro):
                    has_inst = True
                else:
                    problems.append(f'instance test against {norm(c.args[1])}, not the own class')
                continue
            if isinstance(c, ast.Compare) and len(c.ops) == 1 and isinstance(c.ops[0], ast.Eq):
                l, r = c.left, c.comparators[0]
                lf, rf = self_attr(l), self_attr(r, other)
                if lf is None or rf is None:
                    lf, rf = self_attr(r), self_attr(l, other)
                if lf is not None and lf == rf:
                    compared.add(lf)
                    continue
            problems.append(f'unrecognised conjunct {norm(c)!r}')
        if not has_inst:
            problems.append('no isinstance(other, <own class>) conjunct')
        missing = [f.name for f in tc.all_fields if f.name not in compared]
        if missing:
            problems.append(f'fields not compared: {missing}')
        ctx.check(not problems, rid, site, '; '.join(problems) or 'all fields compared',
                  '; '.join(problems), fn.where, note=f'{len(compared)} fields')


# ------------------------------------------------------------------ from_children & friends
class FromChildren:
    def __init__(self, tc: TreeClass, fn: FuncInfo) -> None:
        self.tc = tc
        self.fn = fn
        self.locals: dict[str, ast.AST] = {}
        self.tokens: list[tuple[str, str, ast.AST]] = []   # ('field'|'sep', name/var, node)
        self.tokens_var = ''
        self.store_var = ''
        self.reattached: list[tuple[str, str]] = []        # (field, var)
        self.ctor: Optional[ast.Call] = None
        self.problems: list[str] = []
        self.var_of_field: dict[str, str] = {}


def parse_from_children(p: Program, tc: TreeClass) -> FromChildren:
    fn = _need(p, tc, 'from_children')
    fc = FromChildren(tc, fn)
    body = stmts_no_doc(fn.node.body)
    for st in body:
        if isinstance(st, ast.Assign) and len(st.targets) == 1 and isinstance(st.targets[0], ast.Name):
            name = st.targets[0].id
            v = st.value
            if isinstance(v, ast.Call) and dotted(v.func) in ('base.TokenStore.from_tokens', 'TokenStore.from_tokens') \
                    and len(v.args) == 1 and isinstance(v.args[0], ast.List) and not fc.tokens_var:
                # canonical form: the token list is written inside from_tokens([...])
                fc.store_var = name
                fc.tokens_var = '<inline>'
                v = v.args[0]
                name = '<inline>'
            if isinstance(v, ast.List) and (not fc.tokens_var or name == '<inline>'):
                fc.tokens_var = name
                for el in v.elts:
                    if isinstance(el, ast.Starred) and isinstance(el.value, ast.Call) \
                            and isinstance(el.value.func, ast.Attribute):
                        call = el.value
                        if call.func.attr == 'detach' and isinstance(call.func.value, ast.Name) and not call.args:
                            fc.tokens.append(('var', call.func.value.id, el))
                            continue
                        fr = _field_ref(call.func.value)
                        if call.func.attr == 'detach_with_separators' and fr and len(call.args) == 1 \
                                and isinstance(call.args[0], ast.Name):
                            fc.tokens.append(('field', fr, el))
                            fc.var_of_field[fr] = call.args[0].id
                            continue
                        fc.problems.append(f'unrecognised token source {norm(el)!r}')
                    elif isinstance(el, ast.Starred):
                        fc.problems.append(f'unrecognised token source {norm(el)!r}')
                    else:
                        fc.tokens.append(('sep', norm(el), el))
                continue
            if isinstance(v, ast.Call) and dotted(v.func) in ('base.TokenStore.from_tokens', 'TokenStore.from_tokens') \
                    and len(v.args) == 1 and isinstance(v.args[0], ast.Name) and v.args[0].id == fc.tokens_var:
                fc.store_var = name
                continue
            fc.locals[name] = v
            continue
        if isinstance(st, ast.Expr) and isinstance(st.value, ast.Call) and isinstance(st.value.func, ast.Attribute) \
                and st.value.func.attr == 'reattach':
            call = st.value
            fr = _field_ref(call.func.value)
            if fr and len(call.args) >= 2 and isinstance(call.args[0], ast.Name) \
                    and isinstance(call.args[1], ast.Name) and call.args[1].id == fc.store_var:
                fc.reattached.append((fr, call.args[0].id))
                continue
            if isinstance(call.func.value, ast.Name) and len(call.args) >= 1 \
                    and isinstance(call.args[0], ast.Name) and call.args[0].id == fc.store_var:
                fc.reattached.append(('?' + call.func.value.id, call.func.value.id))
                continue
            fc.problems.append(f'unrecognised reattach {norm(st)!r}')
            continue
        if isinstance(st, ast.Return) and isinstance(st.value, ast.Call):
            fc.ctor = st.value
            continue
        fc.problems.append(f'unsupported statement {norm(st)!r}')
    return fc


def rule_cover_fromchildren(ctx: RuleContext, p: Program, tcs: list[TreeClass], rid: str) -> None:
    ctx.rule(rid, 'from_children detaches every field exactly once in field order into one token list, builds one '
                  'store from it, reattaches every field to that store and passes every field to the constructor '
                  'at its own position; non-public tokens come from from_default()')
    for tc in tcs:
        fc = parse_from_children(p, tc)
        site = f'{tc.cls.name}.from_children'
        problems = list(fc.problems)
        if fc.ctor is None or not fc.store_var or not fc.tokens_var:
            raise AnalysisError(f'{site}: token list / store / constructor call not found')
        # constructor positions -> var per field
        ctor = fc.ctor
        if norm(ctor.func) != 'cls':
            problems.append(f'constructs {norm(ctor.func)}, not cls')
        if not ctor.args or not (isinstance(ctor.args[0], ast.Name) and ctor.args[0].id == fc.store_var):
            problems.append('constructor is not given the store built from the token list')
        ctor_params = tc.init.params[2:]
        var_at: dict[str, str] = {}
        for i, a in enumerate(ctor.args[1:]):
            if i < len(ctor_params) and isinstance(a, ast.Name):
                var_at[ctor_params[i]] = a.id
            else:
                problems.append(f'constructor argument {norm(a)} not understood')
        for k in ctor.keywords:
            if k.arg and isinstance(k.value, ast.Name):
                var_at[k.arg] = k.value.id
        field_var: dict[str, str] = {}
        for f in tc.all_fields:
            if f.param not in var_at:
                problems.append(f'field {f.name} not passed to the constructor')
            else:
                field_var[f.name] = var_at[f.param]
        # token list order
        seq: list[str] = []
        var_to_field = {v: k for k, v in field_var.items()}
        for kind, name, node in fc.tokens:
            if kind == 'field':
                seq.append(name)
                if field_var.get(name) != fc.var_of_field.get(name):
                    problems.append(f'{name}: tokens come from {fc.var_of_field.get(name)!r} but the constructor '
                                    f'receives {field_var.get(name)!r}')
            elif kind == 'var':
                fld = var_to_field.get(name)
                if fld is None:
                    problems.append(f'tokens of {name!r} are inserted but it is not a constructor argument')
                else:
                    f = tc.field(fld)
                    if f is not None and f.kind != 'required':
                        problems.append(f'{fld}: optional/repeated field detached without its separators')
                    seq.append(fld)
        want = [f.name for f in tc.fields]
        if seq != want:
            problems.append(f'token order {seq} differs from field order {want}')
        # reattach coverage
        re_fields = []
        for fld, var in fc.reattached:
            if fld.startswith('?'):
                fld = var_to_field.get(var, fld)
            elif field_var.get(fld) != var:
                problems.append(f'{fld}: reattaches {var!r} but the constructor receives {field_var.get(fld)!r}')
            re_fields.append(fld)
        miss = [f.name for f in tc.fields if f.name not in re_fields]
        if miss:
            problems.append(f'fields not reattached to the new store: {miss}')
        # locals: non-public tokens from_default / None / create_repeated
        fparams = set(fc.fn.params[1:]) | {a.arg for a in fc.fn.node.args.kwonlyargs}
        for f in tc.fields:
            v = field_var.get(f.name)
            if v is None or v in fparams:
                continue
            src = fc.locals.get(v)
            if src is None:
                problems.append(f'{f.name}: constructor argument {v!r} is neither a parameter nor a local')
            elif f.kind == 'repeated':
                if not (isinstance(src, ast.Call) and isinstance(src.func, ast.Attribute)
                        and src.func.attr == 'create_repeated' and _field_ref(src.func.value) == f.name):
                    problems.append(f'{f.name}: repeated built by {norm(src)!r}, not {f.name}.create_repeated')
            elif f.kind == 'required':
                if not (isinstance(src, ast.Call) and isinstance(src.func, ast.Attribute)
                        and src.func.attr in ('from_default',)):
                    problems.append(f'{f.name}: non-public required child built by {norm(src)!r}')
            else:
                if not (isinstance(src, ast.Constant) and src.value is None):
                    problems.append(f'{f.name}: non-public optional child initialised to {norm(src)!r}')
        ctx.check(not problems, rid, site, '; '.join(problems) or 'ok', '; '.join(problems), fc.fn.where,
                  note=f'{len(seq)} fields, {sum(1 for t in fc.tokens if t[0] == "sep")} literal separators')


def iter_children_sequence(p: Program, tc: TreeClass) -> tuple[list[tuple[str, str]], list[str], FuncInfo]:
    fn = _need(p, tc, 'iter_children_formatted')
    seq: list[tuple[str, str]] = []
    problems: list[str] = []
    for st in stmts_no_doc(fn.node.body):
        if isinstance(st, ast.Expr) and isinstance(st.value, ast.YieldFrom):
            call = st.value.value
            if isinstance(call, ast.Call) and isinstance(call.func, ast.Attribute) \
                    and call.func.attr == 'iter_children_formatted':
                fr = _field_ref(call.func.value)
                if fr and call.args and self_attr(call.args[0]) == fr:
                    seq.append(('field', fr))
                    continue
            problems.append(f'unrecognised {norm(st)!r}')
        elif isinstance(st, ast.Expr) and isinstance(st.value, ast.Yield) and isinstance(st.value.value, ast.Tuple):
            seq.append(('sep', norm(st.value.value.elts[0])))
        else:
            problems.append(f'unsupported statement {norm(st)!r}')
    return seq, problems, fn


def rule_fc_iter(ctx: RuleContext, p: Program, tcs: list[TreeClass], rid: str) -> None:
    ctx.rule(rid, 'the (separator | field) sequence of from_children\'s token list equals the sequence yielded by '
                  'iter_children_formatted, and both follow the field order')
    for tc in tcs:
        fc = parse_from_children(p, tc)
        seq_i, problems, fn = iter_children_sequence(p, tc)
        ctor_params = tc.init.params[2:]
        var_to_field: dict[str, str] = {}
        if fc.ctor is not None:
            for i, a in enumerate(fc.ctor.args[1:]):
                if i < len(ctor_params) and isinstance(a, ast.Name):
                    fld = next((f.name for f in tc.fields if f.param == ctor_params[i]), None)
                    if fld:
                        var_to_field[a.id] = fld
        seq_f: list[tuple[str, str]] = []
        for kind, name, node in fc.tokens:
            if kind == 'field':
                seq_f.append(('field', name))
            elif kind == 'var':
                seq_f.append(('field', var_to_field.get(name, '?' + name)))
            else:
                seq_f.append(('sep', name))
        site = f'{tc.cls.name}.iter_children_formatted'
        if seq_f != seq_i:
            problems.append(f'from_children lays out {seq_f} but iter_children_formatted yields {seq_i}')
        if [n for k, n in seq_i if k == 'field'] != [f.name for f in tc.fields]:
            problems.append('yielded fields do not follow the field order')
        ctx.check(not problems, rid, site, '; '.join(problems) or 'ok', '; '.join(problems), fn.where,
                  note=f'{len(seq_i)} symbols')


def rule_cover_claim(ctx: RuleContext, p: Program, tcs: list[TreeClass], rid: str) -> None:
    ctx.rule(rid, 'auto_claim_comments claims leading then trailing comment first (ignore_if_already_claimed=True) '
                  'when the class can own comments, then visits every public child in reverse field order; repeated '
                  'fields with interleaving comments go through their wrapper')
    for tc in tcs:
        fn = _need(p, tc, 'auto_claim_comments')
        site = f'{tc.cls.name}.auto_claim_comments'
        commentable = any(c.name == 'SurroundingCommentsMixin' for c in tc.cls.mro)
        problems: list[str] = []
        visited: list[str] = []
        claims: list[str] = []
        for st in stmts_no_doc(fn.node.body):
            if isinstance(st, ast.Pass):
                continue
            if not (isinstance(st, ast.Expr) and isinstance(st.value, ast.Call)
                    and isinstance(st.value.func, ast.Attribute)):
                problems.append(f'unsupported statement {norm(st)!r}')
                continue
            call = st.value
            name = call.func.attr
            if name in ('claim_leading_comment', 'claim_trailing_comment') and self_attr(call.func) is not None:
                if visited:
                    problems.append(f'{name} runs after children were visited')
                kw = {k.arg: k.value for k in call.keywords}
                v = kw.get('ignore_if_already_claimed')
                if not (isinstance(v, ast.Constant) and v.value is True):
                    problems.append(f'{name} without ignore_if_already_claimed=True (raises on the second run)')
                claims.append(name)
                continue
            if name == 'auto_claim_comments':
                fr = _field_ref(call.func.value)
                if fr and call.args and self_attr(call.args[0]) == fr:
                    visited.append(fr)
                    continue
                inner = call.func.value
                pn = self_attr(inner)
                if pn is not None:
                    d = tc.cls.lookup(pn)
                    if isinstance(d, DescriptorDecl) and d.kind.name in (
                            'repeated_node_property', 'repeated_node_with_interleaving_comments_property'):
                        a0 = d.arg(0, 'inner_field')
                        if isinstance(a0, ast.Name):
                            visited.append(a0.id)
                            # fields whose element type admits BlockComment must use the interleaving wrapper
                            f = tc.field(a0.id)
                            if f is not None and f.type_expr is not None and 'BlockComment' in norm(f.type_expr) \
                                    and d.kind.name != 'repeated_node_with_interleaving_comments_property':
                                problems.append(f'{a0.id} admits comments but is visited through a plain wrapper')
                            continue
            problems.append(f'unrecognised call {norm(st)!r}')
        if commentable and claims != ['claim_leading_comment', 'claim_trailing_comment']:
            problems.append(f'claims own comments as {claims}, expected leading then trailing')
        # expected: reverse order of public fields
        public = _public_fields(p, tc)
        want = [f for f in reversed([f.name for f in tc.fields]) if f in public]
        if visited != want:
            problems.append(f'children visited as {visited}, field order requires {want}')
        ctx.check(not problems, rid, site, '; '.join(problems) or 'ok', '; '.join(problems), fn.where,
                  note=f'{len(visited)} children')


def _public_fields(p: Program, tc: TreeClass) -> set[str]:
    """Fields wrapped by a node-level property (raw_*), i.e. reachable through the public API."""
    out: set[str] = set()
    for c in [tc.cls, *tc.cls.mro]:
        for d in c.attrs.values():
            if isinstance(d, DescriptorDecl) and d.kind.name in (
                    'required_node_property', 'optional_node_property', 'repeated_node_property',
                    'repeated_node_with_interleaving_comments_property'):
                a0 = d.arg(0, 'inner_field')
                if isinstance(a0, ast.Name):
                    out.add(a0.id)
                elif isinstance(a0, ast.Attribute):
                    out.add(a0.attr)
    return out


def rule_fv_cover(ctx: RuleContext, p: Program, tcs: list[TreeClass], rid: str) -> None:
    ctx.rule(rid, 'from_value passes every parameter to from_children by keyword under the same name, converting '
                  'plain values through <Type>.from_value(...) (None-guarded for optional parameters)')
    for tc in tcs:
        fn = _own_method(p, tc, 'from_value')
        if fn is None:
            continue
        site = f'{tc.cls.name}.from_value'
        expr = single_return_expr(fn)
        if not (isinstance(expr, ast.Call) and norm(expr.func) == 'cls.from_children'):
            raise AnalysisError(f'{site}: not a single `return cls.from_children(...)`')
        params = fn.params[1:] + [a.arg for a in fn.node.args.kwonlyargs]
        fcn = _need(p, tc, 'from_children')
        fc_params = fcn.params[1:] + [a.arg for a in fcn.node.args.kwonlyargs]
        problems: list[str] = []
        if expr.args:
            problems.append('positional arguments to from_children')
        passed = {k.arg: k.value for k in expr.keywords if k.arg}
        for prm in params:
            if prm not in passed:
                problems.append(f'parameter {prm} is not forwarded')
                continue
            used = {n.id for n in ast.walk(passed[prm]) if isinstance(n, ast.Name)}
            if prm not in used:
                problems.append(f'{prm}= is computed from {sorted(used & set(params))}, not from {prm}')
            others = (used & set(params)) - {prm, 'indent', 'indent_by'}
            if others:
                problems.append(f'{prm}= also reads {sorted(others)}')
        for k in passed:
            if k not in fc_params:
                problems.append(f'{k}= is not a parameter of from_children')
        miss = [q for q in fc_params if q not in passed and not _has_default(fcn, q)]
        if miss:
            problems.append(f'required from_children parameters not supplied: {miss}')
        ctx.check(not problems, rid, site, '; '.join(problems) or 'ok', '; '.join(problems), fn.where,
                  note=f'{len(passed)} keywords')


def _has_default(fn: FuncInfo, name: str) -> bool:
    a = fn.node.args
    pos = [*a.posonlyargs, *a.args]
    defaults = dict(zip([x.arg for x in pos][len(pos) - len(a.defaults):], a.defaults))
    if name in defaults:
        return True
    for x, d in zip(a.kwonlyargs, a.kw_defaults):
        if x.arg == name:
            return d is not None
    return False
