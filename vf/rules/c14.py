"""C14 -- every block comment has at most one owner (structural clauses)."""
from __future__ import annotations

import ast
from typing import Any, Iterable

from ..fieldmodel import build_tree_classes
from ..model import AnalysisError, FuncInfo, Program, dotted, norm, self_attr, stmts_no_doc, walk_no_nested
from ..report import RuleContext
from ..walker import Walker
from . import gen

EXPLANATION = (
    'Static analysis (AST dominance / pairing / coverage). Decides: CLAIM-GUARD (every `x.claimed = True` is dominated by a '
    'test that x is not yet claimed, or x comes from a candidate generator that skips / stops at claimed comments), '
    'CLAIM-FLAG (flag and owner slot change together on every normal path: claimed=True <-> stored in _leading/_trailing '
    'comment or items; claimed=False <-> removed from that slot), CLAIM-INIT (comments materialised by the parser in gaps are '
    'created unclaimed; constructor default is claimed), COVER-CLAIM (every auto_claim_comments claims own leading then '
    'trailing comment with ignore_if_already_claimed=True and then visits every public child in reverse field order, comment-'
    'bearing repeated fields through the interleaving wrapper), CLAIM-ORDER (the wrapper claims interleaving comments after '
    'its children have claimed theirs). It does NOT decide the attribution rules per layout, idempotence or claim/unclaim '
    'restoration as runtime facts.')


def rule_claim_guard(ctx: RuleContext, p: Program, rid: str) -> None:
    ctx.rule(rid, 'every assignment `x.claimed = True` happens only after x was tested unclaimed on that path, or x is drawn '
                  'from a generator whose every yield of a comment is guarded by a not-claimed test')
    n = 0
    for fn in p.all_funcs:
        if fn.kind == 'overload':
            continue
        sets = [a for a in walk_no_nested(fn.node) if isinstance(a, ast.Assign) and isinstance(a.targets[0], ast.Attribute)
                and a.targets[0].attr == 'claimed' and isinstance(a.value, ast.Constant) and a.value.value is True]
        if not sets:
            continue
        for a in sets:
            n += 1
            var = norm(a.targets[0].value)   # type: ignore[union-attr]
            site = f'{fn.module.name.split(".", 1)[1]}:{fn.qualname}'
            bad = [False]

            def transfer(s: frozenset[str], ev: tuple[Any, ...]) -> Iterable[frozenset[str]]:
                if ev[0] == 'assume':
                    t, truth = ev[1], ev[2]
                    if isinstance(t, ast.Attribute) and t.attr == 'claimed' and not truth:
                        return [s | {norm(t.value)}]
                    if isinstance(t, ast.UnaryOp) and isinstance(t.op, ast.Not) and isinstance(t.operand, ast.Attribute) \
                            and t.operand.attr == 'claimed' and truth:
                        return [s | {norm(t.operand.value)}]
                if ev[0] == 'store' and ev[1] is a.targets[0]:
                    if var not in s:
                        bad[0] = True
                if ev[0] == 'store' and isinstance(ev[1], ast.Name):
                    return [s - {ev[1].id}]
                return [s]

            Walker(transfer).run(stmts_no_doc(fn.node.body), [frozenset()])
            if not bad[0]:
                ctx.ok(rid, f'{site}: {norm(a)}', 'dominated by a not-claimed test')
                continue
            # generator idiom: var iterates over a list built only from self._find_* generators
            ok = _from_guarded_generators(p, fn, var)
            ctx.check(ok, rid, site, norm(a), f'`{norm(a)}` can run for a comment that is already claimed by another owner '
                      f'(no dominating not-claimed test, and its source is not a guarded candidate generator)', fn.where,
                      note='candidates come from generators that skip/stop at claimed comments')
    if n < 2:
        raise AnalysisError(f'CLAIM-GUARD: only {n} claim sites found (2 confirmed by hand)')


def _from_guarded_generators(p: Program, fn: FuncInfo, var: str) -> bool:
    if fn.cls is None:
        return False
    # every yield of a BlockComment candidate in the class's generator methods is guarded by a claimed test on that path
    gens = [m for m in fn.cls.methods() if any(isinstance(y, ast.Yield) for y in walk_no_nested(m.node))]
    if not gens:
        return False
    for g in gens:
        bad = [False]

        def transfer(s: frozenset[str], ev: tuple[Any, ...]) -> Iterable[frozenset[str]]:
            if ev[0] == 'assume':
                t, truth = ev[1], ev[2]
                if isinstance(t, ast.Attribute) and t.attr == 'claimed' and not truth:
                    return [s | {norm(t.value)}]
                if isinstance(t, ast.Call) and norm(t.func) == 'isinstance' and 'BlockComment' in norm(t.args[1]):
                    k = norm(t.args[0])
                    return [s | {('is:' + k) if truth else ('not:' + k)}]
            if ev[0] == 'yield' and isinstance(ev[1], ast.Yield) and ev[1].value is not None:
                k = norm(ev[1].value)
                # an item known not to be a comment (or not tested as one) is a regular child, not a candidate
                if ('is:' + k) in s and k not in s:
                    bad[0] = True
            if ev[0] == 'store' and isinstance(ev[1], ast.Name):
                nm = ev[1].id
                return [frozenset(x for x in s if x not in (nm, 'is:' + nm, 'not:' + nm))]
            return [s]

        Walker(transfer).run(stmts_no_doc(g.node.body), [frozenset()])
        if bad[0]:
            return False
    # and the claimed variable iterates over a collection assembled from those generators only
    srcs = set()
    for n in walk_no_nested(fn.node):
        if isinstance(n, ast.Call) and isinstance(n.func, ast.Attribute) and self_attr(n.func) in {g.name for g in gens}:
            srcs.add(n.func.attr)
    return bool(srcs)


def rule_claim_flag(ctx: RuleContext, p: Program, rid: str) -> None:
    ctx.rule(rid, 'flag and owner slot change together: claimed=False is followed on every normal path by removing the comment '
                  'from its slot (_leading_comment/_trailing_comment = None, or items rebuilt without it); the comment returned '
                  'by _claim_comment (claimed=True) is stored into the owner\'s slot by its caller; claim() stores exactly the '
                  'comments it flagged into items')
    sc = p.cls('SurroundingCommentsMixin', 'models.internal.surrounding_comments')
    n = 0
    for side in ('leading', 'trailing'):
        f = p.method(sc, f'unclaim_{side}_comment', inherited=False)
        slot = f'_{side}_comment'
        state_bad = [False]

        def transfer(s: str, ev: tuple[Any, ...], slot: str = slot) -> Iterable[str]:
            if ev[0] == 'store' and isinstance(ev[1], ast.Attribute):
                if ev[1].attr == 'claimed' and isinstance(ev[2], ast.Constant) and ev[2].value is False:
                    return ['flag-cleared']
                if self_attr(ev[1]) == slot and isinstance(ev[2], ast.Constant) and ev[2].value is None:
                    return ['clean'] if s == 'flag-cleared' else [s]
            return [s]

        out = Walker(transfer).run(stmts_no_doc(f.node.body), ['clean'])
        n += 1
        ctx.check('flag-cleared' not in (out.normal | out.returned), rid,
                  f'models.internal.surrounding_comments:{f.qualname}', f'claimed=False <-> {slot}=None',
                  f'{f.qualname} can clear the claimed flag and return with the comment still stored in {slot}', f.where,
                  note=f'flag cleared and {slot} emptied together')
        # the flagged comment is the one in the slot
        cur = [a for a in walk_no_nested(f.node) if isinstance(a, ast.Assign) and isinstance(a.targets[0], ast.Name)
               and self_attr(a.value) == slot]
        flagged = [a for a in walk_no_nested(f.node) if isinstance(a, ast.Assign) and isinstance(a.targets[0], ast.Attribute)
                   and a.targets[0].attr == 'claimed']
        ok = bool(cur) and all(norm(a.targets[0].value) == cur[0].targets[0].id for a in flagged)  # type: ignore[union-attr]
        ctx.check(ok, rid, f'models.internal.surrounding_comments:{f.qualname}: same comment', 'flag target is the slot content',
                  f'{f.qualname} clears the flag of something other than the comment stored in {slot}', f.where)
        g = p.method(sc, f'claim_{side}_comment', inherited=False)
        st = [a for a in walk_no_nested(g.node) if isinstance(a, ast.Assign) and self_attr(a.targets[0]) == slot
              and isinstance(a.value, ast.Call) and norm(a.value.func) == '_claim_comment']
        n += 1
        ok = len(st) == 1 and st[0].value.args and self_attr(st[0].value.args[0]) == slot  # type: ignore[union-attr]
        want_back = side == 'leading'
        if ok:
            kw = {k.arg: k.value for k in st[0].value.keywords}  # type: ignore[union-attr]
            b = kw.get('backwards')
            ok = isinstance(b, ast.Constant) and b.value is want_back
            anchor = st[0].value.args[2] if len(st[0].value.args) > 2 else None  # type: ignore[union-attr]
            ok = ok and anchor is not None and norm(anchor) == ('self.first_token' if want_back else 'self.last_token')
        ctx.check(bool(ok), rid, f'models.internal.surrounding_comments:{g.qualname}', f'{slot} = _claim_comment({slot}, ...)',
                  f'{g.qualname} does not store the comment claimed by _claim_comment into {slot} (searching '
                  f'{"backwards from first_token" if want_back else "forwards from last_token"})', g.where,
                  note=f'{slot} = _claim_comment(self.{slot}, store, {"first" if want_back else "last"}_token, backwards={want_back})')
    # _claim_comment returns the flagged comment (or the current one / None)
    cc = p.func('models.internal.surrounding_comments', '_claim_comment')
    rets = [norm(r.value) for r in walk_no_nested(cc.node) if isinstance(r, ast.Return)]
    flagged = [norm(a.targets[0].value) for a in walk_no_nested(cc.node) if isinstance(a, ast.Assign)  # type: ignore[union-attr]
               and isinstance(a.targets[0], ast.Attribute) and a.targets[0].attr == 'claimed']
    n += 1
    ctx.check(len(flagged) == 1 and set(rets) <= {flagged[0], 'None', cc.params[0]} and flagged[0] in rets, rid,
              'models.internal.surrounding_comments:_claim_comment', f'returns {sorted(set(rets))}',
              f'_claim_comment flags {flagged} but returns {sorted(set(rets))}', cc.where, note=f'flags {flagged}, returns {sorted(set(rets))}')
    # claimer: items[:] = items ; every flagged item is in that list
    ic = p.module('models.internal.interleaving_comments')
    claimer = p.cls('_CommentClaimer', 'models.internal.interleaving_comments')
    cl = p.method(claimer, 'claim', inherited=False)
    loops = [l for l in walk_no_nested(cl.node) if isinstance(l, ast.For) and any(
        isinstance(a, ast.Assign) and isinstance(a.targets[0], ast.Attribute) and a.targets[0].attr == 'claimed' for a in ast.walk(l))]
    stores = [a for a in walk_no_nested(cl.node) if isinstance(a, ast.Assign) and isinstance(a.targets[0], ast.Subscript)
              and norm(a.targets[0].value) == 'self._repeated.items']
    n += 1
    ok = len(loops) == 1 and len(stores) == 1 and norm(loops[0].iter) == norm(stores[0].value)
    if not ok and len(loops) == 1 and len(stores) == 1 and isinstance(loops[0].iter, ast.Name):
        # the flagged collection may be a selection of the stored one: name = [x for x in <stored> if ...] / filter(.., <stored>)
        defs = [a for a in walk_no_nested(cl.node) if isinstance(a, ast.Assign) and len(a.targets) == 1 and norm(a.targets[0]) == loops[0].iter.id]
        if len(defs) == 1:
            v = defs[0].value
            if isinstance(v, (ast.ListComp, ast.GeneratorExp)) and len(v.generators) == 1 and norm(v.generators[0].iter) == norm(stores[0].value) \
                    and norm(v.elt) == norm(v.generators[0].target):
                ok = True
            if isinstance(v, ast.Call) and norm(v.func) in ('list', 'tuple') and v.args and isinstance(v.args[0], ast.Call) \
                    and norm(v.args[0].func) == 'filter' and len(v.args[0].args) == 2 and norm(v.args[0].args[1]) == norm(stores[0].value):
                ok = True
    ctx.check(ok, rid, 'models.internal.interleaving_comments:_CommentClaimer.claim', 'flagged items == stored items',
              'claim() flags comments from one collection but stores a different one into items', cl.where,
              note=f'iterates and stores {norm(stores[0].value) if stores else None}')
    # unclaim_interleaving: every comment whose flag is cleared is left out of the rebuilt items
    w = p.cls('RepeatedNodeWithInterleavingCommentsWrapper', 'models.internal.interleaving_comments')
    un = p.method(w, 'unclaim_interleaving_comments', inherited=False)
    lp = [l for l in walk_no_nested(un.node) if isinstance(l, ast.For) and norm(l.iter) == 'self._repeated.items']
    n += 1
    ok = False
    if len(lp) == 1:
        kept = None
        for a in walk_no_nested(un.node):
            if isinstance(a, ast.Assign) and isinstance(a.targets[0], ast.Subscript) and norm(a.targets[0].value) == 'self._repeated.items':
                kept = norm(a.value)
        tv = norm(lp[0].target)
        # every list the loop variable is appended to; one is `kept`, the other collects the comments to unclaim
        appended = {norm(c.func.value) for c in ast.walk(lp[0]) if isinstance(c, ast.Call) and isinstance(c.func, ast.Attribute)
                    and c.func.attr == 'append' and c.args and norm(c.args[0]) == tv}
        dropped = appended - {kept}
        # flags cleared for the loop variable inside the scan, or for every element of the dropped list in a later loop
        later = {norm(l.iter) for l in walk_no_nested(un.node) if isinstance(l, ast.For) and l is not lp[0] and any(
            isinstance(a, ast.Assign) and isinstance(a.targets[0], ast.Attribute) and a.targets[0].attr == 'claimed'
            and norm(a.targets[0].value) == norm(l.target) and isinstance(a.value, ast.Constant) and a.value.value is False
            for a in ast.walk(l))}

        def transfer3(s: tuple[bool, bool], ev: tuple[Any, ...]) -> Iterable[tuple[bool, bool]]:
            k, u = s
            if ev[0] == 'eval' and isinstance(ev[1], ast.Call) and isinstance(ev[1].func, ast.Attribute) \
                    and ev[1].func.attr == 'append' and ev[1].args and norm(ev[1].args[0]) == tv:
                if norm(ev[1].func.value) == kept:
                    return [(True, u)]
                if norm(ev[1].func.value) in later:
                    return [(k, True)]
            if ev[0] == 'store' and isinstance(ev[1], ast.Attribute) and ev[1].attr == 'claimed' and norm(ev[1].value) == tv:
                return [(k, True)]
            return [s]

        from ..walker import Outcome
        o = Outcome()
        res = Walker(transfer3).block(lp[0].body, {(False, False)}, o) | o.continued
        ok = kept is not None and all(a != c for a, c in res) and bool(res) and len(dropped) <= 1
    ctx.check(ok, rid, 'models.internal.interleaving_comments:RepeatedNodeWithInterleavingCommentsWrapper.unclaim_interleaving_comments',
              'kept xor unclaimed per item', 'an item can be both unclaimed and kept in items (or neither) in one iteration', un.where,
              note='each item is either kept or unclaimed (flag cleared in the scan or in a later loop over the collected comments), never both')
    if n < 7:
        raise AnalysisError('CLAIM-FLAG: anchors missing')


def rule_claim_init(ctx: RuleContext, p: Program, rid: str) -> None:
    ctx.rule(rid, 'comments materialised by the parser in gaps between models are created unclaimed; the BlockComment '
                  'constructor defaults to claimed (comments created through the API are always put into an owner slot)')
    mb = p.cls('ModelBuilder', 'parser')
    fg = p.method(mb, '_fix_gap', inherited=False)
    ok = False
    for br in [x for x in walk_no_nested(fg.node) if isinstance(x, ast.If)]:
        t = br.test
        if isinstance(t, ast.Call) and norm(t.func) == 'isinstance' and 'BlockComment' in norm(t.args[1]):
            var = norm(t.args[0])
            ok = any(isinstance(a, ast.Assign) and norm(a.targets[0]) == f'{var}.claimed'
                     and isinstance(a.value, ast.Constant) and a.value.value is False for a in br.body)
    ctx.check(ok, rid, 'parser:ModelBuilder._fix_gap', 'gap comments unclaimed',
              'ModelBuilder._fix_gap does not mark block comments found between models as unclaimed', fg.where,
              note='isinstance(built, BlockComment) -> claimed = False')
    bc = p.cls('BlockComment', 'models.block_comment')
    init = p.method(bc, '__init__', inherited=False)
    kd = dict(zip([a.arg for a in init.node.args.kwonlyargs], init.node.args.kw_defaults))
    d = kd.get('claimed')
    ctx.check(isinstance(d, ast.Constant) and d.value is True, rid, 'models.block_comment:BlockComment.__init__', 'claimed=True default',
              'BlockComment.__init__ does not default to claimed=True', init.where, note='claimed: bool = True')
    cl = p.method(bc, '_clone', inherited=False)
    ok = any(isinstance(k, ast.keyword) and k.arg == 'claimed' and norm(k.value) == 'self.claimed' for k in ast.walk(cl.node))
    ctx.check(ok, rid, 'models.block_comment:BlockComment._clone', 'claimed preserved',
              'BlockComment._clone does not carry the claimed flag to the copy', cl.where, note='claimed=self.claimed')


def rule_claim_order(ctx: RuleContext, p: Program, rid: str) -> None:
    ctx.rule(rid, 'RepeatedNodeWithInterleavingCommentsWrapper.auto_claim_comments lets the children claim first '
                  '(super().auto_claim_comments()) and claims interleaving comments afterwards; Repeated.auto_claim_comments '
                  'visits items in reverse')
    w = p.cls('RepeatedNodeWithInterleavingCommentsWrapper', 'models.internal.interleaving_comments')
    f = p.method(w, 'auto_claim_comments', inherited=False)
    calls = [norm(s.value) for s in stmts_no_doc(f.node.body) if isinstance(s, ast.Expr)]
    ctx.check(calls == ['super().auto_claim_comments()', 'self.claim_interleaving_comments()'], rid,
              'models.internal.interleaving_comments:RepeatedNodeWithInterleavingCommentsWrapper.auto_claim_comments', f'{calls}',
              f'order is {calls}: interleaving comments must be claimed after the children claimed their own', f.where, note=f'{calls}')
    rp = p.cls('Repeated', 'models.internal.repeated')
    g = p.method(rp, 'auto_claim_comments', inherited=False)
    lp = [l for l in walk_no_nested(g.node) if isinstance(l, ast.For)]
    ok = len(lp) == 1 and norm(lp[0].iter) in ('reversed(self.items)', 'self.items[::-1]', 'list(reversed(self.items))')
    ctx.check(ok, rid, 'models.internal.repeated:Repeated.auto_claim_comments', norm(lp[0].iter) if lp else '',
              'Repeated.auto_claim_comments does not visit items in reverse (a later item must claim its leading comment before '
              'the earlier one claims it as trailing)', g.where, note='reversed(self.items)')


def rule_claim_walk(ctx: RuleContext, p: Program, rid: str) -> None:
    ctx.rule(rid, '_claim_comment looks at exactly: placeholders, one Newline, placeholders, one BlockComment, starting next to the '
                  'model\'s edge token (no blank line, same indentation class); anything else yields None; _find_outer stops at the '
                  'first claimed comment or non-blank token and at the model limit')
    f = p.func('models.internal.surrounding_comments', '_claim_comment')
    src = [norm(s) for s in stmts_no_doc(f.node.body)]
    need = ['newline = _take_ignored(first, succ, ignored)', 'comment = _take_ignored(succ(newline), succ, ignored)']
    have = [x for x in need if x in src]
    tests = [norm(i.test) for i in walk_no_nested(f.node) if isinstance(i, ast.If)]
    ok = have == need and 'not isinstance(newline, Newline)' in tests and 'not isinstance(comment, BlockComment)' in tests \
        and src.index(need[0]) < src.index(need[1])
    ctx.check(ok, rid, 'models.internal.surrounding_comments:_claim_comment', f'{have} {tests[:5]}',
              '_claim_comment does not walk placeholders, exactly one Newline, placeholders, exactly one BlockComment', f.where,
              note='placeholders, Newline, placeholders, BlockComment')
    cl = p.cls('_CommentClaimer', 'models.internal.interleaving_comments')
    fo = p.method(cl, '_find_outer', inherited=False)
    lp = [l for l in walk_no_nested(fo.node) if isinstance(l, ast.While)]
    ok2 = False
    if len(lp) == 1:
        t = norm(lp[0].test)
        chain = [i for i in lp[0].body if isinstance(i, ast.If)]
        ok2 = 'prev is not limit' in t and 'token is not None' in t and len(chain) == 1
        if ok2:
            c = chain[0]
            t1 = norm(c.test)
            ok2 = 'isinstance(token, (Newline, Whitespace))' in t1 and 'not token.raw_text' in t1 and [norm(x) for x in c.body] == ['pass']
            c2 = c.orelse[0] if len(c.orelse) == 1 and isinstance(c.orelse[0], ast.If) else None
            ok2 = ok2 and c2 is not None and norm(c2.test) == 'isinstance(token, BlockComment)' and \
                any(isinstance(i, ast.If) and norm(i.test) == 'token.claimed' and [norm(x) for x in i.body] == ['break'] for i in c2.body) \
                and [norm(x) for x in c2.orelse] == ['break']
    ctx.check(ok2, rid, 'models.internal.interleaving_comments:_CommentClaimer._find_outer', 'skip blanks; stop at claimed comment / other token / limit',
              '_find_outer does not skip only blanks and zero-width tokens, yield unclaimed comments, and stop at the first claimed comment, other token or the model limit',
              fo.where)


def run(ctx: RuleContext, p: Program) -> None:
    tcs = build_tree_classes(p)
    ctx.try_rule(rule_claim_guard, p, 'CLAIM-GUARD')
    ctx.try_rule(rule_claim_flag, p, 'CLAIM-FLAG')
    ctx.try_rule(rule_claim_init, p, 'CLAIM-INIT')
    ctx.try_rule(gen.rule_cover_claim, p, tcs, 'COVER-CLAIM')
    ctx.require_min('COVER-CLAIM', 34)
    ctx.try_rule(rule_claim_order, p, 'CLAIM-ORDER')
    from .c04 import rule_take_ignored
    ctx.try_rule(rule_take_ignored, p, 'TAKE-IGNORED')
    from . import round4
    ctx.try_rule(round4.rule_claim_descend, p, 'CLAIM-DESCEND')
    ctx.try_rule(round4.rule_claim_found, p, 'CLAIM-FOUND')
    ctx.try_rule(round4.rule_find_sem, p, 'FIND-SEM', 3 if ctx.tier == 'quick' else 5)
    ctx.try_rule(round4.rule_claim_sem, p, 'CLAIM-SEM', 3 if ctx.tier == 'quick' else 5)
    ctx.try_rule(round4.rule_id_cmp, p, 'ID-CMP')
    ctx.try_rule(rule_postlex_block, p, 'POSTLEX-BLOCK')
    ctx.try_rule(rule_flag_writers, p, 'FLAG-WRITERS')
    ctx.try_rule(rule_claim_phases, p, 'CLAIM-PHASES')
    from . import presence
    ctx.try_rule(presence.rule_presence_truth, p, 'PRESENCE-TRUTH')
    from . import claimorder
    ctx.try_rule(claimorder.rule_splice_order, p, 'SPLICE-ORDER')
    from . import round4 as _r4
    ctx.try_rule(_r4.rule_iter_once, p, 'ITER-ONCE')
    ctx.not_decided += ['attribution rules for each layout (blank lines, indentation classes)', 'idempotence and '
                        'claim/unclaim restoration as runtime facts', 'that default parsing leaves no comment unowned']
    ctx.assumptions += ['a comment is owned iff it is stored in a _leading/_trailing slot or in Repeated.items']


# ====================================================================== POSTLEX-BLOCK (added after seeded round 6)
def rule_postlex_block(ctx: RuleContext, p: Program, rid: str) -> None:
    """PostLex.process interpreted over streams of line-start tokens: where indented blocks open and close"""
    import itertools
    import re
    from . import possem
    from .tokenstore import TS
    ctx.rule(rid, 'PostLex.process, interpreted over every stream of up to 3 line-start tokens (each with / without a line break, an indent, a '
                  'comment) interleaved with content tokens: an indented block is opened (INDENT_MARK) at the first indented line after an '
                  'unindented one -- whether that line holds content or only a comment -- and closed (DEDENT_MARK) at the next unindented '
                  'line or at the end; marks alternate and balance.  An indented comment line is part of the block of the directive above it: '
                  'that is what makes it a standalone entry of that directive (indentation class) instead of a comment of a neighbour')
    m = p.module('parser')
    cls = p.cls('PostLex', 'parser')
    fn = p.method(cls, 'process', inherited=False)
    ts = TS(p)
    consts: dict[str, Any] = {}
    for st in cls.node.body:
        if isinstance(st, ast.Assign) and len(st.targets) == 1 and isinstance(st.targets[0], ast.Name):
            v = st.value
            if isinstance(v, ast.Constant) and isinstance(v.value, str):
                consts[st.targets[0].id] = v.value
            elif isinstance(v, ast.Call) and norm(v.func) == 're.compile' and v.args and isinstance(v.args[0], ast.Constant):
                flags = 0
                for a in v.args[1:]:
                    for part in norm(a).split('|'):
                        flags |= getattr(re, part.strip().split('.')[-1], 0)
                consts[st.targets[0].id] = re.compile(v.args[0].value, flags)
    nic = next((v for k, v in consts.items() if isinstance(v, str) and v == '_NEWLINE_INDENT_COMMENT'), None)
    if nic is None:
        raise AnalysisError('POSTLEX-BLOCK: the line-start token type constant was not found in PostLex')

    class Interp(possem.PosInterp):
        tag = 'POSTLEX-BLOCK'

        def expr(self, e: Any, env: dict) -> Any:                 # type: ignore[override]
            if isinstance(e, ast.Call):
                fname = norm(e.func)
                if fname.endswith('Token.new_borrow_pos') and len(e.args) == 3:
                    a = [self.expr(x, env) for x in e.args]
                    return possem.Obj('LarkToken', {'type': a[0], 'value': a[1]}, f'{a[0]}')
                if fname in ('lark.Token', 'Token') and len(e.args) >= 2:
                    a = [self.expr(x, env) for x in e.args]
                    return possem.Obj('LarkToken', {'type': a[0], 'value': a[1]}, f'{a[0]}')
                # a helper of the class itself (method, static or class method)
                if isinstance(e.func, ast.Attribute) and isinstance(e.func.value, ast.Name) and (e.func.value.id in ('cls', cls.name) or
                                                                                                 isinstance(env.get(e.func.value.id), possem.Obj) and env[e.func.value.id].cls == 'PostLex'):
                    h = cls.lookup(e.func.attr)
                    if isinstance(h, FuncInfo):
                        a = [self.expr(x, env) for x in e.args]
                        kw = {k.arg: self.expr(k.value, env) for k in e.keywords if k.arg}
                        recv = env.get(e.func.value.id)
                        if h.kind == 'staticmethod':
                            return self.call_function(h, a, kw)
                        return self.call_function(h, [recv if isinstance(recv, possem.Obj) else me_obj[0]] + a, kw)
            return super().expr(e, env)

    me_obj: list = [None]

    def line(nl: bool, ind: bool, com: bool) -> str:
        return ('\n' if nl else '') + ('  ' if ind else '') + ('; c' if com else '')

    shapes = [(nl, ind, com) for nl in (False, True) for ind in (False, True) for com in (False, True) if nl or ind or com]
    problem = None
    n = 0
    for k in range(1, 4):
        for lines in itertools.product(shapes, repeat=k):
            for content_after in itertools.product((False, True), repeat=k):
                stream: list = []
                for (nl, ind, com), ca in zip(lines, content_after):
                    stream.append(possem.Obj('LarkToken', {'type': nic, 'value': line(nl, ind, com)}, 'line-start'))
                    if ca and not com:
                        stream.append(possem.Obj('LarkToken', {'type': 'ACCOUNT', 'value': 'Assets:A'}, 'content'))
                me = possem.Obj('PostLex', dict(consts), 'postlex')
                me_obj[0] = me
                it = Interp(ts, [], module=m)
                n += 1
                try:
                    out = it.call_function(fn, [me, possem._It(stream)], {})
                except possem.Raised as ex:
                    problem = problem or f'raises {ex}'
                    continue
                marks = [t.f['type'] for t in out if isinstance(t, possem.Obj) and t.f.get('type') in ('INDENT_MARK', 'DEDENT_MARK')]
                # reference: the indentation of the lines alone decides
                want: list[str] = []
                ind_state = False
                for (nl, ind, com) in lines:
                    if not ind and ind_state:
                        ind_state = False
                        want.append('DEDENT_MARK')
                    if ind and not ind_state:
                        ind_state = True
                        want.append('INDENT_MARK')
                if ind_state:
                    want.append('DEDENT_MARK')
                if marks != want and problem is None:
                    show = ' / '.join(('newline ' if nl else '') + ('indent ' if ind else '') + ('comment' if com else ('content' if ca else '')) for (nl, ind, com), ca in zip(lines, content_after))
                    problem = (f'for the lines [{show}] the block marks are {marks}, the indentation of the lines gives {want}: a comment-only '
                               f'indented line does not open (or an unindented line does not close) the block it belongs to, so the comment is '
                               f'attributed across indentation classes')
    if n < 500:
        raise AnalysisError(f'POSTLEX-BLOCK: only {n} streams evaluated')
    ctx.check(problem is None, rid, 'parser:PostLex.process', 'blocks follow indentation', problem or '', fn.where, note=f'{n} token streams')


# ====================================================================== FLAG-WRITERS (added in round 7)
def rule_flag_writers(ctx: RuleContext, p: Program, rid: str) -> None:
    ctx.rule(rid, 'the `claimed` flag of a block comment is written only where ownership really changes: set to True by the claim paths (which '
                  'store the comment in an owner slot / item list), cleared by the unclaim paths (which take it out of the slot while it stays in '
                  'the document), cleared by the parser for a comment of a gap, and kept by the token\'s own constructor / setter / clone.  Any '
                  'other writer -- a pop, an insert, a copy -- makes the flag disagree with the owner it is the only record of: a comment that is '
                  'an item of a field but reads "free" is claimed a second time by its neighbour')
    n = 0
    for m in p.modules.values():
        if m.name.endswith('_test') or 'modelgen' in m.name or '.generated' in m.name:
            continue
        for fn in p.functions_in(m):
            for a in walk_no_nested(fn.node):
                tgts = a.targets if isinstance(a, ast.Assign) else [a.target] if isinstance(a, (ast.AugAssign, ast.AnnAssign)) else []
                for t in tgts:
                    if not (isinstance(t, ast.Attribute) and t.attr in ('claimed', '_claimed')):
                        continue
                    n += 1
                    val = a.value if isinstance(a, (ast.Assign, ast.AnnAssign)) else None
                    truth = val.value if isinstance(val, ast.Constant) and isinstance(val.value, bool) else None
                    # the token itself: its constructor, the setter of the flag, its clone -- not any other method it may grow
                    own = fn.cls is not None and fn.cls.name == 'BlockComment' and self_attr(t) is not None and fn.name in ('__init__', 'claimed', '_clone')
                    name = fn.name
                    claim_path = name in ('_claim_comment', 'claim') or (name.startswith('claim') and 'unclaim' not in name)
                    unclaim_path = 'unclaim' in name
                    parser_gap = fn.cls is not None and fn.cls.name == 'ModelBuilder'
                    ok = own or (truth is True and claim_path) or (truth is False and (unclaim_path or parser_gap))
                    ctx.check(ok, rid, f'{m.name.split(".", 1)[1]}:{fn.qualname}', norm(a)[:80],
                              f'`{norm(a)[:80]}` in {fn.qualname}: the claimed flag is {"cleared" if truth is False else "set" if truth is True else "written"} '
                              f'outside the claim / unclaim paths -- ownership (a slot, an item list) does not change here, or changes without the '
                              f'other writers knowing: the flag is the only guard against a second owner', f'{m.relpath}:{a.lineno}',
                              note='claim / unclaim path, parser gap, or the token itself', nontrivial=False)
    if n < 5:
        raise AnalysisError(f'FLAG-WRITERS: only {n} writers of the claimed flag found (6 confirmed by hand)')


# ====================================================================== CLAIM-PHASES (added in round 7)
def rule_claim_phases(ctx: RuleContext, p: Program, rid: str) -> None:
    ctx.rule(rid, 'the documented order puts "trailing comment of the model directly above" before "standalone entry": in a model with two repeated '
                  'fields that keep standalone comments (one after the other in the text), the field that comes later must not collect standalone '
                  'comments before the items of the earlier field have had their turn to claim a trailing comment.  auto_claim_comments() of a '
                  'repeated field does both in one go (items first, then the standalone comments around them, outwards up to the model\'s '
                  'limits), so calling it for the later field first lets an empty later field take the comment that follows the last item of '
                  'the earlier one')
    n = 0
    for c in p.tree_model_classes():
        fn = c.attrs.get('auto_claim_comments')
        if not isinstance(fn, FuncInfo):
            continue
        calls = [x for x in walk_no_nested(fn.node) if isinstance(x, ast.Call) and isinstance(x.func, ast.Attribute) and x.func.attr == 'auto_claim_comments'
                 and isinstance(x.func.value, ast.Attribute) and self_attr(x.func.value) and self_attr(x.func.value).endswith('_with_comments')]
        if len(calls) < 2:
            continue
        n += 1
        order = [self_attr(x.func.value) for x in sorted(calls, key=lambda x: (x.lineno, x.col_offset))]
        ctx.fail(rid, f'{c.module.name.split(".", 1)[1]}:{c.name}.auto_claim_comments', 'standalone claims of a later field before trailing claims of an earlier one',
                 f'{c.name}.auto_claim_comments runs {" then ".join(order)}: the first of them (the field that comes later in the text) collects '
                 f'standalone comments outwards -- including, when it has no items, the comment right after the last item of the other field -- '
                 f'before that item can claim it as its trailing comment.  E.g. a transaction with a meta item, an indented comment and no '
                 f'postings: the comment becomes an entry of raw_postings_with_comments, the documented order makes it the meta item\'s trailing '
                 f'comment', fn.where)
    ctx.ok(rid, 'generated and hand-written models', f'{n} model(s) with two repeated fields that keep standalone comments', nontrivial=False)
