"""C20 -- equality means same type, same text, same structure (structural clauses)."""
from __future__ import annotations

import ast

from ..fieldmodel import build_tree_classes, single_return_expr
from ..model import AnalysisError, ClassInfo, CustomProp, FuncInfo, Program, norm, self_attr, walk_no_nested
from ..report import RuleContext
from . import gen, handmodels

EXPLANATION = (
    'Static analysis (AST coverage / sibling agreement). Decides: COVER-EQ (every tree model _eq tests its own class and '
    'compares every child field and data field; attribute coverage for the hand-written Repeated / NumberAddExpr / '
    'NumberMulExpr), EQ-BASE (RawTreeModel.__eq__ is the conjunction of the instance test, token-list equality and _eq, and '
    'no tree model overrides __eq__), EQ-HASH (attributes hashed by a token are a subset of those compared; token classes '
    'override __eq__ and __hash__ only together), EQ-WRAP (wrapper equality is element-wise over zip_longest, so a length '
    'difference is unequal). It does NOT decide equality of two parses or inequality after every single edit as runtime facts.')


def rule_eq_base(ctx: RuleContext, p: Program, rid: str) -> None:
    ctx.rule(rid, 'RawTreeModel.__eq__ == isinstance(other, RawTreeModel) and self.tokens == other.tokens and self._eq(other); '
                  'no tree model class overrides __eq__')
    base = p.cls('RawTreeModel', 'models.base')
    fn = p.method(base, '__eq__', inherited=False)
    other = fn.params[1]
    e = single_return_expr(fn)
    conj = e.values if isinstance(e, ast.BoolOp) and isinstance(e.op, ast.And) else [e]
    texts = [norm(c) for c in conj if c is not None]
    want = {f'isinstance({other}, RawTreeModel)': 'instance test', f'self.tokens == {other}.tokens': 'token-list equality',
            f'self._eq({other})': 'structural comparison'}
    alt = {f'{other}.tokens == self.tokens': f'self.tokens == {other}.tokens'}
    texts = [alt.get(t, t) for t in texts]
    missing = [why for t, why in want.items() if t not in texts]
    ctx.check(not missing, rid, 'models.base:RawTreeModel.__eq__', f'{texts}',
              f'RawTreeModel.__eq__ lacks: {missing} (conjuncts: {texts})', fn.where, note=' and '.join(texts))
    n = 0
    for c in p.tree_model_classes():
        n += 1
        sym = c.attrs.get('__eq__')
        ctx.check(sym is None, rid, f'{c.module.name.split(".", 1)[1]}:{c.name}', '__eq__ override',
                  f'{c.name} overrides __eq__ (the token-text and structure conjunction of RawTreeModel.__eq__ can be lost)',
                  c.where, note='inherits RawTreeModel.__eq__', nontrivial=False)
    if n < 40:
        raise AnalysisError(f'EQ-BASE: only {n} tree model classes seen')


def _self_reads(fn: FuncInfo, who: str = 'self') -> set[str]:
    out: set[str] = set()
    for n in walk_no_nested(fn.node):
        if isinstance(n, ast.Attribute):
            if isinstance(n.value, ast.Name) and n.value.id == who:
                out.add(n.attr)
            # type(self).RULE
            if isinstance(n.value, ast.Call) and norm(n.value) == f'type({who})':
                out.add(n.attr)
    return out


def rule_eq_hash(ctx: RuleContext, p: Program, rid: str) -> None:
    ctx.rule(rid, 'the attributes hashed by a token model are a subset of those compared by its __eq__; a token class overrides '
                  '__eq__ and __hash__ only together')
    n = 0
    base = p.cls('RawTokenModel', 'models.base')
    for c in [base, *base.all_subclasses()]:
        eq = c.attrs.get('__eq__')
        hs = c.attrs.get('__hash__')
        if eq is None and hs is None:
            continue
        n += 1
        site = f'{c.module.name.split(".", 1)[1]}:{c.name}'
        if not (isinstance(eq, FuncInfo) and isinstance(hs, FuncInfo)):
            ctx.fail(rid, site, '__eq__/__hash__ pair', f'{c.name} overrides only one of __eq__ / __hash__ '
                     f'(equal tokens could hash differently, or __hash__ becomes None)', c.where)
            continue
        hashed = _self_reads(hs)
        compared = _self_reads(eq) & _self_reads(eq, eq.params[1])
        ctx.check(hashed <= compared and bool(hashed), rid, site, f'hashed={sorted(hashed)} compared={sorted(compared)}',
                  f'{c.name}.__hash__ uses {sorted(hashed - compared)} which __eq__ does not compare', hs.where,
                  note=f'hashed {sorted(hashed)} subset of compared {sorted(compared)}')
    if n < 1:
        raise AnalysisError('EQ-HASH: RawTokenModel.__eq__/__hash__ not found')


def rule_eq_text(ctx: RuleContext, p: Program, rid: str) -> None:
    ctx.rule(rid, 'every __eq__ defined in the token-model hierarchy (base classes included) compares the raw text of both sides: two tokens '
                  'are equal only if they read the same, so two spellings of one value ("2000/01/01" and "2000-01-01", "1.0" and "1.00") '
                  'are different tokens and models that contain them are different models')
    n = 0
    base = p.cls('RawTokenModel', 'models.base')
    seen: set[int] = set()
    for c in [base, *base.all_subclasses()]:
        eq = c.lookup('__eq__')                     # whatever class of the MRO supplies it (mixins included)
        if not isinstance(eq, FuncInfo) or id(eq) in seen:
            continue
        seen.add(id(eq))
        n += 1
        owner = eq.cls or c
        compared = _self_reads(eq) & _self_reads(eq, eq.params[1])
        delegates = any(isinstance(x, ast.Call) and norm(x.func) == 'super().__eq__' for x in ast.walk(eq.node))
        ok = bool(compared & {'raw_text', '_raw_text'}) or delegates
        ctx.check(ok, rid, f'{owner.module.name.split(".", 1)[1]}:{owner.name}.__eq__', f'compares {sorted(compared)}',
                  f'{owner.name}.__eq__ (used by {c.name}) compares {sorted(compared)} but not the raw text: tokens with different text and the same '
                  f'derived value compare equal, and through the token-list comparison of RawTreeModel.__eq__ so do whole models whose printed '
                  f'text differs', eq.where, note=f'compares {sorted(compared)}')
    if n < 1:
        raise AnalysisError('EQ-TEXT: no token __eq__ found')


def rule_eq_wrap(ctx: RuleContext, p: Program, rid: str) -> None:
    ctx.rule(rid, 'wrapper __eq__ is isinstance(other, Collection) and all(a == b for a, b in zip_longest(self, other))')
    n = 0
    for c in p.classes:
        if not c.has_external_base('MutableSequence') or '__eq__' not in c.attrs:
            continue
        fn = c.attrs['__eq__']
        if not isinstance(fn, FuncInfo):
            continue
        n += 1
        other = fn.params[1]
        e = single_return_expr(fn)
        conj = e.values if isinstance(e, ast.BoolOp) and isinstance(e.op, ast.And) else [e]
        inst = any(isinstance(x, ast.Call) and norm(x.func) == 'isinstance' and norm(x.args[0]) == other for x in conj)
        elem = False
        for x in conj:
            if isinstance(x, ast.Call) and norm(x.func) == 'all' and x.args and isinstance(x.args[0], (ast.GeneratorExp, ast.ListComp)):
                g = x.args[0].generators[0]
                it = g.iter
                if isinstance(it, ast.Call) and norm(it.func).endswith('zip_longest') and \
                        sorted(norm(a) for a in it.args) == sorted(['self', other]) and isinstance(g.target, ast.Tuple):
                    a, b = (norm(t) for t in g.target.elts)
                    cmp_ = x.args[0].elt
                    if isinstance(cmp_, ast.Compare) and isinstance(cmp_.ops[0], ast.Eq) and \
                            sorted([norm(cmp_.left), norm(cmp_.comparators[0])]) == sorted([a, b]) and not g.ifs:
                        elem = True
        ctx.check(inst and elem, rid, f'{c.module.name.split(".", 1)[1]}:{c.name}.__eq__', norm(e)[:160] if e else '',
                  f'{c.name}.__eq__ is not an element-wise zip_longest comparison (a plain zip would call a prefix equal)',
                  fn.where, note='instance test and zip_longest element-wise comparison')
    if n < 2:
        raise AnalysisError(f'EQ-WRAP: only {n} wrapper __eq__ found (2 confirmed by hand)')


def run(ctx: RuleContext, p: Program) -> None:
    tcs = build_tree_classes(p)
    ctx.try_rule(gen.rule_cover_eq, p, tcs, 'COVER-EQ')
    ctx.require_min('COVER-EQ', 34)
    ctx.try_rule(handmodels.rule_hand_eq, p, 'COVER-EQ')
    ctx.try_rule(rule_eq_base, p, 'EQ-BASE')
    ctx.try_rule(rule_eq_hash, p, 'EQ-HASH')
    ctx.try_rule(rule_eq_text, p, 'EQ-TEXT')
    ctx.try_rule(rule_eq_wrap, p, 'EQ-WRAP')
    from . import round4
    ctx.try_rule(round4.rule_eq_shape, p, 'EQ-SHAPE')
    ctx.try_rule(round4.rule_id_cmp, p, 'ID-CMP')
    ctx.not_decided += ['equality of two parses of one text (runtime)', 'inequality after every single edit (runtime)',
                        'symmetry for mixed token/tree comparisons']
    ctx.assumptions += ['list/tuple == is element-wise', 'a zero-width placeholder carries no text or structure']
