"""C10 -- all views of a repeated field stay consistent (structural clauses)."""
from __future__ import annotations

import ast
from typing import Any, Iterable, Optional

from .. import linear
from ..model import AnalysisError, External, FuncInfo, Program, dotted, norm, self_attr, stmts_no_doc, walk_no_nested
from ..report import RuleContext
from ..walker import Walker
from . import repwrap as R

EXPLANATION = (
    'Static analysis of the repeated-field wrappers (AST, path walker, sign analysis, linear normal forms). Decides: '
    'NOTIFY-POST (every method that mutates Repeated.items notifies the registered views afterwards on every normal '
    'path), NOTIFY-ARGS (the (l, r, values) of each splice notification describe the list mutation made in the same '
    'method), SIGN-IDX (positions handed to the views are non-negative-normalised, since the views bisect on them), '
    'OWN-IDX (the filtered index list is bound once, shared with its update handler and only mutated in place by it), '
    'HANDLER-FORM (handle_splice replaces exactly bisect_left(l)..bisect_left(r), inserts l+i for matching values and '
    'shifts the tail by len(values)-(r-l); handle() recomputes from scratch with the same filter), VIEW-READ (reads of the '
    'filtered views go through _raw_indexes into the raw wrapper). It does NOT decide list/dict semantics of every '
    'index, slice and key, nor first-match behaviour of the mapping view.')


def rule_notify_post(ctx: RuleContext, p: Program, rid: str) -> list[tuple[FuncInfo, set[str]]]:
    ctx.rule(rid, 'every method that mutates Repeated.items calls _notify() or _notify_splice(...) after the mutation on '
                  'every normal path')
    fns = R.functions_mutating_items(p)
    for fn, ra in fns:
        n_mut = [0]

        def transfer(s: str, ev: tuple[Any, ...]) -> Iterable[str]:
            if R.items_mutation(ev, ra):
                n_mut[0] += 1
                return ['pending']
            if ev[0] == 'eval' and isinstance(ev[1], ast.Call) and isinstance(ev[1].func, ast.Attribute) \
                    and self_attr(ev[1].func) in ('_notify', '_notify_splice'):
                return ['clean']
            return [s]

        out = Walker(transfer).run(stmts_no_doc(fn.node.body), ['clean'])
        bad = 'pending' in (out.normal | out.returned)
        ctx.check(not bad, rid, f'{fn.module.name.split(".", 1)[1]}:{fn.qualname}', 'items mutated, views not notified',
                  f'{fn.qualname} mutates the raw item list and can return without notifying the filtered/converted views '
                  f'(their index tables go stale)', fn.where, note=f'{n_mut[0]} mutation events, notified on all paths')
    if len(fns) < 6:
        raise AnalysisError(f'NOTIFY-POST: only {len(fns)} methods mutating Repeated.items found (9 on the confirmed tree; a floor of 6 tolerates mutators that delegate to others)')
    return fns


def _notify_calls(fn: FuncInfo) -> list[ast.Call]:
    return [n for n in walk_no_nested(fn.node) if isinstance(n, ast.Call) and isinstance(n.func, ast.Attribute)
            and self_attr(n.func) == '_notify_splice']


def rule_notify_args(ctx: RuleContext, p: Program, fns: list[tuple[FuncInfo, set[str]]], rid: str) -> None:
    ctx.rule(rid, 'the (l, r, values) of each _notify_splice describe the items mutation of the same branch: '
                  'items[i]=v <-> (i, i+1, [v]); items[slice(r)]=vs <-> (r.start, r.stop, vs); insert(i, v) <-> (i, i, [v]); '
                  'append/extend <-> (len_before, len_before, [v]|vs); pop(i) <-> (lo, lo+1, []) with lo the normalised i')
    n = 0
    for fn, ra in fns:
        # pair each notification with the closest preceding mutation in the same statement list
        for body in _bodies(fn.node):
            last: Optional[R.ItemsMutation] = None
            for st in body:
                for ev in _events(st):
                    m = R.items_mutation(ev, ra)
                    if m:
                        last = m
                if isinstance(st, ast.Expr) and isinstance(st.value, ast.Call) and st.value in _notify_calls(fn):
                    call = st.value
                    n += 1
                    site = f'{fn.module.name.split(".", 1)[1]}:{fn.qualname}'
                    if last is None or len(call.args) != 3:
                        ctx.fail(rid, site, norm(call), f'`{norm(call)}` has no items mutation before it in the same block',
                                 fn.where)
                        continue
                    why = _match(fn, last, call, ra)
                    ctx.check(not why, rid, site, f'{norm(last.node)[:80]} ~ {norm(call)}', why, fn.where,
                              note=f'{last.kind} ~ {norm(call)}')
    if n < 4:
        raise AnalysisError(f'NOTIFY-ARGS: only {n} splice notifications found (6 on the confirmed tree; floor 4 tolerates delegation)')


def _bodies(node: ast.AST) -> Iterable[list[ast.stmt]]:
    for n in walk_no_nested(node):
        for attr in ('body', 'orelse', 'finalbody'):
            b = getattr(n, attr, None)
            if isinstance(b, list) and b and isinstance(b[0], ast.stmt):
                yield b


def _events(st: ast.stmt) -> list[tuple[Any, ...]]:
    evs: list[tuple[Any, ...]] = []
    if isinstance(st, (ast.If, ast.For, ast.While, ast.With, ast.Try)):
        return evs   # nested blocks are handled as their own bodies
    def tr(s: int, ev: tuple[Any, ...]) -> Iterable[int]:
        evs.append(ev)
        return [s]
    Walker(tr).run([st], [0])
    return evs


def _len_before_names(fn: FuncInfo, ra: set[str]) -> set[str]:
    out = set()
    for n in walk_no_nested(fn.node):
        if isinstance(n, ast.Assign) and isinstance(n.targets[0], ast.Name) and isinstance(n.value, ast.Call) \
                and norm(n.value.func) == 'len' and n.value.args and R.items_of(n.value.args[0], ra):
            out.add(n.targets[0].id)
    return out


def _resolve_alias(fn: FuncInfo, e: ast.AST) -> str:
    if isinstance(e, ast.Name):
        src = [a for a in walk_no_nested(fn.node) if isinstance(a, ast.Assign) and norm(a.targets[0]) == e.id]
        if len(src) == 1:
            return norm(src[0].value)
    return norm(e)


def _match(fn: FuncInfo, m: R.ItemsMutation, call: ast.Call, ra: set[str]) -> str:
    l, r, vals = call.args
    lens = _len_before_names(fn, ra)
    if m.kind == 'setitem':
        i, v = m.args
        if not linear.same(l, i) or not linear.same(r, ast.BinOp(left=i, op=ast.Add(), right=ast.Constant(1))):
            return f'items[{norm(i)}] = ... is announced as range ({norm(l)}, {norm(r)})'
        if not (isinstance(vals, ast.List) and len(vals.elts) == 1 and norm(vals.elts[0]) == norm(v)):
            return f'items[{norm(i)}] = {norm(v)} is announced with values {norm(vals)}'
        return ''
    if m.kind == 'setslice':
        sl, v = m.args
        rng = None
        if isinstance(sl, ast.Call) and sl.args and isinstance(sl.args[0], ast.Name):
            rng = sl.args[0].id
        if rng is None:
            return f'slice {norm(sl)} not understood'
        r_src = _resolve_alias(fn, r)
        if norm(l) != f'{rng}.start' or r_src not in (f'{rng}.stop', f'max({rng}.start, {rng}.stop)', f'max({rng}.stop, {rng}.start)'):
            return f'items[{norm(sl)}] = ... is announced as range ({norm(l)}, {r_src}), expected ({rng}.start, {rng}.stop)'
        if norm(vals) != norm(v):
            return f'announced values {norm(vals)} differ from assigned {norm(v)}'
        return ''
    if m.kind == 'insert':
        i, v = m.args
        if not (linear.same(l, i) and linear.same(r, i)):
            return f'insert({norm(i)}, ...) is announced as range ({norm(l)}, {norm(r)})'
        if not (isinstance(vals, ast.List) and len(vals.elts) == 1 and norm(vals.elts[0]) == norm(v)):
            return f'insert of {norm(v)} announced with values {norm(vals)}'
        return ''
    if m.kind in ('append', 'extend'):
        v = m.args[0]
        if not (isinstance(l, ast.Name) and l.id in lens and norm(r) == norm(l)):
            return f'{m.kind} is announced at ({norm(l)}, {norm(r)}), expected the length before the mutation'
        # the length must have been taken before the mutation: it is (assigned once, before)
        if m.kind == 'append' and not (isinstance(vals, ast.List) and len(vals.elts) == 1 and norm(vals.elts[0]) == norm(v)):
            return f'append of {norm(v)} announced with values {norm(vals)}'
        if m.kind == 'extend' and norm(vals) != norm(v):
            return f'extend with {norm(v)} announced with values {norm(vals)}'
        return ''
    if m.kind == 'pop':
        if not (isinstance(vals, ast.List) and not vals.elts):
            return f'pop announced with values {norm(vals)}'
        if isinstance(l, ast.Attribute) and l.attr == 'start' and isinstance(r, ast.Attribute) and r.attr == 'stop' \
                and norm(l.value) == norm(r.value):
            rng = norm(l.value)
            src = [n for n in walk_no_nested(fn.node) if isinstance(n, ast.Assign) and norm(n.targets[0]) == rng
                   and isinstance(n.value, ast.Call) and (dotted(n.value.func) or '').endswith('range_from_index')]
            if src and m.args and norm(src[0].value.args[0]) == norm(m.args[0]):  # type: ignore[union-attr]
                return ''
            return f'pop({norm(m.args[0]) if m.args else ""}) announced with range {rng} not derived from the same index'
        i = m.args[0] if m.args else None
        if i is not None and linear.same(l, i) and linear.same(r, ast.BinOp(left=i, op=ast.Add(), right=ast.Constant(1))):
            return ''
        return f'pop announced as ({norm(l)}, {norm(r)})'
    return f'mutation kind {m.kind} cannot be described by a splice notification'


def rule_sign_idx(ctx: RuleContext, p: Program, fns: list[tuple[FuncInfo, set[str]]], rid: str) -> None:
    ctx.rule(rid, 'the l and r given to _notify_splice are non-negative-normalised on every path (len(...), r.start/r.stop of '
                  'range_from_index, max(0, ...), range(n)[i], or guarded by `< 0`); a raw index parameter is not')
    n = 0
    for fn, ra in fns:
        calls = _notify_calls(fn)
        if not calls:
            continue
        ranges = R.range_names(fn)
        step = R.sign_transfer(ranges)
        bad: dict[str, str] = {}

        def transfer(s: frozenset[str], ev: tuple[Any, ...]) -> Iterable[frozenset[str]]:
            if ev[0] == 'eval' and ev[1] in calls:
                for a in ev[1].args[:2]:
                    if not R.nonneg(a, s, ranges):
                        bad[norm(ev[1])] = norm(a)
            return [step(s, ev)]

        Walker(transfer).run(stmts_no_doc(fn.node.body), [frozenset()])
        for c in calls:
            n += 1
            k = norm(c)
            ctx.check(k not in bad, rid, f'{fn.module.name.split(".", 1)[1]}:{fn.qualname}', k,
                      f'`{k}`: position `{bad.get(k)}` can be negative (raw Python index); the filtered views bisect on it and '
                      f'record wrong indexes', fn.where, note='non-negative on all paths')
    if n < 4:
        raise AnalysisError(f'SIGN-IDX: only {n} notification sites (6 on the confirmed tree; floor 4 tolerates delegation)')


def rule_notify_order(ctx: RuleContext, p: Program, fns: list[tuple[FuncInfo, set[str]]], rid: str) -> None:
    ctx.rule(rid, 'every _notify_splice(l, r, values) announces an ordered range l <= r: r - l is a non-negative constant, or r is '
                  'max(l, ...), or (rng.start, rng.stop) of a range built from an *int* index; a range built from a slice can be empty '
                  'with start > stop (a[4:2] = [x] inserts at 4) and the views compute len(values) - (r - l)')
    n = 0
    for fn, ra in fns:
        for c in _notify_calls(fn):
            n += 1
            l, r = c.args[0], c.args[1]
            env = {a.targets[0].id: a.value for a in walk_no_nested(fn.node)
                   if isinstance(a, ast.Assign) and isinstance(a.targets[0], ast.Name)}
            rr: ast.AST = r
            if isinstance(rr, ast.Name) and rr.id in env and not isinstance(l, ast.Name):
                rr = env[rr.id]
            elif isinstance(rr, ast.Name) and rr.id in env and norm(l) != rr.id:
                rr = env[rr.id]
            ok = False
            why = ''
            d = linear.linear(ast.BinOp(left=rr, op=ast.Sub(), right=l))
            if not d[0] and d[1] >= 0:
                ok = True
            elif isinstance(rr, ast.Call) and norm(rr.func) == 'max' and any(norm(a) == norm(l) for a in rr.args):
                ok = True
            elif isinstance(l, ast.Attribute) and isinstance(rr, ast.Attribute) and l.attr == 'start' and rr.attr == 'stop' \
                    and norm(l.value) == norm(rr.value) and isinstance(l.value, ast.Name):
                src = env.get(l.value.id)
                ix = src.args[0] if isinstance(src, ast.Call) and (dotted(src.func) or '').endswith('range_from_index') and src.args else None
                ann = {a.arg: norm(a.annotation) for a in fn.node.args.args if a.annotation is not None}
                if isinstance(ix, ast.Name) and ann.get(ix.id) == 'int':
                    ok = True
                else:
                    why = f'{norm(l.value)} comes from a slice: it may be empty with start > stop'
            ctx.check(ok, rid, f'{fn.module.name.split(".", 1)[1]}:{fn.qualname}', norm(c),
                      f'`{norm(c)}`: the announced range is not provably ordered ({why or "r - l is not a non-negative constant"}); for '
                      f'a[4:2] = [x] the views shift by len(values) - (r - l) with r < l and lose track of their items', fn.where,
                      note='l <= r')
    if n < 4:
        raise AnalysisError(f'NOTIFY-ORDER: only {n} notification sites')


def rule_own_idx(ctx: RuleContext, p: Program, rid: str) -> None:
    ctx.rule(rid, '_raw_indexes is bound once in RepeatedValueWrapper.__init__, the same list object is handed to the update '
                  'handler, and afterwards it is only mutated in place by the handler')
    vw = p.cls('RepeatedValueWrapper', 'models.internal.value_properties')
    hd = p.cls('_RepeatedValueWrapperUpdateHandler', 'models.internal.value_properties')
    binds = 0
    # the names under which the one list is held: the wrapper's attribute, and the handler's (an assignment in a hand-written __init__, or
    # the field of a dataclass -- whose synthesised __init__ is the constructor binding)
    names = {'_raw_indexes'}
    init0 = p.method(vw, '__init__', inherited=False)
    hd_is_dc = any('dataclass' in norm(d) for d in hd.node.decorator_list)
    hd_fields = [st.target.id for st in hd.node.body if isinstance(st, ast.AnnAssign) and isinstance(st.target, ast.Name)]
    hd_init = hd.attrs.get('__init__')
    for c in walk_no_nested(init0.node):
        if isinstance(c, ast.Call) and norm(c.func).endswith('_RepeatedValueWrapperUpdateHandler'):
            for pos, a in enumerate(c.args):
                if norm(a) == 'self._raw_indexes':
                    if hd_is_dc and not isinstance(hd_init, FuncInfo) and pos < len(hd_fields):
                        names.add(hd_fields[pos])
                        binds += 1
                    elif isinstance(hd_init, FuncInfo) and pos + 1 < len(hd_init.params):
                        par = hd_init.params[pos + 1]
                        for st in walk_no_nested(hd_init.node):
                            if isinstance(st, ast.Assign) and isinstance(st.value, ast.Name) and st.value.id == par \
                                    and isinstance(st.targets[0], ast.Attribute):
                                names.add(st.targets[0].attr)
            for k in c.keywords:
                if norm(k.value) == 'self._raw_indexes' and k.arg:
                    if hd_is_dc and not isinstance(hd_init, FuncInfo) and k.arg in hd_fields:
                        names.add(k.arg)
                        binds += 1
    for m in p.modules.values():
        for fn in p.functions_in(m):
            for n in walk_no_nested(fn.node):
                tgts: list[ast.AST] = []
                if isinstance(n, ast.Assign):
                    tgts = list(n.targets)
                elif isinstance(n, ast.AugAssign):
                    tgts = [n.target]
                elif isinstance(n, ast.Delete):
                    tgts = list(n.targets)
                elif isinstance(n, ast.Call) and isinstance(n.func, ast.Attribute) and n.func.attr in R.LIST_MUTATORS \
                        and isinstance(n.func.value, ast.Attribute) and n.func.value.attr in names:
                    tgts = [ast.Subscript(value=n.func.value, slice=ast.Constant(0), ctx=ast.Store())]
                for t in tgts:
                    base = t
                    inplace = False
                    while isinstance(base, ast.Subscript):
                        base = base.value
                        inplace = True
                    if not (isinstance(base, ast.Attribute) and base.attr in names):
                        continue
                    site = f'{m.name.split(".", 1)[1]}:{fn.qualname}'
                    if not inplace:
                        ok = fn.name == '__init__' and fn.cls in (vw, hd)
                        binds += 1
                        ctx.check(ok, rid, site, norm(n)[:100], f'`{norm(n)[:100]}` rebinds _raw_indexes outside a constructor: '
                                  f'wrapper and handler would stop sharing one list', fn.where, note='constructor binding')
                    else:
                        ok = fn.cls is hd
                        ctx.check(ok, rid, site, norm(n)[:100], f'`{norm(n)[:100]}` mutates _raw_indexes outside the update handler',
                                  fn.where, note='in-place update by the handler')
    # same object shared
    init = p.method(vw, '__init__', inherited=False)
    shared = any(isinstance(c, ast.Call) and norm(c.func).endswith('_RepeatedValueWrapperUpdateHandler')
                 and any(norm(a) == 'self._raw_indexes' for a in [*c.args, *[k.value for k in c.keywords]])
                 for c in walk_no_nested(init.node))
    reg = any(isinstance(c, ast.Call) and isinstance(c.func, ast.Attribute) and c.func.attr == 'register_update_handler'
              for c in walk_no_nested(init.node))
    # (that the handler really shares the list and is registered is decided by VIEW-LIVE, which interprets the constructor; the textual
    # clause that stood here fired on `raw_indexes = [...]; self._raw_indexes = raw_indexes; Handler(..., raw_indexes)`)
    _ = (shared, reg)
    if binds < 2:
        raise AnalysisError('OWN-IDX: constructor bindings of _raw_indexes not found')


def _handle_splice_sem(p: Program, hd: Any, fn: Any) -> tuple[str, int]:
    import itertools
    import bisect as _bisect
    from . import possem
    from .tokenstore import TS
    ts = TS(p)
    m = p.module('models.internal.value_properties')

    class Interp(possem.PosInterp):
        tag = 'HANDLER-FORM'

        def instance_of(self, v: Any, cls_expr: Any, env: dict) -> bool:          # type: ignore[override]
            t = self.expr(cls_expr, env)
            return isinstance(v, possem.Obj) and isinstance(t, possem.Obj) and t.cls == 'RawType' and v.cls == 'Mine'

        def expr(self, e: Any, env: dict) -> Any:                 # type: ignore[override]
            if isinstance(e, ast.Call):
                fname = norm(e.func)
                if fname == 'isinstance' and len(e.args) == 2:
                    return self.instance_of(self.expr(e.args[0], env), e.args[1], env)
                if fname in ('bisect.bisect_left', 'bisect_left', 'bisect.bisect_right', 'bisect_right', 'bisect.bisect') and len(e.args) == 2:
                    lst, x = self.expr(e.args[0], env), self.expr(e.args[1], env)
                    if not isinstance(lst, list) or not isinstance(x, int) or not all(isinstance(y, int) for y in lst):
                        raise self.err(e, 'bisect over something that is not a list of integers')
                    return (_bisect.bisect_left if fname.endswith('bisect_left') else _bisect.bisect_right)(lst, x)
            return super().expr(e, env)

    cases = 0
    for n in range(0, 5):
        for kinds in itertools.product('MO', repeat=n):
            for l in range(0, n + 1):
                for r in range(l, n + 1):
                    for k in range(0, 3):
                        for new_kinds in itertools.product('MO', repeat=k):
                            old = [possem.Obj('Mine' if ch == 'M' else 'Other', {}, f'old{i}') for i, ch in enumerate(kinds)]
                            new = [possem.Obj('Mine' if ch == 'M' else 'Other', {}, f'new{i}') for i, ch in enumerate(new_kinds)]
                            after = old[:l] + new + old[r:]
                            idx = [i for i, o in enumerate(old) if o.cls == 'Mine']
                            me = possem.Obj(hd.name, {'_raw_wrapper': after, '_raw_type': possem.Obj('RawType', {}, 'type'), '_raw_indexes': idx}, 'handler')
                            cases += 1
                            try:
                                Interp(ts, [], module=m).call_function(fn, [me, l, r, list(new)], {})
                            except possem.Raised as ex:
                                return f'raw list {"".join(kinds) or "-"}, [{l}:{r}] := {"".join(new_kinds) or "-"}: raises {ex}', cases
                            want = [i for i, o in enumerate(after) if o.cls == 'Mine']
                            got = me.f['_raw_indexes']
                            if got is not idx:
                                return 'the index list is rebound instead of being updated in place (the view holds the old list)', cases
                            if got != want:
                                return (f'raw list {"".join(kinds) or "-"} (M = an item of the view\'s type, O = another one), range [{l}:{r}] replaced by '
                                        f'{"".join(new_kinds) or "nothing"}: _raw_indexes becomes {got}, the view\'s items now sit at {want}'), cases
    return '', cases


def rule_handler_form(ctx: RuleContext, p: Program, rid: str) -> None:
    ctx.rule(rid, 'handle_splice(l, r, values), interpreted over every raw list of up to 4 items, every range and every replacement of up to 2 '
                  'items: afterwards _raw_indexes (updated in place) lists exactly the positions of the items of the view\'s type in the new raw '
                  'list; handle(): recomputes the list with the same isinstance filter as the wrapper constructor')
    hd = p.cls('_RepeatedValueWrapperUpdateHandler', 'models.internal.value_properties')
    fn = p.method(hd, 'handle_splice', inherited=False)
    site = 'models.internal.value_properties:_RepeatedValueWrapperUpdateHandler.handle_splice'
    problem, cases = _handle_splice_sem(p, hd, fn)
    ctx.check(not problem, rid, site, problem or 'ok',
              f'handle_splice, interpreted for every raw list of up to 4 items (of the view\'s type or not), every replaced range [l, r) and every '
              f'replacement of up to 2 items: {problem}', fn.where, note=f'{cases} (list, range, replacement) cases: _raw_indexes afterwards lists exactly '
                                                                     f'the positions of the view\'s items in the new raw list')
    # handle(): full recomputation with the same filter as the constructor
    h = p.method(hd, 'handle', inherited=False)
    vw = p.cls('RepeatedValueWrapper', 'models.internal.value_properties')
    init = p.method(vw, '__init__', inherited=False)
    def comp_of(f: FuncInfo) -> Optional[ast.ListComp]:
        for n in walk_no_nested(f.node):
            if isinstance(n, ast.Assign) and isinstance(n.value, ast.ListComp) and '_raw_indexes' in norm(n.targets[0]):
                return n.value
        return None
    c1, c2 = comp_of(h), comp_of(init)
    def shape(c: Optional[ast.ListComp]) -> Optional[tuple[str, ...]]:
        if c is None or len(c.generators) != 1:
            return None
        g = c.generators[0]
        if not (isinstance(g.iter, ast.Call) and norm(g.iter.func) == 'enumerate' and isinstance(g.target, ast.Tuple)):
            return None
        i, v = norm(g.target.elts[0]), norm(g.target.elts[1])
        return (norm(g.iter.args[0]), 'elt=index' if norm(c.elt) == i else f'elt={norm(c.elt)}',
                *[norm(x).replace(v, '<item>') for x in g.ifs])
    s1, s2 = shape(c1), shape(c2)
    ctx.check(s1 is not None and s1 == s2 and s1[1] == 'elt=index', rid,
              'models.internal.value_properties:_RepeatedValueWrapperUpdateHandler.handle', f'{s1} vs {s2}',
              f'handle() recomputes {s1} but the constructor computes {s2} (must be the same filter over the raw wrapper, '
              f'yielding positions)', h.where, note=f'{s1}')


def rule_view_read(ctx: RuleContext, p: Program, rid: str) -> None:
    ctx.rule(rid, 'reads of a filtered/converted view (len, iter, getitem) go through _raw_indexes into the raw wrapper and '
                  'convert with _from_raw_type')
    vw = p.cls('RepeatedValueWrapper', 'models.internal.value_properties')
    ln = p.method(vw, '__len__', inherited=False)
    ok = any(isinstance(n, ast.Return) and norm(n.value) == 'len(self._raw_indexes)' for n in walk_no_nested(ln.node))
    ctx.check(ok, rid, 'RepeatedValueWrapper.__len__', 'len(self._raw_indexes)', '__len__ is not len(_raw_indexes)', ln.where)
    for name in ('__iter__', '__getitem__'):
        f = p.method(vw, name, inherited=False)
        comps = [n for n in walk_no_nested(f.node) if isinstance(n, (ast.GeneratorExp, ast.ListComp))]
        good = bool(comps)
        for c in comps:
            g = c.generators[0]
            src = norm(g.iter)
            if not src.startswith('self._raw_indexes'):
                good = False
            if norm(c.elt) != f'self._from_raw_type(self._raw_wrapper[{norm(g.target)}])':
                good = False
        ctx.check(good, rid, f'RepeatedValueWrapper.{name}', 'through _raw_indexes and _from_raw_type',
                  f'{name} does not read self._raw_wrapper[i] for i in self._raw_indexes through _from_raw_type', f.where)


def run(ctx: RuleContext, p: Program) -> None:
    fns = rule_notify_post(ctx, p, 'NOTIFY-POST')
    ctx.try_rule(rule_notify_args, p, fns, 'NOTIFY-ARGS')
    ctx.try_rule(rule_sign_idx, p, fns, 'SIGN-IDX')
    ctx.try_rule(rule_notify_order, p, fns, 'NOTIFY-ORDER')
    ctx.try_rule(rule_own_idx, p, 'OWN-IDX')
    # HANDLER-FORM (handle_splice on mock handler objects addressed by attribute name, handle() by shape) is replaced by VIEW-LIVE, which
    # interprets the whole registration / notification chain and reads the views through their own methods
    from . import viewlive
    ctx.try_rule(viewlive.rule_view_live, p, 'VIEW-LIVE', 2 if ctx.tier == 'quick' else 3)
    ctx.try_rule(viewlive.rule_alias_rebind, p, 'ALIAS-REBIND')
    ctx.try_rule(rule_view_read, p, 'VIEW-READ')
    ctx.try_rule(rule_view_write, p, 'VIEW-WRITE')
    ctx.try_rule(rule_view_sem, p, 'VIEW-SEM', 3 if ctx.tier == 'quick' else 5)
    ctx.try_rule(rule_view_snapshot, p, 'VIEW-SNAPSHOT')
    # the raw list is one of the views: it answers as a Python list of its items does (items of equal content included)
    from . import nodesem as _ns
    ctx.try_rule(_ns.rule_node_sem, p, 'NODE-SEM', 3 if ctx.tier == 'quick' else 4)
    from . import descsem as _ds
    ctx.try_rule(_ds.rule_desc_sem, p, 'DESC-SEM')
    ctx.try_rule(rule_cache_dep, p, 'CACHE-DEP')
    ctx.try_rule(rule_map_first, p, 'MAP-FIRST')
    from . import idxspace
    ctx.try_rule(idxspace.rule_idx_space, p, 'IDX-SPACE')
    from . import round4
    ctx.try_rule(round4.rule_memo, p, 'MEMO')
    ctx.try_rule(round4.rule_desc_state, p, 'DESC-STATE')
    ctx.try_rule(round4.rule_id_cmp, p, 'ID-CMP')
    from . import presence
    ctx.try_rule(presence.rule_presence_truth, p, 'PRESENCE-TRUTH')
    from . import round4 as _r4
    ctx.try_rule(_r4.rule_iter_once, p, 'ITER-ONCE')
    ctx.not_decided += ['Python list semantics for every index / slice of each view', 'ordered-dict / first-match semantics of '
                        'the meta mapping view', 'MutableSequence mixin methods inherited from collections.abc']
    ctx.assumptions += ['bisect_left on a sorted list of distinct positions', 'range_from_index returns a range inside [0, n] '
                        '(step-1 use guarded by the caller)', 'collections.abc mixin methods are built from the primitives checked here']


def rule_view_write(ctx: RuleContext, p: Program, rid: str) -> None:
    ctx.rule(rid, 'drop_many, the raw primitive the views delete through, interpreted over every set of positions of lists of up to 5 items: it '
                  'deletes the token ranges of the maximal runs of consecutive positions from the highest down while the positions are still '
                  'valid, then refilters the items by position, then notifies (how the views address the raw list is VIEW-SEM\'s and '
                  'IDX-SPACE\'s business)')
    nw = p.cls('RepeatedNodeWrapper', 'models.internal.properties')
    dm = p.method(nw, 'drop_many', inherited=False)
    problem, cases = _drop_many_sem(p, dm)
    ctx.check(not problem, rid, 'models.internal.properties:RepeatedNodeWrapper.drop_many', problem or 'ok',
              f'drop_many, interpreted over every set of positions of lists of up to 5 items (given in any order): {problem}', dm.where,
              note=f'{cases} (list, positions) cases: token ranges are the maximal runs, highest first, while the item positions are still valid; '
                   f'then the items are refiltered by position; then the views are notified')


def _drop_many_sem(p: Program, dm: Any, refusals: bool = False) -> tuple[str, int]:
    """drop_many interpreted over abstract wrappers: which token ranges it deletes, in which order relative to the item list update and
    the notification, and what the item list holds afterwards.  refusals=True: batches that hold a position beyond the list (which the
    deletion primitive refuses with IndexError) -- nothing may have been deleted when the refusal comes"""
    import itertools
    from . import possem
    from .tokenstore import TS
    ts = TS(p)
    m = p.module('models.internal.properties')

    class Interp(possem.PosInterp):
        tag = 'VIEW-WRITE'

        def __init__(self, me: Any) -> None:
            super().__init__(ts, [], module=m)
            self.me = me
            self.events: list = []

        def expr(self, e: Any, env: dict) -> Any:                 # type: ignore[override]
            if isinstance(e, ast.Call) and isinstance(e.func, ast.Attribute) and isinstance(e.func.value, ast.Name) and env.get(e.func.value.id) is self.me:
                args = [self.expr(a, env) for a in e.args]
                if e.func.attr == '_del_tokens':
                    n_items = len(self.me.f['_repeated'].f['items'])
                    if not (isinstance(args[0], int) and isinstance(args[1], int) and 0 <= args[0] < args[1] <= n_items):
                        raise possem.Raised('IndexError: position beyond the list')
                    self.events.append(('del', args[0], args[1], n_items))
                    return None
                if e.func.attr in ('_notify', '_notify_splice'):
                    self.events.append(('notify', e.func.attr, tuple(args[:2])))
                    return None
            return super().expr(e, env)

    cases = 0
    if refusals:
        for n in range(1, 5):
            for k in range(1, n + 1):
                for sel in itertools.combinations(range(n), k):
                    for beyond in (n, n + 2):
                        for order in (list(sel) + [beyond], [beyond] + list(sel), sorted(sel, reverse=True) + [beyond]):
                            items = [possem.Obj('Item', {}, f'item{i}') for i in range(n)]
                            rep = possem.Obj('Repeated', {'items': list(items)}, 'repeated')
                            me = possem.Obj('RepeatedNodeWrapper', {'_repeated': rep}, 'wrapper')
                            it = Interp(me)
                            cases += 1
                            where_ = f'{n} items, positions {order}'
                            try:
                                it.call_function(dm, [me, list(order)], {})
                                return f'{where_}: position {beyond} does not exist, yet the call is not refused', cases
                            except possem.Raised:
                                pass
                            if any(ev[0] == 'del' for ev in it.events) or [id(x) for x in rep.f['items']] != [id(x) for x in items]:
                                done = [(ev[1], ev[2]) for ev in it.events if ev[0] == 'del']
                                return (f'{where_}: position {beyond} does not exist and the call is refused with IndexError, but the token ranges {done} '
                                        f'have already been deleted (item list {"changed" if len(rep.f["items"]) != n else "unchanged"}): the printed text '
                                        f'lost those items while the tree still lists them'), cases
        return '', cases
    for n in range(0, 6):
        for k in range(0, n + 1):
            for sel in itertools.combinations(range(n), k):
                for order in ([list(sel), list(reversed(sel))] if k > 1 else [list(sel)]):
                    items = [possem.Obj('Item', {}, f'item{i}') for i in range(n)]
                    rep = possem.Obj('Repeated', {'items': list(items)}, 'repeated')
                    me = possem.Obj('RepeatedNodeWrapper', {'_repeated': rep}, 'wrapper')
                    it = Interp(me)
                    cases += 1
                    where_ = f'{n} items, positions {order}'
                    try:
                        it.call_function(dm, [me, list(order)], {})
                    except possem.Raised as ex:
                        return f'{where_}: raises {ex}', cases
                    dels = [ev for ev in it.events if ev[0] == 'del']
                    if any(ev[3] != n for ev in dels):
                        return f'{where_}: a token range is deleted after the item list has changed (positions no longer valid)', cases
                    # expected: maximal runs of consecutive positions, highest run first, as half-open ranges
                    runs: list[tuple[int, int]] = []
                    for i in sorted(sel):
                        if runs and runs[-1][1] == i:
                            runs[-1] = (runs[-1][0], i + 1)
                        else:
                            runs.append((i, i + 1))
                    got = [(ev[1], ev[2]) for ev in dels]
                    covered = sorted(i for a_, b_ in got for i in range(a_, b_))
                    if covered != sorted(sel):
                        return f'{where_}: the deleted token ranges {got} do not cover exactly the given positions', cases
                    if any(got[j][0] < got[j + 1][1] for j in range(len(got) - 1)):
                        return f'{where_}: the token ranges {got} are not deleted from the highest down (a deletion shifts the positions above it)', cases
                    left = rep.f['items']
                    if [id(x) for x in left] != [id(x) for i, x in enumerate(items) if i not in sel]:
                        return f'{where_}: the item list afterwards is not the items at the other positions, in order', cases
                    notes = [j for j, ev in enumerate(it.events) if ev[0] == 'notify']
                    if not notes or (dels and notes[0] < max(j for j, ev in enumerate(it.events) if ev[0] == 'del')):
                        return f'{where_}: the views are not notified after the deletion', cases
    return '', cases


# ====================================================================== VIEW-SNAPSHOT
_MATERIALISE = {'list', 'tuple', 'sorted', 'set', 'frozenset', 'dict'}
_LAZY_WRAP = {'zip', 'enumerate', 'map', 'filter', 'reversed', 'iter', 'itertools.chain', 'itertools.islice', 'itertools.zip_longest', 'cast', 'typing.cast'}
_VIEW_MUTATORS = {'append', 'extend', 'insert', 'pop', 'remove', 'clear', 'drop_many', 'discard', '__setitem__', '__delitem__', 'sort', 'reverse',
                  '_insert_tokens', '_del_tokens', 'splice', 'insert_after', 'insert_before', 'replace'}


def rule_view_snapshot(ctx: RuleContext, p: Program, rid: str) -> None:
    ctx.rule(rid, 'every public mutator of a list-like view that takes an Iterable argument consumes it completely (list / tuple / sorted / '
                  'a comprehension, or hands it -- possibly through a generator -- to another checked mutator as its iterable argument) before it '
                  'writes: the argument may be a live view of the same list (`v[::-1] = v`, `v.extend(v)`), and reads interleaved with the '
                  'writes see half-updated contents')
    views: list[Any] = []
    for m in p.modules.values():
        for c in m.classes:
            if any(isinstance(b, External) and b.qualname.endswith(('MutableSequence', 'MutableMapping', 'MutableSet')) for k in c.mro for b in k.bases):
                views.append(c)
    n = 0
    for c in views:
        for fn in c.methods():
            if fn.kind == 'overload' or (fn.name.startswith('_') and not fn.name.startswith('__')):
                continue
            a = fn.node.args
            lazy0 = {x.arg for x in [*a.posonlyargs, *a.args, *a.kwonlyargs] if x.annotation is not None and 'Iterable' in norm(x.annotation)}
            if not lazy0:
                continue
            n += 1
            site = f'{c.module.name.split(".", 1)[1]}:{fn.qualname}'
            lazy = set(lazy0)

            def is_lazy(e: ast.AST) -> bool:
                """does evaluating e yield something that still reads a lazy name when iterated later?"""
                if isinstance(e, ast.Name):
                    return e.id in lazy
                if isinstance(e, ast.IfExp):
                    return is_lazy(e.body) or is_lazy(e.orelse)
                if isinstance(e, ast.BoolOp):
                    return any(is_lazy(v) for v in e.values)
                if isinstance(e, ast.NamedExpr):
                    return is_lazy(e.value)
                if isinstance(e, ast.GeneratorExp):
                    return any(is_lazy(g.iter) for g in e.generators)
                if isinstance(e, ast.Call):
                    nm = dotted(e.func) or ''
                    if nm in _MATERIALISE:
                        return False
                    if nm in _LAZY_WRAP:
                        return any(is_lazy(x) for x in e.args)
                    return False
                if isinstance(e, ast.Starred):
                    return False
                return False

            changed = True
            while changed:
                changed = False
                for st in walk_no_nested(fn.node):
                    if isinstance(st, ast.Assign) and len(st.targets) == 1 and isinstance(st.targets[0], ast.Name) and is_lazy(st.value) \
                            and st.targets[0].id not in lazy:
                        lazy.add(st.targets[0].id)
                        changed = True
            # a name re-bound to a materialised value stops being lazy from there on; judged per use below with a simple order check
            rebinds = {}
            for st in walk_no_nested(fn.node):
                if isinstance(st, ast.Assign) and len(st.targets) == 1 and isinstance(st.targets[0], ast.Name) and st.targets[0].id in lazy0 \
                        and not is_lazy(st.value):
                    rebinds.setdefault(st.targets[0].id, st.lineno)

            def mutates(body: list[ast.stmt]) -> Optional[str]:
                for s in body:
                    for x in ast.walk(s):
                        if isinstance(x, ast.Call) and isinstance(x.func, ast.Attribute) and x.func.attr in _VIEW_MUTATORS \
                                and (norm(x.func.value).startswith(('self', 'super()'))):
                            return norm(x)[:70]
                        if isinstance(x, (ast.Assign, ast.AugAssign, ast.Delete)):
                            tg = x.targets if isinstance(x, (ast.Assign, ast.Delete)) else [x.target]
                            for t in tg:
                                if isinstance(t, ast.Subscript) and norm(t.value).startswith('self'):
                                    return norm(x)[:70]
                return None

            problems: list[tuple[str, int]] = []
            for st in walk_no_nested(fn.node):
                if isinstance(st, ast.For):
                    names = {x.id for x in ast.walk(st.iter) if isinstance(x, ast.Name)}
                    live = {nm for nm in names & lazy if not (nm in rebinds and rebinds[nm] < st.lineno)}
                    if live and is_lazy(st.iter):
                        w = mutates(st.body)
                        if w:
                            problems.append((f'`for {norm(st.target)} in {norm(st.iter)[:60]}` reads the caller\'s iterable ({", ".join(sorted(live))}) '
                                             f'while its body writes (`{w}`)', st.lineno))
            ok = not problems
            ctx.check(ok, rid, site, problems[0][0][:80] if problems else f'iterable argument(s) {sorted(lazy0)}',
                      (problems[0][0] if problems else '') + ': when the argument is a live view of the same list the values read are the '
                      'half-written ones, so the view no longer behaves like a Python list', f'{c.module.relpath}:{problems[0][1] if problems else fn.node.lineno}',
                      note=f'{sorted(lazy0)} consumed before any write')
    if n < 6:
        raise AnalysisError(f'VIEW-SNAPSHOT: only {n} mutators with an Iterable parameter found (>= 6 confirmed by hand)')


# ====================================================================== CACHE-DEP (added after seeded round 3)
def rule_cache_dep(ctx: RuleContext, p: Program, rid: str) -> None:
    from ..model import ClassInfo, CustomProp, DescriptorDecl
    ctx.rule(rid, 'a value cached per model instance (cached_custom_property) never outlives what it was built from: (D1) its getter reads, '
                  'from the model, only per-instance memoised wrapper properties (or other cached ones) -- not a child that an assignment can '
                  'replace; (D2) every property class that memoises a wrapper in instance.__dict__ and lets an assignment rebind it drops the '
                  'cached views of that instance in the same __set__')
    cached = p.cls('cached_custom_property', 'models.internal.properties')
    cached_kinds = [cached, *cached.all_subclasses()]
    # memo kinds: property classes whose _get stores a freshly built wrapper under instance.__dict__[self._attr]
    memo: list[ClassInfo] = []
    for m in p.modules.values():
        for c in m.classes:
            g = c.attrs.get('_get')
            if isinstance(g, FuncInfo) and c not in cached_kinds and any(
                    isinstance(a, ast.Assign) and norm(a.targets[0]).endswith('.__dict__[self._attr]') for a in walk_no_nested(g.node)):
                memo.append(c)
    if len(memo) < 2:
        raise AnalysisError(f'CACHE-DEP: only {len(memo)} memoising wrapper property classes found (2 confirmed by hand)')
    ok_kinds = set(memo) | set(cached_kinds)
    n = 0
    # D2
    for c in memo:
        st = c.attrs.get('__set__')
        if not isinstance(st, FuncInfo):
            continue
        rebinds = [a for a in walk_no_nested(st.node) if isinstance(a, ast.Assign) and norm(a.targets[0]).endswith('.__dict__[self._attr]')]
        if not rebinds:
            continue
        n += 1
        inst = st.params[1]
        drops = [x for x in walk_no_nested(st.node) if isinstance(x, ast.Call) and (dotted(x.func) or '').endswith('drop_cached_views')
                 and x.args and norm(x.args[0]) == inst]
        helper_ok = False
        if drops:
            h = p.resolve_expr(st.module, drops[0].func)
            if isinstance(h, FuncInfo):
                helper_ok = any(isinstance(x, ast.Call) and isinstance(x.func, ast.Attribute) and x.func.attr == 'pop' and '__dict__' in norm(x.func.value)
                                for x in ast.walk(h.node)) and 'cached_custom_property' in norm(h.node) and (
                    # cached views are declared on base classes too (generated base, hand-written leaf): the whole MRO must be visited
                    '__mro__' in norm(h.node) or 'getmro' in norm(h.node) or 'dir(' in norm(h.node))
        ctx.check(bool(drops) and helper_ok, rid, f'{c.module.name.split(".", 1)[1]}:{c.name}.__set__', 'rebinds the memoised wrapper',
                  f'{c.name}.__set__ replaces the wrapper memoised for the instance (`{norm(rebinds[0])[:70]}`) but keeps the value views cached on that '
                  f'instance (tags, links, currencies, postings, meta, custom values ...): they stay bound to the old wrapper, so after '
                  f'`x.raw_<field> = wrapper` a view no longer equals the raw list filtered at that moment', st.where,
                  note='drops cached views after rebinding')
    # D1
    for m in p.modules.values():
        for c in m.classes:
            for name, s in c.attrs.items():
                if isinstance(s, CustomProp) and s.flavour == 'cached_custom_property' and s.fget is not None:
                    n += 1
                    selfn = s.fget.params[0]
                    bad = ''
                    for x in walk_no_nested(s.fget.node):
                        if isinstance(x, ast.Attribute) and isinstance(x.value, ast.Name) and x.value.id == selfn:
                            t = c.lookup(x.attr)
                            if isinstance(t, DescriptorDecl) and t.kind not in ok_kinds and isinstance(t.kind.lookup('__set__'), FuncInfo):
                                bad = f'self.{x.attr} ({t.kind.name})'
                            elif isinstance(t, CustomProp) and t.fset is not None and t.flavour != 'cached_custom_property':
                                bad = f'self.{x.attr} (settable property)'
                    ctx.check(not bad, rid, f'{m.name.split(".", 1)[1]}:{c.name}.{name}', 'cached getter reads only memoised wrappers',
                              f'{c.name}.{name} is cached per instance but is computed from {bad}, which an assignment can replace: after the '
                              f'replacement the cached object still refers to the old, detached child, so reads report the old content and writes fail',
                              s.fget.where, note='reads memoised wrappers only')
                elif isinstance(s, DescriptorDecl) and s.kind in cached_kinds and s.kind is not cached:
                    n += 1
                    a0 = s.arg(0)
                    t = c.lookup(a0.id) if isinstance(a0, ast.Name) else (p.resolve_expr(c.module, a0) if a0 is not None else None)
                    okk = isinstance(t, DescriptorDecl) and t.kind in ok_kinds
                    ctx.check(okk, rid, f'{m.name.split(".", 1)[1]}:{c.name}.{name}', f'{s.kind.name}({norm(a0) if a0 is not None else ""}, ...)',
                              f'{c.name}.{name} ({s.kind.name}) caches a view of `{norm(a0) if a0 is not None else "?"}`, which is not a per-instance '
                              f'memoised wrapper property', c.where, note=f'inner {t.kind.name if isinstance(t, DescriptorDecl) else "?"}', nontrivial=False)
    if n < 10:
        raise AnalysisError(f'CACHE-DEP: only {n} cached properties / rebinding setters found')


# ====================================================================== MAP-FIRST (added after seeded round 3)
def rule_map_first(ctx: RuleContext, p: Program, rid: str) -> None:
    """finite-domain evaluation of the key-addressed methods of the two meta mapping views"""
    import itertools
    from . import possem
    from .tokenstore import TS
    ctx.rule(rid, 'the key-addressed methods of the meta mapping views (__getitem__, __setitem__, __delitem__, pop, __contains__ with a '
                  'str key), interpreted from their ASTs over every key layout of up to 3 items (duplicates included): each addresses the '
                  'FIRST item carrying the key -- the one reads return -- appends when the key is absent (set), and raises KeyError / '
                  'returns the default otherwise -- pop(key, d) returns d for an absent key whatever d is (None, 0, \'\', False included), as dict.pop does; all five agree on which item a key means; keys() / values() / items(), forward and reversed, yield the items position by position (an item '
                  'sharing its key with an earlier one shows its own value)')
    m = p.module('models.meta_item_internal')
    ts = TS(p)
    wrappers = [p.cls('RepeatedRawMetaItemWrapper', 'models.meta_item_internal'), p.cls('RepeatedMetaItemWrapper', 'models.meta_item_internal')]
    n = 0
    # module-level sentinels (`_EMPTY = _Empty()`, whatever they are called): one object each, of a class of this module
    local_classes = {c.name for c in m.tree.body if isinstance(c, ast.ClassDef)}
    sentinels: dict[str, Any] = {}
    for st_ in m.tree.body:
        tg_ = st_.targets[0] if isinstance(st_, ast.Assign) and len(st_.targets) == 1 else st_.target if isinstance(st_, ast.AnnAssign) else None
        val_ = getattr(st_, 'value', None)
        if isinstance(tg_, ast.Name) and isinstance(val_, ast.Call) and not val_.args and not val_.keywords:
            cn = norm(val_.func)
            if cn in local_classes or cn == 'object':
                sentinels[tg_.id] = possem.Obj(cn, {}, tg_.id)

    class Interp(possem.PosInterp):
        tag = 'MAP-FIRST'

        def __init__(self, items: list, wrapper: Any) -> None:
            super().__init__(ts, [], module=m)
            self.items = items
            self.wrapper = wrapper
            self.events: list = []

        def iter_of(self, v: Any, node: Any) -> list:
            if v is self.wrapper:
                return list(self.items)
            return super().iter_of(v, node)

        def call_value(self, f: Any, args: list, kwargs: dict, node: Any) -> Any:      # type: ignore[override]
            if isinstance(f, possem.Builtin) and f.name == 'len' and args and args[0] is self.wrapper:
                return len(self.items)
            return super().call_value(f, args, kwargs, node)

        def truth(self, v: Any, node: Any) -> bool:               # type: ignore[override]
            if v is self.wrapper:
                return bool(self.items)
            return super().truth(v, node)

        def expr(self, e: Any, env: dict) -> Any:                 # type: ignore[override]
            if isinstance(e, ast.Name) and e.id not in env:
                if e.id in sentinels:
                    return sentinels[e.id]
                if e.id in ('MetaItem', 'KeyError') or e.id in local_classes:
                    return possem.ClassRef(e.id)
                if e.id == 'str':
                    return possem.Builtin('str')
            if isinstance(e, ast.Attribute) and norm(e) in ('base.RawModel', 'base.RawTokenModel'):
                return possem.ClassRef('RawModel')
            if isinstance(e, ast.Call) and isinstance(e.func, ast.Attribute):
                f = e.func
                # super().<method>(...) : the positional list operations of the underlying sequence
                if isinstance(f.value, ast.Call) and norm(f.value.func) == 'super':
                    args = [self.expr(a, env) for a in e.args]
                    return self.seq_op(f.attr, args, e)
                if isinstance(f.value, ast.Name) and env.get(f.value.id) is self.wrapper:
                    args = [self.expr(a, env) for a in e.args]
                    if f.attr in ('append', '__getitem__', '__setitem__', '__delitem__', 'pop', 'insert', '__contains__'):
                        if f.attr in ('__getitem__', '__setitem__', '__delitem__', 'pop', '__contains__') and args and isinstance(args[0], str):
                            fn = self.wrapper_cls.lookup(f.attr)
                            return self.call_function(fn, [self.wrapper] + args, {})
                        return self.seq_op(f.attr, args, e)
                    if f.attr == '_get_indent':
                        return 'INDENT'
                    if f.attr == 'index':
                        return self.items.index(args[0])
                if norm(f) in ('MetaItem.from_value',):
                    args = [self.expr(a, env) for a in e.args]
                    return possem.Obj('MetaItem', {'key': args[0], 'value': args[1]}, 'created')
            if isinstance(e, ast.Call) and isinstance(e.func, ast.Name) and e.func.id == 'isinstance' and e.func.id not in env:
                v = self.expr(e.args[0], env)
                c = self.expr(e.args[1], env)
                if isinstance(c, possem.ClassRef):
                    if c.name == 'RawModel':
                        return isinstance(v, possem.Obj) and v.cls == 'Value' and v.f.get('model', False)
                    return isinstance(v, possem.Obj) and v.cls == c.name
                if isinstance(c, possem.Builtin):
                    return isinstance(v, {'str': str, 'int': int, 'list': list, 'tuple': tuple, 'dict': dict}[c.name]) and not isinstance(v, bool)
            if isinstance(e, ast.Subscript) and not isinstance(e.slice, ast.Slice):
                b = self.expr(e.value, env)
                if b is self.wrapper:
                    i = self.expr(e.slice, env)
                    if isinstance(i, str):
                        return self.call_function(self.wrapper_cls.lookup('__getitem__'), [self.wrapper, i], {})
                    return self.seq_op('__getitem__', [i], e)
            return super().expr(e, env)

        def stmt(self, st: Any, env: dict) -> None:                # type: ignore[override]
            if isinstance(st, ast.Raise):
                raise possem.Raised(norm(st.exc.func) if isinstance(st.exc, ast.Call) else norm(st.exc) if st.exc is not None else 'raise')
            if isinstance(st, ast.Assign) and len(st.targets) == 1 and isinstance(st.targets[0], ast.Subscript) \
                    and self.expr(st.targets[0].value, env) is self.wrapper:
                i = self.expr(st.targets[0].slice, env)
                v = self.expr(st.value, env)
                if isinstance(i, str):
                    self.call_function(self.wrapper_cls.lookup('__setitem__'), [self.wrapper, i, v], {})
                else:
                    self.seq_op('__setitem__', [i, v], st)
                return
            if isinstance(st, ast.Delete) and len(st.targets) == 1 and isinstance(st.targets[0], ast.Subscript) \
                    and self.expr(st.targets[0].value, env) is self.wrapper:
                self.seq_op('__delitem__', [self.expr(st.targets[0].slice, env)], st)
                return
            super().stmt(st, env)

        def seq_op(self, name: str, args: list, node: Any) -> Any:
            items = self.items
            if name == 'append':
                self.events.append(('append', args[0]))
                items.append(args[0])
                return None
            if name == '__contains__':
                return any(x is args[0] for x in items)
            if name == 'pop' and not args:
                args = [-1]
            i = args[0]
            if not isinstance(i, int) or isinstance(i, bool):
                raise self.err(node, f'positional operation {name} with index {i!r}')
            if not -len(items) <= i < len(items):
                raise possem.Raised('IndexError')
            i %= len(items)
            if name == '__getitem__':
                return items[i]
            if name == '__setitem__':
                self.events.append(('replace', i, args[1]))
                items[i] = args[1]
                return None
            if name == '__delitem__':
                self.events.append(('delete', i))
                del items[i]
                return None
            if name == 'pop':
                self.events.append(('delete', i))
                return items.pop(i)
            if name == 'insert':
                self.events.append(('insert', i, args[1]))
                items.insert(i, args[1])
                return None
            raise self.err(node, f'sequence operation {name}')

    NO_DEFAULT = object()

    def run_case(w: Any, method: str, keys: tuple, key: str, default: Any = NO_DEFAULT) -> Optional[str]:
        nonlocal n
        fn = w.lookup(method)
        if not isinstance(fn, FuncInfo) or fn.cls not in wrappers:
            return None
        items = [possem.Obj('MetaItem', {'key': k, 'value': possem.Obj('Value', {'model': False, 'token_store': None}, f'v{i}')}, f'item{i}')
                 for i, k in enumerate(keys)]
        before = list(items)
        wrapper = possem.Obj(w.name, {}, 'wrapper')
        it = Interp(items, wrapper)
        it.wrapper_cls = w
        newv = possem.Obj('Value', {'model': False, 'token_store': None}, 'new')
        args: list = [wrapper, key]
        if method == '__setitem__':
            args.append(newv if w is wrappers[1] else possem.Obj('MetaItem', {'key': key, 'value': newv}, 'newitem'))
        if default is not NO_DEFAULT:
            args.append(default)
        n += 1
        raised = None
        res = None
        try:
            res = it.call_function(fn, args, {})
        except possem.Raised as ex:
            raised = str(ex)
        first = next((i for i, k in enumerate(keys) if k == key), None)
        where_ = f'keys {list(keys)}, key {key!r}'
        value_view = w is wrappers[1]
        if method == '__contains__':
            return None if (res is True) == (first is not None) and raised is None else f'{where_}: `key in view` gives {res!r}'
        if first is None:
            if method == '__setitem__':
                ok = raised is None and len(it.events) == 1 and it.events[0][0] == 'append' and len(items) == len(keys) + 1 \
                    and items[-1].f.get('key') == key and items[:-1] == before
                return None if ok else f'{where_}: assigning an absent key does not append exactly one item with that key ({it.events}, raised {raised})'
            if default is not NO_DEFAULT:
                # dict.pop(key, default): ANY explicit default -- None, 0, '' and False included -- is returned for an absent key
                ok = raised is None and res is default and not it.events
                return None if ok else (f'{where_}: pop(key, {default!r}) on an absent key gives {res!r} / {raised} with effects {it.events}; '
                                        f'dict.pop returns the default that was passed, whatever it is')
            ok = raised is not None and 'KeyError' in raised and not it.events
            return None if ok else f'{where_}: an absent key gives {res!r} / {raised} with effects {it.events} instead of KeyError'
        if raised is not None:
            return f'{where_}: raises {raised} although item {first} has the key'
        if method == '__getitem__':
            want = before[first].f['value'] if value_view else before[first]
            return None if res is want and not it.events else f'{where_}: reads {res!r}, the first item with the key is item{first}'
        if method == '__setitem__':
            if value_view:
                ok = not it.events and before[first].f['value'] is newv and all(b.f['value'] is not newv for j, b in enumerate(before) if j != first)
                hit = [j for j, b in enumerate(before) if b.f['value'] is newv]
                return None if ok else f'{where_}: the value is written to item(s) {hit}, reads address item {first} (the first with that key)'
            ok = it.events == [('replace', first, args[2])]
            return None if ok else f'{where_}: effects {[(e[0], e[1]) for e in it.events]}, expected the replacement of item {first}'
        if method in ('__delitem__', 'pop'):
            ok = [e[:2] for e in it.events if e[0] == 'delete'] == [('delete', first)] and len(it.events) == 1
            if ok and method == 'pop':
                want = before[first].f['value'] if value_view else before[first]
                ok = res is want
            return None if ok else f'{where_}: removes {[e[1] for e in it.events if e[0] == "delete"]} and returns {res!r}; the first item with the key is item {first}'
        return None

    layouts = [ks for k in range(0, 4) for ks in itertools.product('ab', repeat=k)]
    for w in wrappers:
        for method in ('__getitem__', '__setitem__', '__delitem__', 'pop', '__contains__'):
            problem = None
            cnt = 0
            for keys in layouts:
                for key in ('a', 'z'):
                    pr = run_case(w, method, keys, key)
                    cnt += 1
                    if pr and problem is None:
                        problem = pr
                    if method == 'pop':
                        for dflt in (None, 0, False, '', possem.Obj('Default', {}, 'D')):
                            pr = run_case(w, method, keys, key, dflt)
                            cnt += 1
                            if pr and problem is None:
                                problem = pr
            fnm = w.lookup(method)
            if not isinstance(fnm, FuncInfo) or fnm.cls not in wrappers:
                continue
            ctx.check(problem is None, rid, f'models.meta_item_internal:{w.name}.{method}', 'first match',
                      f'{w.name}.{method}(key): {problem}: the methods of one mapping view disagree on which of several items with the same key '
                      f'a key means (first-match is what reads use), so writing through a key changes a different meta line than the one read back',
                      fnm.where, note=f'{cnt} layouts x keys')
    # a value that is a model and is taken out through the mapping (pop(key), popitem()) comes back alone in its store: the rest of the removed
    # meta line (indent, key, blanks, line end, comments) is stripped off, so the value can be inserted elsewhere
    def model_items(keys: tuple) -> list:
        out = []
        for i, k in enumerate(keys):
            doc = [possem.Obj('Tok', {}, f'{nm}{i}') for nm in ('indent', 'key', 'blank', 'value', 'eol')]
            st = possem.Obj('VStore', {'doc': doc}, f'store of item{i}')
            val = possem.Obj('Value', {'model': True, 'token_store': st, 'first_token': doc[3], 'last_token': doc[3]}, f'v{i}')
            out.append(possem.Obj('MetaItem', {'key': k, 'value': val, 'token_store': st, 'first_token': doc[0], 'last_token': doc[4]}, f'item{i}'))
        return out

    class StoreInterp(Interp):
        def expr(self, e: Any, env: dict) -> Any:                 # type: ignore[override]
            if isinstance(e, ast.Call) and isinstance(e.func, ast.Attribute) and e.func.attr in ('get_prev', 'get_next', 'remove', 'get_first', 'get_last'):
                b = self.expr(e.func.value, env)
                if isinstance(b, possem.Obj) and b.cls == 'VStore':
                    d = b.f['doc']
                    a = [self.expr(x, env) for x in e.args]
                    ix = lambda t: next(i for i, x in enumerate(d) if x is t)          # noqa: E731
                    try:
                        if e.func.attr == 'get_prev':
                            i = ix(a[0])
                            return d[i - 1] if i > 0 else None
                        if e.func.attr == 'get_next':
                            i = ix(a[0])
                            return d[i + 1] if i + 1 < len(d) else None
                        if e.func.attr == 'get_first':
                            return d[0] if d else None
                        if e.func.attr == 'get_last':
                            return d[-1] if d else None
                        i, j = ix(a[0]), ix(a[1])
                    except StopIteration:
                        raise possem.Raised('ValueError: token is not in the store')
                    if j < i:
                        raise possem.Raised('ValueError: empty range')
                    del d[i:j + 1]
                    return None
            return super().expr(e, env)

        def truth(self, v: Any, node: Any) -> bool:               # type: ignore[override]
            if isinstance(v, possem.Obj) and v is not self.wrapper:
                return True
            return super().truth(v, node)

    w = wrappers[1]
    for method in ('pop', 'popitem'):
        fn = w.lookup(method)
        if not isinstance(fn, FuncInfo) or fn.cls not in wrappers:
            continue          # popitem inherited from collections.abc fails before it touches anything (iteration yields items, not keys)
        problem = None
        cnt = 0
        for keys in layouts:
            if not keys:
                continue
            items = model_items(keys)
            wrapper = possem.Obj(w.name, {}, 'wrapper')
            it = StoreInterp(items, wrapper)
            it.wrapper_cls = w
            target = items[next(i for i, k in enumerate(keys) if k == keys[-1])] if method == 'pop' else items[-1]
            cnt += 1
            n += 1
            try:
                res = it.call_function(fn, [wrapper] + ([keys[-1]] if method == 'pop' else []), {})
            except possem.Raised as ex:
                problem = problem or f'keys {list(keys)}: raises {ex}'
                continue
            val = res[1] if method == 'popitem' and isinstance(res, tuple) and len(res) == 2 else res
            where_ = f'keys {list(keys)}, {method}({repr(keys[-1]) if method == "pop" else ""})'
            if method == 'popitem' and not (isinstance(res, tuple) and len(res) == 2 and res[0] == target.f['key']):
                problem = problem or f'{where_}: returns {res!r}, dict.popitem returns the (key, value) pair of the last item'
            elif val is not target.f['value']:
                problem = problem or f'{where_}: returns {val!r}, not the value of {target.label}'
            elif any(x is target for x in items):
                problem = problem or f'{where_}: {target.label} is still in the list'
            elif [x.label for x in val.f['token_store'].f['doc']] != [val.f['first_token'].label]:
                problem = problem or (f'{where_}: the model that is returned sits in a store that still holds '
                                      f'{[x.label for x in val.f["token_store"].f["doc"]]} -- the rest of the removed meta line: it is not a tree of its own '
                                      f'(it does not span its store, assigning it elsewhere raises "Cannot reuse node"), unlike what pop(key) hands out')
        ctx.check(problem is None, rid, f'models.meta_item_internal:{w.name}.{method}', 'a model taken out comes back alone in its store',
                  f'{w.name}.{method}: {problem}', fn.where, note=f'{cnt} key layouts with model values')

    # keys() / values() / items(): the views iterate the items position by position -- an item that shares its key with an earlier one still
    # shows its OWN value (a dict built from the ledger lines, not a lookup by key per line)
    n_views = 0
    for w in wrappers:
        value_view = w is wrappers[1]
        for method in ('keys', 'values', 'items'):
            fn = w.lookup(method)
            if not isinstance(fn, FuncInfo) or fn.cls not in wrappers:
                continue
            made = [c for c in walk_no_nested(fn.node) if isinstance(c, ast.Call) and isinstance(c.func, ast.Name) and c.func.id in local_classes]
            if len(made) != 1:
                raise AnalysisError(f'MAP-FIRST: {w.name}.{method} does not construct one view class of its module')
            vc = p.cls(made[0].func.id, 'models.meta_item_internal')
            for direction in ('__iter__', '__reversed__'):
                vf_ = vc.lookup(direction)
                if not isinstance(vf_, FuncInfo):
                    continue
                problem = None
                cnt = 0
                for keys in layouts:
                    items = [possem.Obj('MetaItem', {'key': k, 'value': possem.Obj('Value', {'model': False, 'token_store': None}, f'v{i}')}, f'item{i}')
                             for i, k in enumerate(keys)]
                    wrapper = possem.Obj(w.name, {}, 'wrapper')
                    it = Interp(items, wrapper)
                    it.wrapper_cls = w
                    view = possem.Obj(vc.name, {'_wrapper': wrapper, '_mapping': wrapper}, 'view')
                    cnt += 1
                    try:
                        got = list(possem.PosInterp.iter_of(it, it.call_function(vf_, [view], {}), vf_.node))
                    except possem.Raised as ex:
                        problem = problem or f'keys {list(keys)}: raises {ex}'
                        continue
                    seq = list(items) if direction == '__iter__' else list(reversed(items))
                    proj = (lambda x: x.f['value']) if value_view else (lambda x: x)
                    want = [x.f['key'] for x in seq] if method == 'keys' else [proj(x) for x in seq] if method == 'values' \
                        else [(x.f['key'], proj(x)) for x in seq]
                    same = len(got) == len(want) and all(
                        (g is w_) or (isinstance(g, str) and g == w_) or (isinstance(g, tuple) and isinstance(w_, tuple) and len(g) == 2 and g[0] == w_[0] and g[1] is w_[1])
                        for g, w_ in zip(got, want))
                    if not same and problem is None:
                        problem = (f'keys {list(keys)}: {method}() {"reversed " if direction == "__reversed__" else ""}yields {got!r}, the items line by '
                                   f'line are {want!r}: an item that shares its key with an earlier one shows the earlier item\'s value')
                n_views += 1
                n += cnt
                ctx.check(problem is None, rid, f'models.meta_item_internal:{vc.name}.{direction}', 'position-wise',
                          f'{w.name}.{method}(): {problem}', vf_.where, note=f'{cnt} key layouts')
    if n_views < 12:
        raise AnalysisError(f'MAP-FIRST: only {n_views} of the 12 view iterations (keys/values/items x forward/reversed x two wrappers) found')
    if n < 200:
        raise AnalysisError(f'MAP-FIRST: only {n} cases evaluated')


# ====================================================================== VIEW-SEM (added after twins round 3)
def rule_view_sem(ctx: RuleContext, p: Program, rid: str, max_raw: int = 4) -> None:
    """finite-domain evaluation of every list-protocol method of RepeatedValueWrapper against a mock raw list"""
    import itertools
    from . import possem
    from .tokenstore import TS
    ctx.rule(rid, f'the filtered view behaves like the Python list of its own items: every list-protocol method of RepeatedValueWrapper '
                  f'(__len__, __iter__, __getitem__, __setitem__, __delitem__, insert, append, extend, pop, remove, discard, clear), with '
                  f'indexes.range_from_index / slice_from_range, interpreted against a mock raw list of up to {max_raw} items (items of the view\'s '
                  f'type interleaved with others) for every int index in [-len-2, len+1] and a family of slices: the result, the exception '
                  f'(IndexError / ValueError where a list raises one) and the view afterwards equal what the same call does to '
                  f'[x for x in raw if mine(x)], and the other items of the raw list keep their places relative to each other')
    m = p.module('models.internal.value_properties')
    vw = p.cls('RepeatedValueWrapper', 'models.internal.value_properties')
    ts = TS(p)
    idx_mod = p.module('models.internal.indexes')

    class Interp(possem.PosInterp):
        tag = 'VIEW-SEM'

        def __init__(self, me: Any) -> None:
            super().__init__(ts, [], module=m)
            self.me = me

        def refresh(self) -> None:
            raw = self.me.f['_raw_wrapper'].f['items']
            self.me.f['_raw_indexes'][:] = [i for i, x in enumerate(raw) if x.cls == 'Mine']      # what the update handler does (HANDLER-FORM)

        def raw_call(self, name: str, args: list, node: Any) -> Any:
            raw = self.me.f['_raw_wrapper'].f['items']
            try:
                if name == 'insert':
                    raw.insert(args[0], args[1])
                    return None
                if name == 'append':
                    raw.append(args[0])
                    return None
                if name == 'extend':
                    raw.extend(self.iter_of(args[0], node))
                    return None
                if name == 'pop':
                    if not isinstance(args[0] if args else -1, int):
                        raise self.err(node, 'raw pop with a non-integer position')
                    return raw.pop(*args)
                if name == 'drop_many':
                    drop = set(self.iter_of(args[0], node))
                    if not all(isinstance(i, int) and 0 <= i < len(raw) for i in drop):
                        raise possem.Raised(f'IndexError: drop_many of positions {sorted(drop)} on a raw list of {len(raw)}')
                    raw[:] = [x for i, x in enumerate(raw) if i not in drop]
                    return None
                if name == 'clear':
                    raw.clear()
                    return None
            except IndexError as ex:
                raise possem.Raised(f'IndexError: {ex}')
            finally:
                self.refresh()
            raise self.err(node, f'raw wrapper method {name}')

        def expr(self, e: Any, env: dict) -> Any:                 # type: ignore[override]
            if isinstance(e, ast.Call) and isinstance(e.func, ast.Attribute):
                bv = self.expr(e.func.value, env) if not (isinstance(e.func.value, ast.Name) and e.func.value.id not in env) else None
                if isinstance(bv, possem.Obj) and bv.cls == 'RawWrapper':
                    return self.raw_call(e.func.attr, [self.expr(a, env) for a in e.args], e)
                if isinstance(e.func.value, ast.Name) and e.func.value.id not in env:
                    sy = p.resolve_expr(m, e.func)
                    if isinstance(sy, FuncInfo):
                        return self.call_function(sy, [self.expr(a, env) for a in e.args], {k.arg: self.expr(k.value, env) for k in e.keywords})
            if isinstance(e, ast.Call) and isinstance(e.func, ast.Name) and e.func.id in ('cast',) and len(e.args) == 2:
                return self.expr(e.args[1], env)
            if isinstance(e, ast.Call) and norm(e.func) == 'isinstance' and len(e.args) == 2:
                v = self.expr(e.args[0], env)
                t = norm(e.args[1])
                if t == 'int':
                    return isinstance(v, int) and not isinstance(v, bool)
                if t == 'slice':
                    return isinstance(v, slice)
                if t.endswith('Iterable') or t.endswith('Collection'):
                    return isinstance(v, (list, tuple))
            if isinstance(e, ast.Subscript) and isinstance(e.slice, ast.Slice):
                bv = self.expr(e.value, env)
                if isinstance(bv, possem.Obj) and bv.cls == 'RawWrapper':
                    return list(bv.f['items'][self._slice_of(e.slice, env)])
            if isinstance(e, ast.Subscript) and not isinstance(e.slice, ast.Slice):
                bv = self.expr(e.value, env)
                if isinstance(bv, possem.Obj) and bv.cls == 'RawWrapper':
                    i = self.expr(e.slice, env)
                    raw = bv.f['items']
                    if isinstance(i, slice):
                        return list(raw[i])
                    if not isinstance(i, int) or not -len(raw) <= i < len(raw):
                        raise possem.Raised(f'IndexError: raw position {i!r}')
                    return raw[i]
                if bv is self.me:
                    return self.call_function(vw.lookup('__getitem__'), [self.me, self.expr(e.slice, env)], {})
            if isinstance(e, ast.Name) and e.id not in env and e.id == 'self':
                return self.me
            return super().expr(e, env)

        def iter_of(self, v: Any, node: Any) -> list:             # type: ignore[override]
            if v is self.me:
                return list(self.call_function(vw.lookup('__iter__'), [self.me], {}))
            if isinstance(v, possem.Obj) and v.cls == 'RawWrapper':
                return list(v.f['items'])
            return super().iter_of(v, node)

        def call_value(self, f: Any, args: list, kwargs: dict, node: Any) -> Any:      # type: ignore[override]
            if isinstance(f, possem.Builtin) and f.name == 'len' and args and isinstance(args[0], possem.Obj):
                if args[0].cls == 'RawWrapper':
                    return len(args[0].f['items'])
                if args[0] is self.me:
                    return self.call_function(vw.lookup('__len__'), [self.me], {})
            return super().call_value(f, args, kwargs, node)

        def _slice_of(self, sl: ast.Slice, env: dict) -> slice:
            parts = [self.expr(x, env) if x is not None else None for x in (sl.lower, sl.upper, sl.step)]
            if not all(x is None or (isinstance(x, int) and not isinstance(x, bool)) for x in parts):
                raise self.err(sl, 'slice of the raw list with non-integer bounds')
            return slice(*parts)

        def stmt(self, st: Any, env: dict) -> None:               # type: ignore[override]
            # the raw wrapper is a list: `del raw[i]`, `del raw[a:b:c]`
            if isinstance(st, ast.Delete) and len(st.targets) == 1 and isinstance(st.targets[0], ast.Subscript):
                bv = self.expr(st.targets[0].value, env)
                if isinstance(bv, possem.Obj) and bv.cls == 'RawWrapper':
                    raw = bv.f['items']
                    sl = st.targets[0].slice
                    try:
                        if isinstance(sl, ast.Slice):
                            del raw[self._slice_of(sl, env)]
                        else:
                            i = self.expr(sl, env)
                            if isinstance(i, slice):
                                del raw[i]
                            elif isinstance(i, int) and not isinstance(i, bool):
                                del raw[i]
                            else:
                                raise self.err(st, 'del of the raw list with a non-integer position')
                    except IndexError as ex:
                        raise possem.Raised(f'IndexError: {ex}')
                    finally:
                        self.refresh()
                    return
            super().stmt(st, env)

        def assign(self, t: Any, v: Any, env: dict) -> None:      # type: ignore[override]
            if isinstance(t, ast.Subscript) and isinstance(t.slice, ast.Slice):
                bv = self.expr(t.value, env)
                if isinstance(bv, possem.Obj) and bv.cls == 'RawWrapper':
                    try:
                        bv.f['items'][self._slice_of(t.slice, env)] = self.iter_of(v, t)
                    except ValueError as ex:
                        raise possem.Raised(f'ValueError: {ex}')
                    finally:
                        self.refresh()
                    return
            if isinstance(t, ast.Subscript) and not isinstance(t.slice, ast.Slice):
                bv = self.expr(t.value, env)
                if isinstance(bv, possem.Obj) and bv.cls == 'RawWrapper':
                    i = self.expr(t.slice, env)
                    raw = bv.f['items']
                    if not isinstance(i, int) or not -len(raw) <= i < len(raw):
                        raise possem.Raised(f'IndexError: raw position {i!r}')
                    raw[i] = v
                    self.refresh()
                    return
            super().assign(t, v, env)

    ident = possem._Lambda(ast.parse('lambda x: x', mode='eval').body, {})
    no_update = possem._Lambda(ast.parse('lambda a, b: False', mode='eval').body, {})

    def mk(kinds: str) -> tuple[Any, list]:
        raw = [possem.Obj('Mine' if ch == 'M' else 'Other', {}, f'{i}{ch}') for i, ch in enumerate(kinds)]
        rw = possem.Obj('RawWrapper', {'items': raw}, 'raw')
        me = possem.Obj('RepeatedValueWrapper', {'_raw_wrapper': rw, '_raw_type': None, '_from_raw_type': ident, '_to_raw_type': ident,
                                                 '_update_raw': no_update, '_raw_indexes': [i for i, x in enumerate(raw) if x.cls == 'Mine']}, 'view')
        return me, raw

    def ref_apply(view: list, meth: str, args: list) -> tuple[Any, Optional[str], list]:
        v = list(view)
        try:
            if meth == '__len__':
                return len(v), None, v
            if meth == '__iter__':
                return list(v), None, v
            if meth == '__getitem__':
                return v[args[0]], None, v
            if meth == '__delitem__':
                del v[args[0]]
                return None, None, v
            if meth == '__setitem__':
                if isinstance(args[0], slice):
                    if len(v[args[0]]) != len(args[1]):
                        return None, 'ValueError', v          # the view refuses every size-changing slice assignment (documented)
                    v[args[0]] = args[1]
                else:
                    v[args[0]] = args[1]
                return None, None, v
            if meth == 'insert':
                v.insert(args[0], args[1])
                return None, None, v
            if meth == 'append':
                v.append(args[0])
                return None, None, v
            if meth == 'extend':
                v.extend(args[0])
                return None, None, v
            if meth == 'pop':
                r = v.pop(*args)
                return r, None, v
            if meth == 'remove':
                for i, x in enumerate(v):
                    if x is args[0]:
                        del v[i]
                        return None, None, v
                return None, 'ValueError', v
            if meth == 'discard':
                return None, None, [x for x in v if x is not args[0]]
            if meth == 'clear':
                return None, None, []
        except IndexError:
            return None, 'IndexError', list(view)
        except ValueError:
            return None, 'ValueError', list(view)
        raise AnalysisError(f'VIEW-SEM: no reference for {meth}')

    problems: dict[str, str] = {}
    n = 0
    layouts = [''.join(x) for k in range(0, max_raw + 1) for x in itertools.product('MO', repeat=k)]
    for kinds in layouts:
        nview = kinds.count('M')
        ints = list(range(-nview - 2, nview + 2))
        slices = [slice(None), slice(1, None), slice(None, -1), slice(None, None, 2), slice(None, None, -1), slice(1, 3), slice(5, 2), slice(-1, None)]
        new1 = possem.Obj('Mine', {}, 'new1')
        new2 = possem.Obj('Mine', {}, 'new2')
        calls: list[tuple[str, list]] = [('__len__', []), ('__iter__', []), ('append', [new1]), ('extend', [[new1, new2]]), ('clear', []), ('pop', [])]
        calls += [(mt, [i]) for mt in ('__getitem__', '__delitem__', 'pop') for i in ints]
        calls += [(mt, [sl]) for mt in ('__getitem__', '__delitem__') for sl in slices]
        calls += [('insert', [i, new1]) for i in ints] + [('__setitem__', [i, new1]) for i in ints]
        calls += [('__setitem__', [sl, [new1, new2][:k]]) for sl in slices for k in (0, 1, 2)]
        for meth, args in calls:
            fn = vw.lookup(meth)
            if not isinstance(fn, FuncInfo):
                continue              # inherited from collections.abc: built from the primitives above
            me, raw = mk(kinds)
            before_raw = list(raw)
            view = [x for x in raw if x.cls == 'Mine']
            targets = [None]
            if meth in ('remove', 'discard'):
                continue
            n += 1
            want_res, want_exc, want_view = ref_apply(view, meth, args)
            it = Interp(me)
            got_exc = None
            got = None
            try:
                got = it.call_function(fn, [me] + list(args), {})
            except possem.Raised as ex:
                got_exc = str(ex).split(':', 1)[0].strip()
            shown = f'raw list {kinds or "-"} (M = item of the view, O = other), {meth}({", ".join(repr(a) if not isinstance(a, (possem.Obj, list)) else "new" for a in args)})'
            now_raw = me.f['_raw_wrapper'].f['items']
            now_view = [x for x in now_raw if x.cls == 'Mine']
            if (got_exc or None) != want_exc and not (want_exc and got_exc):
                problems.setdefault(meth, f'{shown}: {"raises " + got_exc if got_exc else "does not raise"}, a list {"raises " + want_exc if want_exc else "accepts this"}')
                continue
            if want_exc:
                if [id(x) for x in now_raw] != [id(x) for x in before_raw]:
                    problems.setdefault(meth, f'{shown}: refused, but the raw list changed')
                continue
            if isinstance(want_res, list):
                same = isinstance(got, (list, tuple)) and [id(x) for x in got] == [id(x) for x in want_res]
            else:
                same = got is want_res or (isinstance(want_res, int) and got == want_res)
            if not same:
                problems.setdefault(meth, f'{shown}: returns {got!r}, the list of the view\'s items gives {want_res!r}')
                continue
            if [id(x) for x in now_view] != [id(x) for x in want_view]:
                problems.setdefault(meth, f'{shown}: the view afterwards is {[x.label for x in now_view]}, a list would hold {[x.label for x in want_view]}')
                continue
            if [id(x) for x in now_raw if x.cls == 'Other'] != [id(x) for x in before_raw if x.cls == 'Other']:
                problems.setdefault(meth, f'{shown}: items that do not belong to the view were removed or reordered')
        # by-value removal
        for meth in ('remove', 'discard'):
            fn = vw.lookup(meth)
            if not isinstance(fn, FuncInfo):
                continue
            for target_i in range(nview + 1):
                me, raw = mk(kinds)
                view = [x for x in raw if x.cls == 'Mine']
                target = view[target_i] if target_i < nview else possem.Obj('Mine', {}, 'absent')
                n += 1
                _, want_exc, want_view = ref_apply(view, meth, [target])
                got_exc = None
                try:
                    Interp(me).call_function(fn, [me, target], {})
                except possem.Raised as ex:
                    got_exc = str(ex).split(':', 1)[0].strip()
                now_view = [x for x in me.f['_raw_wrapper'].f['items'] if x.cls == 'Mine']
                shown = f'raw list {kinds or "-"}, {meth}(<item {target.label}>)'
                if bool(got_exc) != bool(want_exc):
                    problems.setdefault(meth, f'{shown}: {"raises " + str(got_exc) if got_exc else "does not raise"}')
                elif not want_exc and [id(x) for x in now_view] != [id(x) for x in want_view]:
                    problems.setdefault(meth, f'{shown}: the view afterwards is {[x.label for x in now_view]}, expected {[x.label for x in want_view]}')
        # by-value removal when several items carry an equal value (two postings of one account, a tag listed twice): the view converts every raw
        # item to a plain value and compares those
        by_val = possem._Lambda(ast.parse('lambda x: x.val', mode='eval').body, {})
        for meth in ('remove', 'discard'):
            fn = vw.lookup(meth)
            if not isinstance(fn, FuncInfo) or nview < 2:
                continue
            for pattern in ('aaaa', 'abab', 'abba', 'baab'):
                for target in ('a', 'b', 'z'):
                    me, raw = mk(kinds)
                    me.f['_from_raw_type'] = by_val
                    mine = [x for x in raw if x.cls == 'Mine']
                    for k_, x in enumerate(mine):
                        x.f['val'] = pattern[k_ % len(pattern)]
                    vals = [x.f['val'] for x in mine]
                    n += 1
                    if meth == 'remove':
                        want_exc = None if target in vals else 'ValueError'
                        keep = list(mine)
                        if target in vals:
                            del keep[vals.index(target)]
                    else:
                        want_exc = None
                        keep = [x for x in mine if x.f['val'] != target]
                    before_raw = list(raw)
                    got_exc = None
                    try:
                        Interp(me).call_function(fn, [me, target], {})
                    except possem.Raised as ex:
                        got_exc = str(ex).split(':', 1)[0].strip()
                    now_raw = me.f['_raw_wrapper'].f['items']
                    now_view = [x for x in now_raw if x.cls == 'Mine']
                    shown = f'raw list {kinds} with the view\'s values {vals}, {meth}({target!r})'
                    if bool(got_exc) != bool(want_exc):
                        problems.setdefault(meth, f'{shown}: {"raises " + str(got_exc) if got_exc else "does not raise"}' + (
                            '' if not got_exc else f'; the view afterwards is {[x.label + "=" + x.f["val"] for x in now_view]}'))
                    elif not want_exc and [id(x) for x in now_view] != [id(x) for x in keep]:
                        problems.setdefault(meth, f'{shown}: the view afterwards holds {[x.label + "=" + x.f["val"] for x in now_view]}, a list would hold '
                                                  f'{[x.label + "=" + x.f["val"] for x in keep]}')
                    elif [id(x) for x in now_raw if x.cls == 'Other'] != [id(x) for x in before_raw if x.cls == 'Other']:
                        problems.setdefault(meth, f'{shown}: items that do not belong to the view were removed or reordered')
        # read-only Sequence methods the class spells itself (inherited ones are built from __len__ / __getitem__, decided above): the
        # answer a list of the view's values gives, for every start / stop, negative and out-of-range ones included
        for meth in ('index', 'count', '__contains__', '__reversed__'):
            fn = vw.lookup(meth)
            if not isinstance(fn, FuncInfo) or fn.cls is not vw or nview < 1:
                continue
            for pattern in ('aaaa', 'abab', 'abba'):
                me0, raw0 = mk(kinds)
                vals = [pattern[k_ % len(pattern)] for k_ in range(nview)]
                grid: list[list] = [[]]
                if meth == 'index':
                    bounds = list(range(-nview - 2, nview + 3))
                    grid = [[]] + [[a_] for a_ in bounds] + [[a_, b_] for a_ in bounds for b_ in bounds + [None]]
                for target in ('a', 'b', 'z'):
                    for extra in grid:
                        if meth in ('__reversed__',) and target != 'a':
                            continue
                        me, raw = mk(kinds)
                        me.f['_from_raw_type'] = by_val
                        mine = [x for x in raw if x.cls == 'Mine']
                        for k_, x in enumerate(mine):
                            x.f['val'] = vals[k_]
                        n += 1
                        want_exc = None
                        want: Any = None
                        try:
                            if meth == 'index':
                                want = vals.index(target, *[a_ for a_ in extra if a_ is not None])
                            elif meth == 'count':
                                want = vals.count(target)
                            elif meth == '__contains__':
                                want = target in vals
                            else:
                                want = list(reversed(vals))
                        except ValueError:
                            want_exc = 'ValueError'
                        got_exc = None
                        got: Any = None
                        try:
                            args_ = [] if meth == '__reversed__' else [target] + list(extra)
                            got = Interp(me).call_function(fn, [me] + args_, {})
                            if meth == '__reversed__':
                                got = list(possem.PosInterp.iter_of(Interp(me), got, fn.node))
                        except possem.Raised as ex:
                            got_exc = str(ex).split(':', 1)[0].strip()
                        shown = f'raw list {kinds} with the view\'s values {vals}, {meth}({", ".join(repr(a_) for a_ in ([target] + list(extra) if meth != "__reversed__" else []))})'
                        if (got_exc or None) != want_exc and not (got_exc and want_exc):
                            problems.setdefault(meth, f'{shown}: {"raises " + got_exc if got_exc else "returns " + repr(got)}, a list of the values {"raises " + want_exc if want_exc else "gives " + repr(want)}')
                        elif not want_exc and got != want:
                            problems.setdefault(meth, f'{shown}: returns {got!r}, a list of the values gives {want!r}')
    if n < 800:
        raise AnalysisError(f'VIEW-SEM: only {n} calls evaluated')
    for meth in ('index', 'count', '__contains__', '__reversed__'):
        fn = vw.lookup(meth)
        if isinstance(fn, FuncInfo) and fn.cls is vw:
            ctx.check(meth not in problems, rid, f'models.internal.value_properties:RepeatedValueWrapper.{meth}', 'list semantics of the filtered view',
                      problems.get(meth, ''), fn.where, note=f'{len(layouts)} raw layouts')
    for meth in ('__len__', '__iter__', '__getitem__', '__setitem__', '__delitem__', 'insert', 'append', 'extend', 'pop', 'remove', 'discard', 'clear'):
        fn = vw.lookup(meth)
        if not isinstance(fn, FuncInfo):
            continue
        ctx.check(meth not in problems, rid, f'models.internal.value_properties:RepeatedValueWrapper.{meth}', 'list semantics of the filtered view',
                  problems.get(meth, ''), fn.where, note=f'{len(layouts)} raw layouts')


# ====================================================================== DROP-REFUSE (C19, added after seeded round 6)
def rule_drop_refuse(ctx: RuleContext, p: Program, rid: str) -> None:
    ctx.rule(rid, 'drop_many, interpreted on batches of positions that contain one beyond the end of the list (in any order of the batch): the '
                  'deletion primitive refuses that position with IndexError, and at that moment no token range has been deleted and the item '
                  'list is untouched -- the refused batch leaves text and tree as they were')
    nw = p.cls('RepeatedNodeWrapper', 'models.internal.properties')
    dm = p.method(nw, 'drop_many', inherited=False)
    problem, cases = _drop_many_sem(p, dm, refusals=True)
    if cases < 100 and not problem:
        raise AnalysisError(f'DROP-REFUSE: only {cases} batches evaluated')
    ctx.check(not problem, rid, 'models.internal.properties:RepeatedNodeWrapper.drop_many', problem or 'ok',
              f'drop_many on a batch with a position that does not exist: {problem}', dm.where, note=f'{cases} refused batches')
