"""OP-SEM (C13, C15): the operator helpers of NumberExpr, interpreted on abstract expression trees over a mock token store.

What is decided: `_iaddsub`, `_imuldiv`, `_unary`, `wrap_with_parenthesis` (with `_as_mul_expr`, `_as_atom_expr`, `_wrap_paren`) and
`_add_expr_from_value` are interpreted from their ASTs.  The trees they are given and the trees they build are mock objects filled by
interpreting the real `__init__` of the five expression classes; `first_token` / `last_token` / `value` are the real property getters,
interpreted.  The store is a flat list of abstract tokens.  After every operation three readings of the result must agree with the
arithmetic result on exact rationals:

  (tree)   the value the interpreted `value` getters compute from the tree that was built;
  (text)   the value of the token texts in the store, read by this module's own little expression parser with the usual precedence and
           left associativity (so missing parentheses show);
  (shape)  the leaves of the tree, in order, are exactly the non-blank tokens of the store (so a tree that disagrees with its text shows).

and the right operand's own tree and store are untouched.  Mocks: Number.from_value / MulOp.from_raw_text / ... build abstract tokens;
detach() of a tree that spans its store hands over the store's tokens; copy.deepcopy is a graph copy."""
from __future__ import annotations

import ast
import decimal
import fractions
import itertools
from typing import Any, Optional

from ..model import AnalysisError, ClassInfo, CustomProp, DescriptorDecl, FuncInfo, Program, norm
from ..report import RuleContext

F = fractions.Fraction
TREES = ('NumberExpr', 'NumberAddExpr', 'NumberMulExpr', 'NumberUnaryExpr', 'NumberParenExpr')
TOKENS = {'Number': 'N', 'AddOp': 'op', 'MulOp': 'op', 'UnaryOp': 'op', 'LeftParen': '(', 'RightParen': ')', 'Whitespace': 'ws'}


class _Bad(Exception):
    pass


def _text_value(texts: list[str]) -> F:
    """value of an expression given as token texts: + - * / left-associative, unary signs, parentheses"""
    pos = 0

    def peek() -> Optional[str]:
        return texts[pos] if pos < len(texts) else None

    def take() -> str:
        nonlocal pos
        pos += 1
        return texts[pos - 1]

    def atom() -> F:
        t = peek()
        if t is None:
            raise _Bad('the text ends where an operand is expected')
        if t in '+-' and len(t) == 1:
            take()
            v = atom()
            return -v if t == '-' else v
        if t == '(':
            take()
            v = add()
            if peek() != ')':
                raise _Bad('unbalanced parenthesis in the text')
            take()
            return v
        take()
        try:
            return F(t.replace(',', ''))
        except (ValueError, ZeroDivisionError):
            raise _Bad(f'{t!r} where a number is expected')

    def mul() -> F:
        v = atom()
        while peek() in ('*', '/'):
            o = take()
            w = atom()
            if o == '/' and w == 0:
                raise _Bad('division by zero')
            v = v * w if o == '*' else v / w
        return v

    def add() -> F:
        v = mul()
        while peek() in ('+', '-'):
            o = take()
            w = mul()
            v = v + w if o == '+' else v - w
        return v

    v = add()
    if pos != len(texts):
        raise _Bad(f'the text goes on after a complete expression: {" ".join(texts[pos:])!r}')
    return v


def rule_op_sem(ctx: RuleContext, p: Program, rid: str) -> None:
    from . import possem
    from .tokenstore import TS
    ctx.rule(rid, 'the operator helpers of NumberExpr (_iaddsub, _imuldiv, _unary, wrap_with_parenthesis and the level coercions they call) and '
                  '_add_expr_from_value, interpreted on abstract expression trees over a mock store, for every pair of operands from a family of '
                  '13 expression shapes (numbers, signs, sums, products, quotients, mixed chains, parentheses) and every operator: the value of '
                  'the tree that is built (read by the interpreted value getters), the value of the token texts now in the store (read with the '
                  'usual precedence and left associativity) and the arithmetic result are the same rational number; the leaves of the tree are '
                  'exactly the non-blank tokens of the store, in order; operator and operand lists are in step; the right operand is untouched; '
                  'and from_value(v) gives an expression of value v whose NUMBER tokens carry no sign (v over zeros of both signs, negatives, '
                  'fractions); NumberMulExpr.from_children / NumberAddExpr.from_children, interpreted on 1..3 operands as a caller has them (a '
                  'NUMBER token in no store, sign / parenthesis trees with a store of their own, a product made by from_children itself) and '
                  'fresh operators, return a tree that has a store, spans it, whose leaves are the store\'s tokens and whose value is the arithmetic one')
    m = p.module('models.number_expr')
    ts = TS(p)
    cls_of = {n: next(c for c in p.class_by_name.get(n, []) if 'generated' not in c.module.name or n not in ('NumberExpr', 'NumberUnaryExpr', 'NumberParenExpr')
                      or len(p.class_by_name.get(n, [])) == 1) for n in TREES}
    # the concrete (hand-written) class where one exists
    for n in TREES:
        cands = [c for c in p.class_by_name.get(n, []) if not c.module.name.endswith('_test') and '.models' in c.module.name]
        hand = [c for c in cands if '.generated' not in c.module.name]
        cls_of[n] = (hand or cands)[0]
    fn_of = {f.qualname: f for f in p.functions_in(m)}

    class Interp(possem.PosInterp):
        tag = 'OP-SEM'
        _foreign_methods = True          # the value getters live in the modules of their classes: their globals are resolved there

        def __init__(self) -> None:
            super().__init__(ts, [], module=m)

        # ---- objects
        def is_tok(self, v: Any) -> bool:
            return isinstance(v, possem.Obj) and v.cls in TOKENS

        def is_tree(self, v: Any) -> bool:
            return isinstance(v, possem.Obj) and v.cls in TREES

        def instantiate_tree(self, name: str, args: list, kwargs: dict) -> Any:
            c = cls_of[name]
            o = possem.Obj(name, {}, name)
            init = c.lookup('__init__')
            if not isinstance(init, FuncInfo):
                raise AnalysisError(f'OP-SEM: {name}.__init__ not found')
            self.call_function(init, [o] + args, kwargs)
            return o

        def store_of(self, v: Any) -> Any:
            if self.is_tree(v):
                return v.f.get('_token_store')
            if self.is_tok(v):
                return v.f.get('store')
            return None

        def leaves(self, v: Any, depth: int = 0) -> list:
            """tokens of a tree in document order, from its structure"""
            if depth > 12:
                raise _Bad('the tree is cyclic')
            if self.is_tok(v):
                return [v]
            if not self.is_tree(v):
                raise _Bad(f'{v!r} inside an expression tree')
            c = cls_of[v.cls]
            if v.cls in ('NumberAddExpr', 'NumberMulExpr'):
                ops, opr = self.get(v, 'raw_ops'), self.get(v, 'raw_operands')
                if len(ops) != len(opr) - 1:
                    raise _Bad(f'{v.cls} with {len(opr)} operand(s) and {len(ops)} operator(s): the two lists are out of step')
                out = self.leaves(opr[0], depth + 1)
                for o, x in zip(ops, opr[1:]):
                    out += [o] + self.leaves(x, depth + 1)
                return out
            kids = [v.f[k] for k in self.field_order(c) if k in v.f]
            out = []
            for k in kids:
                out += self.leaves(k, depth + 1)
            return out

        def field_order(self, c: ClassInfo) -> list[str]:
            init = c.lookup('__init__')
            return ['_' + q for q in init.params[2:]] if isinstance(init, FuncInfo) else []

        def get(self, o: Any, attr: str) -> Any:
            return self.attr_of(o, attr, None)

        def attr_of(self, o: Any, attr: str, node: Any) -> Any:
            if self.is_tok(o):
                if attr in ('first_token', 'last_token'):
                    return o
                if attr == 'token_store':
                    return o.f.get('store')
                if attr == 'tokens':
                    return [o]
                if attr in o.f:
                    return o.f[attr]
                raise self.err(node or ast.Constant(value=0), f'attribute {attr} of a token')
            if self.is_tree(o):
                if attr in o.f:
                    return o.f[attr]
                if attr == 'token_store':
                    return o.f.get('_token_store')
                sym = cls_of[o.cls].lookup(attr)
                if isinstance(sym, CustomProp) and sym.fget is not None:
                    return self.call_function(sym.fget, [o], {})
                if isinstance(sym, FuncInfo) and sym.kind == 'getter':
                    return self.call_function(sym, [o], {})
                if isinstance(sym, DescriptorDecl):
                    inner = norm(sym.call.args[0]) if sym.call.args else ''
                    if inner in o.f:
                        return o.f[inner]
                if isinstance(sym, FuncInfo):
                    return possem.Bound(o, sym)
                raise self.err(node or ast.Constant(value=0), f'attribute {attr} of {o.cls}')
            raise self.err(node or ast.Constant(value=0), f'attribute {attr}')

        # ---- store
        def idx(self, store: Any, t: Any, node: Any) -> int:
            for i, x in enumerate(store.f['doc']):
                if x is t:
                    return i
            raise possem.Raised('ValueError: token is not in the store')

        def store_call(self, store: Any, name: str, args: list, node: Any) -> Any:
            d = store.f['doc']
            if name in ('get_prev', 'get_next'):
                i = self.idx(store, args[0], node)
                j = i - 1 if name == 'get_prev' else i + 1
                return d[j] if 0 <= j < len(d) else None
            if name in ('insert_after', 'insert_before'):
                ref, new = args[0], list(args[1])
                if name == 'insert_after':
                    i = 0 if ref is None else self.idx(store, ref, node) + 1
                else:
                    i = 0 if ref is None else self.idx(store, ref, node)
                for x in new:
                    if not self.is_tok(x):
                        raise self.err(node, 'something that is not a token is inserted into the store')
                    if x.f.get('store') is not None:
                        raise possem.Raised('ValueError: Token already in a store.')
                for x in new:
                    x.f['store'] = store
                d[i:i] = new
                return None
            if name in ('get_first', 'get_last'):
                return (d[0] if name == 'get_first' else d[-1]) if d else None
            raise self.err(node, f'store method {name}')

        def detach(self, o: Any, node: Any) -> list:
            st = self.store_of(o)
            if st is None:
                return self.leaves_safe(o)
            d = st.f['doc']
            first, last = self.attr_of(o, 'first_token', node), self.attr_of(o, 'last_token', node)
            if not d or d[0] is not first or d[-1] is not last:
                raise possem.Raised('ValueError: Cannot reuse node (it does not span its whole store).')
            toks = list(d)
            d.clear()
            for t in toks:
                t.f['store'] = None
            return toks

        def leaves_safe(self, o: Any) -> list:
            try:
                return self.leaves(o)
            except _Bad as ex:
                raise possem.Raised(f'ValueError: {ex}')

        def reattach(self, o: Any, store: Any, depth: int = 0) -> None:
            if depth > 12:
                return
            if self.is_tree(o):
                o.f['_token_store'] = store
                for v in list(o.f.values()):
                    if isinstance(v, (tuple, list)):
                        for x in v:
                            if isinstance(x, possem.Obj) and (self.is_tree(x)):
                                self.reattach(x, store, depth + 1)
                    elif self.is_tree(v):
                        self.reattach(v, store, depth + 1)

        def graph_copy(self, v: Any, memo: dict) -> Any:
            if isinstance(v, possem.Obj):
                if id(v) in memo:
                    return memo[id(v)]
                c = possem.Obj(v.cls, {}, v.label if v.label.startswith('copy') else f'copy of {v.label}')
                memo[id(v)] = c
                for k, x in v.f.items():
                    c.f[k] = self.graph_copy(x, memo)
                return c
            if isinstance(v, list):
                return [self.graph_copy(x, memo) for x in v]
            if isinstance(v, tuple):
                return tuple(self.graph_copy(x, memo) for x in v)
            if isinstance(v, dict):
                return {k: self.graph_copy(x, memo) for k, x in v.items()}
            return v

        # ---- interpretation hooks
        def expr(self, e: Any, env: dict) -> Any:                 # type: ignore[override]
            if isinstance(e, ast.Attribute) and not (isinstance(e.value, ast.Name) and e.value.id not in env) \
                    and not (isinstance(e.value, ast.Call) and norm(e.value.func) == 'super'):
                try:
                    b = self.expr(e.value, env)
                except AnalysisError:
                    b = None
                if self.is_tok(b) or self.is_tree(b):
                    return self.attr_of(b, e.attr, e)
            if isinstance(e, ast.Call):
                fname = norm(e.func)
                last = fname.rsplit('.', 1)[-1]
                if fname in ('copy.deepcopy', 'deepcopy') and e.args:
                    return self.graph_copy(self.expr(e.args[0], env), {})
                if isinstance(e.func, ast.Attribute) and isinstance(e.func.value, ast.Call) and norm(e.func.value.func) == 'super' and last == '__init__':
                    me = env.get('self')
                    args = [self.expr(a, env) for a in e.args]
                    if self.is_tree(me) and args:
                        me.f['_token_store'] = args[0]
                    return None
                if fname in TREES or (isinstance(e.func, ast.Name) and e.func.id in TREES and e.func.id not in env):
                    return self.instantiate_tree(last, [self.expr(a, env) for a in e.args], {k.arg: self.expr(k.value, env) for k in e.keywords})
                if isinstance(e.func, ast.Call) and isinstance(e.func.func, ast.Name) and e.func.func.id == 'type' and 'type' not in env and len(e.func.args) == 1:
                    o_ = self.expr(e.func.args[0], env)          # type(self)(...)
                    if self.is_tree(o_):
                        return self.instantiate_tree(o_.cls, [self.expr(a, env) for a in e.args], {k.arg: self.expr(k.value, env) for k in e.keywords})
                if fname in ('cls',) and isinstance(env.get('cls'), possem.ClassRef) and env['cls'].name in TREES:
                    return self.instantiate_tree(env['cls'].name, [self.expr(a, env) for a in e.args], {k.arg: self.expr(k.value, env) for k in e.keywords})
                if fname.endswith('TokenStore.from_tokens') and len(e.args) == 1:
                    toks = list(self.iter_of(self.expr(e.args[0], env), e))
                    st = possem.Obj('Store', {'doc': []}, 'store')
                    self.store_call(st, 'insert_after', [None, toks], e)
                    return st
                if isinstance(e.func, ast.Attribute):
                    head = norm(e.func.value).rsplit('.', 1)[-1]
                    if head in TOKENS and e.func.attr in ('from_raw_text', 'from_default', 'from_value') and not (isinstance(e.func.value, ast.Name) and e.func.value.id in env):
                        args = [self.expr(a, env) for a in e.args]
                        if e.func.attr == 'from_default':
                            text = {'LeftParen': '(', 'RightParen': ')', 'Whitespace': ' '}.get(head)
                            if text is None:
                                raise self.err(e, f'{head}.from_default()')
                            return possem.Obj(head, {'raw_text': text, 'store': None}, f'new {text!r}')
                        if e.func.attr == 'from_raw_text':
                            return possem.Obj(head, {'raw_text': args[0], 'store': None}, f'new {args[0]!r}')
                        v = args[0]
                        if head == 'Number':
                            if isinstance(v, decimal.Decimal):
                                if v.is_signed():
                                    self.problems.append(f'Number.from_value is handed the signed value {v!r}: a NUMBER token cannot carry a sign '
                                                         f'(the sign is an operator node of its own; a constructed tree that hides it in the number '
                                                         f'differs from the tree its own text parses to)')
                                return possem.Obj('Number', {'raw_text': format(v.copy_abs(), 'f'), 'value': F(v), 'store': None}, f'new number {v}')
                            raise self.err(e, f'Number.from_value({v!r})')
                    b = None
                    if not (isinstance(e.func.value, ast.Name) and e.func.value.id not in env):
                        b = self.expr(e.func.value, env)
                    if isinstance(b, possem.Obj) and b.cls == 'Store':
                        return self.store_call(b, e.func.attr, [self.expr(a, env) for a in e.args], e)
                    if (self.is_tree(b) or self.is_tok(b)) and e.func.attr == 'detach' and not e.args:
                        return self.detach(b, e)
                    if (self.is_tree(b) or self.is_tok(b)) and e.func.attr == 'reattach':
                        st = self.expr(e.args[0], env)
                        self.reattach(b, st)
                        return b
                    if self.is_tree(b):
                        sym = cls_of[b.cls].lookup(e.func.attr)
                        if isinstance(sym, FuncInfo):
                            return self.call_function(sym, [b] + [self.expr(a, env) for a in e.args], {k.arg: self.expr(k.value, env) for k in e.keywords})
                if isinstance(e.func, ast.Name) and e.func.id == 'isinstance' and 'isinstance' not in env and len(e.args) == 2:
                    v = self.expr(e.args[0], env)
                    names = [norm(x).rsplit('.', 1)[-1] for x in (e.args[1].elts if isinstance(e.args[1], ast.Tuple) else [e.args[1]])]
                    return isinstance(v, possem.Obj) and v.cls in names
            if isinstance(e, ast.Starred):
                return self.expr(e.value, env)
            return super().expr(e, env)

        def assign(self, t: Any, v: Any, env: dict) -> None:      # type: ignore[override]
            if isinstance(t, ast.Attribute):
                b = self.expr(t.value, env)
                if self.is_tree(b) or self.is_tok(b):
                    b.f[t.attr] = v
                    return
            super().assign(t, v, env)

        def compare(self, op: Any, a: Any, b: Any, node: Any) -> bool:          # type: ignore[override]
            num = (int, F, decimal.Decimal)
            if isinstance(a, num) and isinstance(b, num) and not isinstance(a, bool) and not isinstance(b, bool) and not isinstance(op, (ast.Is, ast.IsNot)):
                return {ast.Lt: a < b, ast.LtE: a <= b, ast.Gt: a > b, ast.GtE: a >= b, ast.Eq: a == b, ast.NotEq: a != b}[type(op)]
            return super().compare(op, a, b, node)

        def truth(self, v: Any, node: Any) -> bool:               # type: ignore[override]
            if isinstance(v, (F, decimal.Decimal)):
                return v != 0
            return super().truth(v, node)

    # ---- building operand trees from text with the real constructors
    def build(it: Any, text: str) -> Any:
        toks = text.split()
        store = possem.Obj('Store', {'doc': []}, f'store of {text!r}')
        objs = []
        for t in toks:
            kind = 'LeftParen' if t == '(' else 'RightParen' if t == ')' else 'Number' if t[0].isdigit() else None
            objs.append((t, kind))
        pos = 0

        def mk(kind: str, text_: str) -> Any:
            o = possem.Obj(kind, {'raw_text': text_, 'store': store}, f'{text_!r}')
            if kind == 'Number':
                o.f['value'] = F(text_)
            if store.f['doc']:
                ws = possem.Obj('Whitespace', {'raw_text': ' ', 'store': store}, "' '")
                store.f['doc'].append(ws)
            store.f['doc'].append(o)
            return o

        def atom() -> Any:
            nonlocal pos
            t, kind = objs[pos]
            if t in '+-' and kind is None:
                pos += 1
                opn = mk('UnaryOp', t)
                inner = atom()
                return it.instantiate_tree('NumberUnaryExpr', [store, opn, inner], {})
            if kind == 'LeftParen':
                pos += 1
                lp = mk('LeftParen', '(')
                inner = add()
                pos += 1
                rp = mk('RightParen', ')')
                return it.instantiate_tree('NumberParenExpr', [store, lp, inner, rp], {})
            pos += 1
            return mk('Number', t)

        def mul() -> Any:
            nonlocal pos
            operands, ops = [atom()], []
            while pos < len(objs) and objs[pos][0] in '*/':
                ops.append(mk('MulOp', objs[pos][0]))
                pos += 1
                operands.append(atom())
            return it.instantiate_tree('NumberMulExpr', [store, tuple(operands), tuple(ops)], {})

        def add() -> Any:
            nonlocal pos
            operands, ops = [mul()], []
            while pos < len(objs) and objs[pos][0] in '+-':
                ops.append(mk('AddOp', objs[pos][0]))
                pos += 1
                operands.append(mul())
            return it.instantiate_tree('NumberAddExpr', [store, tuple(operands), tuple(ops)], {})

        a = add()
        return it.instantiate_tree('NumberExpr', [store, a], {})

    def readings(it: Any, expr: Any) -> tuple[F, F]:
        """(value of the tree by the interpreted getters, value of the store's text); raises _Bad"""
        store = it.store_of(expr)
        if not (isinstance(store, possem.Obj) and store.cls == 'Store'):
            raise _Bad('the expression has no token store')
        doc = [t for t in store.f['doc'] if t.cls != 'Whitespace']
        if any(t.f.get('store') is not store for t in store.f['doc']):
            raise _Bad('a token in the store does not point back to it')
        lv = it.leaves(expr)
        if [id(x) for x in lv] != [id(x) for x in doc]:
            same_text = [str(x.f.get('raw_text')) for x in lv] == [str(x.f.get('raw_text')) for x in doc]
            raise _Bad(f'the tree\'s leaves read [{" ".join(str(x.f.get("raw_text")) for x in lv)}] but the store holds '
                       f'[{" ".join(str(x.f.get("raw_text")) for x in doc)}]: tree and text disagree'
                       + (' (the same texts, but different token objects at some position: an operator is paired with the wrong operand)' if same_text else ''))
        tv = it.attr_of(expr, 'value', None)
        if not isinstance(tv, (F, int)):
            raise _Bad(f'the value getters give {tv!r}')
        xv = _text_value([str(t.f['raw_text']) for t in doc])
        return F(tv), xv

    shapes = ['7', '- 7', '+ 7', '7 + 3', '7 - 3', '7 * 3', '7 / 3', '7 * 3 + 2', '2 * 3 / 5', '( 7 + 3 )', '- ( 7 + 3 )', '7 + 3 * 2', '7 / 3 / 2']
    ref = {'+': lambda a, b: a + b, '-': lambda a, b: a - b, '*': lambda a, b: a * b, '/': lambda a, b: a / b}
    ne = cls_of['NumberExpr']
    entry = {'+': ('_iaddsub', '+'), '-': ('_iaddsub', '-'), '*': ('_imuldiv', '*'), '/': ('_imuldiv', '/')}
    problems: dict[str, str] = {}
    n = 0
    for sa, sb in itertools.product(shapes, repeat=2):
        for sym, (meth, arg) in entry.items():
            it = Interp()
            it.problems = []
            try:
                a, b = build(it, sa), build(it, sb)
                va, vb = readings(it, a)[0], readings(it, b)[0]
            except (_Bad, possem.Raised) as ex:
                raise AnalysisError(f'OP-SEM: operand {sa!r} / {sb!r} cannot be built: {ex}')
            if sym == '/' and vb == 0:
                continue
            b_store = it.store_of(b)
            b_doc = list(b_store.f['doc'])
            n += 1
            fn = ne.lookup(meth)
            show = f'({sa.replace(" ", "")}) {sym} ({sb.replace(" ", "")})'
            try:
                res = it.call_function(fn, [a, b, arg], {})
                tv, xv = readings(it, res)
            except possem.Raised as ex:
                problems.setdefault(meth, f'{show}: raises {ex}')
                continue
            except _Bad as ex:
                problems.setdefault(meth, f'{show}: {ex}')
                continue
            want = ref[sym](va, vb)
            if tv != want or xv != want:
                problems.setdefault(meth, f'{show}: arithmetic gives {want}; the tree that is built evaluates to {tv}, its text '
                                          f'[{" ".join(str(t.f["raw_text"]) for t in it.store_of(res).f["doc"] if t.cls != "Whitespace")}] to {xv}')
                continue
            if res is not a:
                # the helper works in place (x *= n, and x * n on a private copy): the expression it was applied to is the one whose store
                # received the operator and the operand, so it must describe them
                try:
                    tva, xva = readings(it, a)
                    if tva != want or xva != want:
                        raise _Bad(f'it evaluates to {tva}, its text to {xva}')
                except (_Bad, possem.Raised) as ex:
                    problems.setdefault(meth, f'{show}: the result is handed back as a new expression object while the tokens were spliced into the store of '
                                              f'the expression the operator was applied to, which no longer describes its own text ({ex}): after '
                                              f'`x.number *= n` the document holds the new tokens under the old tree')
                    continue
            if [id(x) for x in b_store.f['doc']] != [id(x) for x in b_doc] or readings(it, b)[0] != vb:
                problems.setdefault(meth, f'{show}: the right operand (or the store it lives in) is changed by the operation')
    # unary signs and explicit parentheses
    for sa in shapes:
        for sign in ('+', '-'):
            it = Interp()
            it.problems = []
            a = build(it, sa)
            va = readings(it, a)[0]
            a_doc = list(it.store_of(a).f['doc'])
            n += 1
            try:
                add_expr = it.call_function(fn_of['_unary'], [a, sign], {})
                res = it.instantiate_tree('NumberExpr', [it.store_of(add_expr), add_expr], {})
                tv, xv = readings(it, res)
            except (possem.Raised, _Bad) as ex:
                problems.setdefault('_unary', f'{sign}({sa.replace(" ", "")}): {ex}')
                continue
            want = -va if sign == '-' else va
            if tv != want or xv != want:
                problems.setdefault('_unary', f'{sign}({sa.replace(" ", "")}): arithmetic gives {want}; tree {tv}, text {xv}')
            elif [id(x) for x in it.store_of(a).f['doc']] != [id(x) for x in a_doc]:
                problems.setdefault('_unary', f'{sign}({sa.replace(" ", "")}): the operand is changed')
        it = Interp()
        it.problems = []
        a = build(it, sa)
        va = readings(it, a)[0]
        n += 1
        try:
            it.call_function(ne.lookup('wrap_with_parenthesis'), [a], {})
            tv, xv = readings(it, a)
            if tv != va or xv != va:
                problems.setdefault('wrap_with_parenthesis', f'({sa.replace(" ", "")}): value {va} becomes tree {tv}, text {xv}')
        except (possem.Raised, _Bad) as ex:
            problems.setdefault('wrap_with_parenthesis', f'({sa.replace(" ", "")}): {ex}')
    # from_value
    for v in ('0', '-0', '0.00', '-0.00', '5', '-5', '12.50', '-12.50', '0.0000001', '-0.0000001'):
        it = Interp()
        it.problems = []
        dv = decimal.Decimal(v)
        n += 1
        try:
            add_expr = it.call_function(fn_of['_add_expr_from_value'], [dv], {})
            res = it.instantiate_tree('NumberExpr', [it.store_of(add_expr), add_expr], {})
            tv, xv = readings(it, res)
            if it.problems:
                problems.setdefault('_add_expr_from_value', f'from_value(Decimal({v!r})): {it.problems[0]}')
            elif tv != F(dv) or xv != F(dv):
                problems.setdefault('_add_expr_from_value', f'from_value(Decimal({v!r})): tree evaluates to {tv}, text to {xv}')
        except (possem.Raised, _Bad) as ex:
            problems.setdefault('_add_expr_from_value', f'from_value(Decimal({v!r})): {ex}')
    # from_children of the two hand-written chain classes: operands as a caller has them (a NUMBER token fresh from from_value / parse_token --
    # in no store --, a sign or parenthesis tree spanning a store of its own, a product built by from_children itself), operators fresh
    def atom_of(it: Any, shape: str) -> Any:
        if shape == 'free':
            return possem.Obj('Number', {'raw_text': '7', 'value': F(7), 'store': None}, "free number '7'")
        e_ = build(it, shape)
        return it.get(it.get(it.get(e_, 'raw_number_add_expr'), 'raw_operands')[0], 'raw_operands')[0]

    def mul_of(it: Any, shape: str) -> Any:
        if shape == 'made':
            return it.call_function(cls_of['NumberMulExpr'].lookup('from_children'), [possem.ClassRef('NumberMulExpr'), (atom_of(it, 'free'),), ()], {})
        e_ = build(it, shape)
        return it.get(it.get(e_, 'raw_number_add_expr'), 'raw_operands')[0]

    def check_chain(it: Any, res: Any, want: F, operands: list, show: str, key: str) -> None:
        store = it.store_of(res)
        if not (isinstance(store, possem.Obj) and store.cls == 'Store'):
            problems.setdefault(key, f'{show}: the tree that is returned has no token store (it prints as the empty text, and as an operand of a '
                                     f'further from_children it contributes no tokens)')
            return
        doc = [t for t in store.f['doc'] if t.cls != 'Whitespace']
        if any(t.f.get('store') is not store for t in store.f['doc']):
            problems.setdefault(key, f'{show}: a token in the store does not point back to it')
            return
        try:
            lv = it.leaves(res)
        except _Bad as ex:
            problems.setdefault(key, f'{show}: {ex}')
            return
        if [id(x) for x in lv] != [id(x) for x in doc]:
            problems.setdefault(key, f'{show}: the tree\'s leaves read [{" ".join(str(x.f.get("raw_text")) for x in lv)}] but its store holds '
                                     f'[{" ".join(str(x.f.get("raw_text")) for x in doc)}]')
            return
        for o_ in operands:
            if it.is_tree(o_) and it.store_of(o_) is not store:
                problems.setdefault(key, f'{show}: an operand still refers to its old store')
                return
        tv = it.attr_of(res, 'value', None)
        xv = _text_value([str(t.f['raw_text']) for t in doc])
        if F(tv) != want or xv != want:
            problems.setdefault(key, f'{show}: arithmetic gives {want}; the tree evaluates to {tv}, its text to {xv}')

    fc_n = 0
    atom_vals = {'free': F(7), '- 7': F(-7), '( 7 + 3 )': F(10)}
    for k_ in (1, 2, 3):
        for shapes_ in itertools.product(atom_vals, repeat=k_):
            for ops_ in itertools.product('*/', repeat=k_ - 1):
                it = Interp()
                it.problems = []
                operands_ = [atom_of(it, sh) for sh in shapes_]
                optoks = [possem.Obj('MulOp', {'raw_text': o, 'store': None}, f'new {o!r}') for o in ops_]
                want = atom_vals[shapes_[0]]
                for o, sh in zip(ops_, shapes_[1:]):
                    want = want * atom_vals[sh] if o == '*' else want / atom_vals[sh]
                show = 'NumberMulExpr.from_children((' + ', '.join(shapes_) + '), (' + ', '.join(ops_) + '))'
                fc_n += 1
                try:
                    res = it.call_function(cls_of['NumberMulExpr'].lookup('from_children'), [possem.ClassRef('NumberMulExpr'), tuple(operands_), tuple(optoks)], {})
                    check_chain(it, res, want, operands_, show, 'NumberMulExpr.from_children')
                except (possem.Raised, _Bad) as ex:
                    problems.setdefault('NumberMulExpr.from_children', f'{show}: {ex}')
    mul_vals = {'made': F(7), '7': F(7), '7 * 3': F(21), '- 7': F(-7), '( 7 + 3 )': F(10)}
    for k_ in (1, 2, 3):
        for shapes_ in itertools.product(mul_vals, repeat=k_):
            if k_ == 3 and len(set(shapes_)) == 3 and 'made' not in shapes_:
                continue
            for ops_ in itertools.product('+-', repeat=k_ - 1):
                it = Interp()
                it.problems = []
                show = 'NumberAddExpr.from_children((' + ', '.join('from_children((free number,), ())' if sh == 'made' else sh for sh in shapes_) + '), (' + ', '.join(ops_) + '))'
                fc_n += 1
                try:
                    operands_ = [mul_of(it, sh) for sh in shapes_]
                    optoks = [possem.Obj('AddOp', {'raw_text': o, 'store': None}, f'new {o!r}') for o in ops_]
                    want = mul_vals[shapes_[0]]
                    for o, sh in zip(ops_, shapes_[1:]):
                        want = want + mul_vals[sh] if o == '+' else want - mul_vals[sh]
                    res = it.call_function(cls_of['NumberAddExpr'].lookup('from_children'), [possem.ClassRef('NumberAddExpr'), tuple(operands_), tuple(optoks)], {})
                    check_chain(it, res, want, operands_, show, 'NumberAddExpr.from_children')
                except (possem.Raised, _Bad) as ex:
                    problems.setdefault('NumberAddExpr.from_children', f'{show}: {ex}')
    n += fc_n
    if fc_n < 300:
        raise AnalysisError(f'OP-SEM: only {fc_n} from_children calls evaluated')
    for key in ('NumberMulExpr.from_children', 'NumberAddExpr.from_children'):
        f = cls_of[key.split('.')[0]].lookup('from_children')
        ctx.check(key not in problems, rid, f'models.{"number_mul_expr" if "Mul" in key else "number_add_expr"}:{key}', 'a tree spanning a store of its own',
                  f'{key}: {problems.get(key, "")}', f.where if isinstance(f, FuncInfo) else '', note=f'{fc_n} from_children calls')
    if n < 600:
        raise AnalysisError(f'OP-SEM: only {n} operations evaluated')
    for meth in ('_iaddsub', '_imuldiv', '_unary', 'wrap_with_parenthesis', '_add_expr_from_value'):
        f = ne.lookup(meth) if meth in ('_iaddsub', '_imuldiv', 'wrap_with_parenthesis') else fn_of.get(meth)
        ctx.check(meth not in problems, rid, f'models.number_expr:{meth}', 'tree value = text value = arithmetic',
                  f'{meth}: {problems.get(meth, "")}', f.where if isinstance(f, FuncInfo) else '', note=f'{n} operations in all')
