"""C02 -- changing one token changes only that token's characters (effect confinement)."""
from __future__ import annotations

import ast

from ..absint import EffectInterp
from ..absval import B, NoneV, Obj, Plain
from ..model import AnalysisError, CustomProp, Program, norm, walk_no_nested
from ..report import RuleContext

EXPLANATION = (
    'Static effect analysis. TOKSET-CONF: every setter of every registered token class (value, raw_text, indent, claimed; '
    'each class analysed separately with the effect / ownership interpreter) has effects only of kind token-text / claim-flag, '
    'produced inside methods of the token\'s own class hierarchy: no store-structure effect (no token is inserted, removed or '
    're-ordered), no tree-shape effect, no write to another object. UPDATE-CONF: TokenStore.update, the only store routine a text '
    'change reaches, assigns nothing but the owning block\'s size and last_newline_index (never tokens, handles, block list, length '
    'or indexes), so identity and order of all tokens are untouched. TEXT-ROUTE: every token setter that changes text reaches '
    'Token._update_raw_text exactly through self. It does NOT decide that the printed text equals the input with the span '
    'replaced (follows from C01 plus these, but is a runtime equality).')


def rule_tokset_conf(ctx: RuleContext, p: Program, rid: str) -> None:
    ctx.rule(rid, 'a token setter only changes that token: effects are token-text / claim-flag writes made by methods of the '
                  'token class hierarchy; no store-structure or tree-shape effect')
    it = EffectInterp(p)
    base = p.cls('RawTokenModel', 'models.base')
    tok_funcs_prefix = ('token_store:Token.',)
    n = 0
    for c in p.registered('token_model'):
        me = Obj(frozenset({c.qualname}), B, False)
        for nm in ('value', 'raw_text', 'indent', 'claimed'):
            sym = c.lookup(nm)
            if not isinstance(sym, CustomProp) or sym.fset is None:
                continue
            for v in (Plain('param'), Obj(None, B, False)):
                summ = it.run_store(f'{c.name}.{nm}', me, nm, v)
                n += 1
                bad = []
                for stack, (kind, detail) in summ.muts.items():
                    fn = stack[-1][0]
                    own_method = any(fn.endswith(f':{k.name}.{m}') or f':{k.name}.' in fn for k in c.mro for m in ('',))
                    if kind not in ('text', 'claim') or not own_method:
                        bad.append((kind, detail, [f'{x[0]}: {x[1]}' for x in stack]))
                site = f'{c.module.name.split(".", 1)[1]}:{c.name}.{nm}[set]'
                if bad:
                    kind, detail, path = bad[0]
                    ctx.fail(rid, site, f'{kind}: {detail}', f'setting {c.name}.{nm} has a {kind} effect outside the token itself ({detail})',
                             c.where, path)
                else:
                    ctx.ok(rid, site, f'{len(summ.muts)} effect(s), all token-text / claim on self', nontrivial=bool(summ.muts))
    if n < 60:
        raise AnalysisError(f'TOKSET-CONF: only {n} token setter runs (>= 60 expected)')
    if it.stats['unresolved_calls'] > 20:
        raise AnalysisError(f'TOKSET-CONF: unresolved calls {list(it.stats["unresolved_sites"].items())[:5]}')


def rule_update_conf(ctx: RuleContext, p: Program, rid: str) -> None:
    ctx.rule(rid, 'TokenStore.update assigns only <block>.size.line / .size.column / .last_newline_index of the token\'s own block; '
                  'Token._update_raw_text calls nothing on the store but update()')
    st = p.cls('TokenStore', 'token_store')
    f = p.method(st, 'update', inherited=False)
    n = 0
    # local aliases of attribute chains (`block = handle.block`) are expanded before a written path is judged
    alias: dict[str, str] = {}
    for a in walk_no_nested(f.node):
        if isinstance(a, ast.Assign) and len(a.targets) == 1 and isinstance(a.targets[0], ast.Name) and isinstance(a.value, ast.Attribute):
            nm = a.targets[0].id
            alias[nm] = '' if nm in alias else norm(a.value)

    def expand(txt: str, depth: int = 0) -> str:
        head, _, rest = txt.partition('.')
        if depth < 4 and alias.get(head):
            return expand(alias[head], depth + 1) + ('.' + rest if rest else '')
        return txt

    for a in walk_no_nested(f.node):
        tg = a.targets if isinstance(a, ast.Assign) else [a.target] if isinstance(a, ast.AugAssign) else a.targets if isinstance(a, ast.Delete) else []
        for t in tg:
            if isinstance(t, ast.Name):
                continue
            n += 1
            txt = expand(norm(t))
            ok = txt.endswith(('.block.size.line', '.block.size.column', '.block.last_newline_index'))
            ctx.check(ok, rid, 'token_store:TokenStore.update', norm(a)[:100], f'TokenStore.update writes `{txt}`: a text update must not touch '
                      f'tokens, handles, the block list, the length or indexes', f.where, note=txt)
    calls = [c for c in walk_no_nested(f.node) if isinstance(c, ast.Call) and isinstance(c.func, ast.Attribute)
             and c.func.attr in ('append', 'extend', 'insert', 'pop', 'remove', 'clear', 'rebuild', 'splice', '_splice', '_update_block',
                                 '_merge_blocks', '_split_block', '_update_block_indexes')]
    ctx.check(not calls, rid, 'token_store:TokenStore.update: calls', f'{[norm(c)[:40] for c in calls]}',
              f'TokenStore.update restructures the store: {[norm(c)[:60] for c in calls]}', f.where, note='no structural call')
    if n < 5:
        raise AnalysisError(f'UPDATE-CONF: only {n} writes found in TokenStore.update')
    tk = p.cls('Token', 'token_store')
    u = p.method(tk, '_update_raw_text', inherited=False)
    sc = [c for c in walk_no_nested(u.node) if isinstance(c, ast.Call) and isinstance(c.func, ast.Attribute) and 'store' in norm(c.func.value)]
    ctx.check(len(sc) == 1 and sc[0].func.attr == 'update', rid, 'token_store:Token._update_raw_text', f'{[norm(c)[:50] for c in sc]}',  # type: ignore[union-attr]
              '_update_raw_text calls something other than store.update on the store', u.where, note='store.update only')


def run(ctx: RuleContext, p: Program) -> None:
    ctx.try_rule(rule_tokset_conf, p, 'TOKSET-CONF')
    ctx.try_rule(rule_update_conf, p, 'UPDATE-CONF')
    from . import presence
    ctx.try_rule(presence.rule_presence_truth, p, 'PRESENCE-TRUTH')
    from . import c09 as _c09
    ctx.try_rule(_c09.rule_slot_agree, p, 'SLOT-AGREE')
    from . import round4 as _r4c
    ctx.try_rule(_r4c.rule_custom_sem, p, 'CUSTOM-SEM')
    from . import c01 as _c01
    # the printed output carries the characters of every token's current raw text (a text assigned may be an instance of a str subclass)
    ctx.try_rule(_c01.rule_print_all, p, 'PRINT-ALL')
    from . import viewlive as _vl
    ctx.try_rule(_vl.rule_store_edge, p, 'STORE-EDGE')
    ctx.try_rule(_vl.rule_prop_shadow, p, 'PROP-SHADOW')
    ctx.not_decided += ['that the printed text equals the input with exactly that span replaced (runtime equality; follows from C01 + these)']
    ctx.assumptions += ['primitive: Token._update_raw_text is the single text-changing routine (OWN-TEXT, C08)']
