"""C11 -- a deep copy is equal, exact and fully independent (structural clauses)."""
from __future__ import annotations

import ast

from ..fieldmodel import build_tree_classes, single_return_expr
from ..model import AnalysisError, ClassInfo, FuncInfo, Program, dotted, norm, self_attr, stmts_no_doc, walk_no_nested
from ..report import RuleContext
from . import gen, handmodels, seps

EXPLANATION = (
    'Static analysis (AST coverage, provenance). Decides: COPY-STORE (RawTreeModel.__deepcopy__ builds its token list only '
    'from copy.deepcopy of the tokens of iter(first, last), builds a fresh store from exactly that list and clones onto it '
    'through a mapping transformer), COVER-CLONE (every tree model clone constructs a new instance on the parameter store and '
    'passes every child through .clone, so no child or store is shared), TOKEN-CLONE (every token _clone returns a newly '
    'constructed object, RawTokenModel.__deepcopy__ returns _clone(), token clone/reattach return the transformer image), '
    'SEP-PROV (shared class-level separator tokens only ever enter a store as deep copies). It does NOT decide that the copy '
    'compares equal (C20 covers the structural part) or independence under later edits as a runtime fact.')


def _deepcopy_sem(p: Program, fn: Any) -> list[str]:
    """RawTreeModel.__deepcopy__ interpreted over an abstract model whose span holds 0..3 tokens (plus tokens outside the span)"""
    from . import possem
    from .tokenstore import TS
    ts = TS(p)
    m = p.module('models.base')
    problems: list[str] = []

    class Interp(possem.PosInterp):
        tag = 'COPY-STORE'

        def __init__(self, span: list, outside: list) -> None:
            super().__init__(ts, [], module=m)
            self.span, self.outside = span, outside
            self.copies: list = []
            self.stores: list = []
            self.iter_calls: list = []

        def expr(self, e: Any, env: dict) -> Any:                 # type: ignore[override]
            if isinstance(e, ast.Attribute) and isinstance(e.value, ast.Name) and env.get(e.value.id) is self.me:
                if e.attr == 'tokens':
                    self.iter_calls.append(('first', 'last'))
                    return list(self.span)
                if e.attr in ('token_store', '_token_store'):
                    return self.me.f['_token_store']
            if isinstance(e, ast.Call):
                fname = norm(e.func)
                if isinstance(e.func, ast.Attribute) and e.func.attr == 'iter' and self.expr(e.func.value, env) is self.me.f['_token_store']:
                    args = [self.expr(a, env) for a in e.args]
                    ok = len(args) == 2 and args[0] is self.me.f['first_token'] and args[1] is self.me.f['last_token']
                    self.iter_calls.append(('first', 'last') if ok else ('?', '?'))
                    return list(self.span) if ok else list(self.outside[:1]) + list(self.span) + list(self.outside[1:])
                if isinstance(e.func, ast.Attribute) and e.func.attr in ('get_first', 'get_last') and not e.args \
                        and self.expr(e.func.value, env) is self.me.f['_token_store']:
                    return self.outside[0] if e.func.attr == 'get_first' else self.outside[1]
                if fname in ('copy.deepcopy', 'deepcopy', 'copy.copy') and len(e.args) >= 1:
                    v = self.expr(e.args[0], env)
                    memo_ = self.expr(e.args[1], env) if len(e.args) > 1 else next((self.expr(k.value, env) for k in e.keywords if k.arg == 'memo'), None)
                    if isinstance(v, possem.Obj) and v.cls == 'Tok':
                        # copy.deepcopy(x, memo) returns the copy recorded in memo when x was already copied in this deepcopy operation
                        if isinstance(memo_, dict) and fname != 'copy.copy' and id(v) in memo_:
                            return memo_[id(v)]
                        c = possem.Obj('Tok', {'copy_of': v, 'deep': fname != 'copy.copy'}, f'copy of {v.label}')
                        self.copies.append(c)
                        if isinstance(memo_, dict) and fname != 'copy.copy':
                            memo_[id(v)] = c
                        return c
                    if isinstance(v, list):
                        out = []
                        for x in v:
                            c = possem.Obj('Tok', {'copy_of': x, 'deep': fname != 'copy.copy'}, f'copy of {getattr(x, "label", x)}')
                            self.copies.append(c)
                            out.append(c)
                        return out
                if fname.endswith('TokenStore.from_tokens') and len(e.args) == 1:
                    toks = self.expr(e.args[0], env)
                    st = possem.Obj('NewStore', {'tokens': list(toks)}, 'fresh store')
                    self.stores.append(st)
                    return st
                if isinstance(e.func, (ast.Name, ast.Attribute)) and not (isinstance(e.func, ast.Name) and e.func.id in env):
                    sym_ = p.resolve_expr(m, e.func)
                    if isinstance(sym_, ClassInfo) and any(k.name == 'TokenTransformer' for k in sym_.mro):
                        # any transformer class of the repository: built by interpreting its own __init__
                        o = possem.Obj(sym_.name, {}, f'{sym_.name} instance')
                        init = sym_.lookup('__init__')
                        if isinstance(init, FuncInfo):
                            self.call_function(init, [o] + [self.expr(a, env) for a in e.args], {k.arg: self.expr(k.value, env) for k in e.keywords})
                        return o
                if isinstance(e.func, ast.Attribute) and e.func.attr == 'clone' and self.expr(e.func.value, env) is self.me:
                    args = [self.expr(a, env) for a in e.args]
                    return possem.Obj('Clone', {'store': args[0] if args else None, 'tr': args[1] if len(args) > 1 else None}, 'clone')
            if isinstance(e, ast.Name) and e.id not in env:
                if e.id == 'IDENTITY_TOKEN_TRANSFORMER':
                    return possem.Obj('IdentityTokenTransformer', {}, 'identity transformer')
            if isinstance(e, ast.Call) and norm(e.func) in ('cast', 'typing.cast') and len(e.args) == 2:
                return self.expr(e.args[1], env)
            return super().expr(e, env)

        def method(self, cls: str, name: str) -> Any:            # type: ignore[override]
            try:
                c = p.cls(cls)
            except AnalysisError:
                return super().method(cls, name)
            f = c.lookup(name)
            return f if isinstance(f, FuncInfo) else super().method(cls, name)

        def stmt(self, st: Any, env: dict) -> None:                # type: ignore[override]
            if isinstance(st, ast.Delete) and all(isinstance(t, ast.Name) for t in st.targets):
                for t in st.targets:
                    env.pop(t.id, None)
                return
            super().stmt(st, env)

    n = 0
    for k in range(0, 4):
        # the tokens of a span are of every kind: a claimed comment, a comment nobody has claimed (it still lies inside the span), other tokens
        span = [possem.Obj('Tok', [{'claimed': True}, {'claimed': False}, {}][i % 3], f't{i}' + [' (a claimed comment)', ' (an unclaimed comment)', ''][i % 3])
                for i in range(k)]
        outside = [possem.Obj('Tok', {}, 'before'), possem.Obj('Tok', {}, 'after')]
        it = Interp(span, outside)
        store = possem.Obj('Store', {}, 'store')
        # the span straddles a block boundary of the original store: handles are (block, index within the block)
        blk0 = possem.Obj('_StoreBlock', {'index': 0, 'store': store}, 'block0')
        blk1 = possem.Obj('_StoreBlock', {'index': 1, 'store': store}, 'block1')
        layout = [outside[0]] + span[:max(1, k - 1)]
        layout1 = span[max(1, k - 1):] + [outside[1]]
        for bi, (blk, toks_) in enumerate(((blk0, layout), (blk1, layout1))):
            blk.f['tokens'] = list(toks_)
            for ti, t in enumerate(toks_):
                t.f['store_handle'] = possem.Obj('_StoreHandle', {'block': blk, 'index': ti + (7 if bi == 0 else 0)}, f'handle of {t.label}')
        me = possem.Obj('Model', {'_token_store': store, 'first_token': span[0] if span else None, 'last_token': span[-1] if span else None}, 'model')
        it.me = me
        n += 1
        if not span:
            continue          # an empty tree model does not exist (first_token is a token); nothing to decide
        memo: dict = {}
        try:
            res = it.call_function(fn, [me, memo], {})
        except possem.Raised as ex:
            problems.append(f'span of {k} tokens: raises {ex}')
            break
        if not (isinstance(res, possem.Obj) and res.cls == 'Clone'):
            problems.append('does not return self.clone(...)')
            break
        st, tr = res.f['store'], res.f['tr']
        if not (isinstance(st, possem.Obj) and st.cls == 'NewStore'):
            problems.append(f'clone target is {st!r}, not a store built by TokenStore.from_tokens (the copy would live in the original store)')
            break
        toks = st.f['tokens']
        if len(toks) != k or any(not (isinstance(t, possem.Obj) and t.f.get('copy_of') is o and t.f.get('deep')) for t, o in zip(toks, span)) \
                or len({id(t) for t in toks}) != len(toks):
            problems.append(f'span of {k} tokens: the fresh store is not built from one deep copy of every token of the model\'s span, in order')
            break
        if not isinstance(tr, possem.Obj):
            problems.append(f'transformer is {tr!r}, not a token transformer')
            break
        # whatever the transformer class: it must send every original token of the span to the copy stored at the same position
        bad = None
        for o, t in zip(span, toks):
            it3 = Interp(span, outside)
            it3.me = me
            tf = it3.method(tr.cls, 'transform')
            if tf is None:
                bad = f'{tr.cls} has no transform()'
                break
            try:
                got = it3.call_function(tf, [tr, o], {})
            except possem.Raised as ex:
                bad = f'{tr.cls}.transform raises {ex} for {o.label}'
                break
            except (KeyError, IndexError) as ex:
                bad = f'{tr.cls}.transform fails with {type(ex).__name__} for {o.label}'
                break
            if got is not t:
                bad = (f'{tr.cls}.transform sends {o.label} to {got!r}, not to its copy in the fresh store'
                       + (' (the copy would share tokens with the original)' if got is o else ''))
                break
        if bad:
            problems.append(f'span of {k} tokens (straddling a block boundary of the original store): {bad}')
            break
        # one deepcopy operation that reaches a second model whose span overlaps the first (copy.deepcopy((txn, txn.postings[0])), a dict
        # holding a file and one of its directives): same memo, and the second copy still needs tokens of its own -- a token lives in one store
        me2 = possem.Obj('Model', {'_token_store': store, 'first_token': span[0], 'last_token': span[0]}, 'descendant model')
        it.me, it.span = me2, span[:1]
        try:
            res2 = it.call_function(fn, [me2, memo], {})
        except possem.Raised as ex:
            problems.append(f'second model of the same deepcopy operation: raises {ex}')
            break
        st2 = res2.f.get('store') if isinstance(res2, possem.Obj) and res2.cls == 'Clone' else None
        if not (isinstance(st2, possem.Obj) and st2.cls == 'NewStore') or any(any(t is u for u in toks) for t in st2.f['tokens']):
            problems.append('copying two models with overlapping spans in one deepcopy operation (same memo) hands the second copy tokens that '
                            'already sit in the first copy\'s store: the token copies go through the shared memo instead of being made per model')
            break
    return problems


def rule_copy_store(ctx: RuleContext, p: Program, rid: str) -> None:
    ctx.rule(rid, 'RawTreeModel.__deepcopy__: tokens = [copy.deepcopy(t) for t in store.iter(first_token, last_token)] with an '
                  'id(t) -> copy map; store = TokenStore.from_tokens(tokens); return self.clone(store, MappingTokenTransformer(map))')
    base = p.cls('RawTreeModel', 'models.base')
    fn = p.method(base, '__deepcopy__', inherited=False)
    problems = _deepcopy_sem(p, fn)
    ctx.check(not problems, rid, 'models.base:RawTreeModel.__deepcopy__', '; '.join(problems) or 'ok', '; '.join(problems),
              fn.where, note='interpreted over spans of 0..3 abstract tokens: deep copies -> fresh store -> clone with mapping transformer')
    # (the transformer is evaluated above on every token of the span, whatever its spelling: a shape clause on `self._map[id(token)]` was
    # dropped in round 8 -- `.get(id(token), token)` with a complete map behaves the same)
    # no tree model overrides __deepcopy__
    for c in p.tree_model_classes():
        ctx.check('__deepcopy__' not in c.attrs, rid, f'{c.name}', '__deepcopy__ override',
                  f'{c.name} overrides __deepcopy__', c.where, note='inherits RawTreeModel.__deepcopy__', nontrivial=False)


def rule_token_clone(ctx: RuleContext, p: Program, rid: str) -> None:
    ctx.rule(rid, 'every token model _clone returns a newly constructed object of its own type built from its current '
                  'attributes; RawTokenModel.__deepcopy__ returns self._clone(); RawTokenModel.clone/reattach return '
                  'token_transformer.transform(self)')
    base = p.cls('RawTokenModel', 'models.base')
    n = 0
    for c in p.token_model_classes():
        fn = c.attrs.get('_clone')
        if not isinstance(fn, FuncInfo):
            continue
        n += 1
        e = single_return_expr(fn)
        ok = isinstance(e, ast.Call) and (norm(e.func) in ('type(self)', c.name, 'self.__class__'))
        uses_self = ok and all(self_attr(a) is not None or isinstance(a, ast.Constant) or
                               (isinstance(a, ast.Attribute)) for a in [*e.args, *[k.value for k in e.keywords]])  # type: ignore[union-attr]
        ctx.check(bool(ok and uses_self), rid, f'{c.module.name.split(".", 1)[1]}:{c.name}._clone', norm(e) if e else 'no return',
                  f'{c.name}._clone returns `{norm(e) if e else None}`: not a freshly constructed token (a copy would share the '
                  f'token object with the original document)', fn.where, note=norm(e) if e else '')
        # constructor arity: every __init__ parameter receives a value
        init = c.lookup('__init__')
        if ok and isinstance(init, FuncInfo) and init.module.name.startswith('autobean_refactor.models'):
            need = [a.arg for a in init.node.args.args[1:]]
            given = len(e.args)  # type: ignore[union-attr]
            ctx.check(given >= len(need) - len(init.node.args.defaults), rid,
                      f'{c.module.name.split(".", 1)[1]}:{c.name}._clone arity', f'{given} of {len(need)}',
                      f'{c.name}._clone passes {given} positional values for constructor parameters {need}', fn.where,
                      note=f'{given} args for {need}', nontrivial=False)
    if n < 4:
        raise AnalysisError(f'TOKEN-CLONE: only {n} _clone bodies found (>= 4 confirmed by hand)')
    # every concrete token class resolves _clone to one of those bodies
    for c in p.registered('token_model'):
        f = c.lookup('_clone')
        ctx.check(isinstance(f, FuncInfo) and f.cls is not base, rid, f'{c.name}: resolves _clone', 'resolves',
                  f'{c.name} has no concrete _clone', c.where, note=f'{f.cls.name if isinstance(f, FuncInfo) and f.cls else None}._clone',
                  nontrivial=False)
    dc = p.method(base, '__deepcopy__', inherited=False)
    e = [n for n in walk_no_nested(dc.node) if isinstance(n, ast.Return)]
    ctx.check(len(e) == 1 and norm(e[0].value) == 'self._clone()', rid, 'models.base:RawTokenModel.__deepcopy__',
              norm(e[0].value) if e else '', 'RawTokenModel.__deepcopy__ does not return self._clone()', dc.where)
    for name in ('clone', 'reattach'):
        f = p.method(base, name, inherited=False)
        r = single_return_expr(f)
        tparam = f.params[2]
        ctx.check(r is not None and norm(r) == f'{tparam}.transform(self)', rid, f'models.base:RawTokenModel.{name}',
                  norm(r) if r else '', f'RawTokenModel.{name} does not return the transformer image of the token', f.where)


def rule_copy_shallow(ctx: RuleContext, p: Program, rid: str) -> None:
    ctx.rule(rid, 'no __deepcopy__ builds its result from a shallow copy of self while the class keeps mutable per-object state: every '
                  'attribute that __init__ sets to a fresh container (list / dict / set) must be re-assigned on the copy, otherwise copy and '
                  'original share it (for a repeated-field wrapper: the list of update handlers, so views of one document are driven by '
                  'edits of the other)')
    n = 0
    for m in p.modules.values():
        if m.name.endswith('_test'):
            continue
        for c in m.classes:
            dc = c.attrs.get('__deepcopy__')
            if not isinstance(dc, FuncInfo):
                continue
            n += 1
            site = f'{m.name.split(".", 1)[1]}:{c.name}.__deepcopy__'
            shallow = [a for a in walk_no_nested(dc.node) if isinstance(a, ast.Assign) and isinstance(a.value, ast.Call)
                       and (dotted(a.value.func) or '') in ('copy.copy', 'copy') and a.value.args and norm(a.value.args[0]) == dc.params[0]
                       and isinstance(a.targets[0], ast.Name)]
            # what the copy is built from: a constructor call in __deepcopy__ may be handed deep copies, schema (the field descriptor) and
            # parameters of __deepcopy__ itself -- never another attribute of self (the owning model, a parent, a store: document state that
            # the copy would share with the original)
            owner_bad = None
            copies = {a.targets[0].id for a in walk_no_nested(dc.node) if isinstance(a, ast.Assign) and len(a.targets) == 1
                      and isinstance(a.targets[0], ast.Name) and isinstance(a.value, ast.Call) and (dotted(a.value.func) or '').endswith('deepcopy')}
            for call in walk_no_nested(dc.node):
                if not (isinstance(call, ast.Call) and (norm(call.func) in (c.name, 'type(self)', 'self.__class__', 'cls') or
                                                        any(norm(call.func) == k.name for k in c.mro))):
                    continue
                for a in [*call.args, *[k.value for k in call.keywords]]:
                    sa = self_attr(a)
                    if sa and sa not in ('_field', '_inner_field', '_separators', '_separators_before'):
                        owner_bad = (norm(call)[:80], sa)
            if owner_bad:
                ctx.fail(rid, site, f'constructor given self.{owner_bad[1]}',
                         f'{c.name}.__deepcopy__ builds the copy with `{owner_bad[0]}`: self.{owner_bad[1]} is state of the original (its owning model / '
                         f'parent), not a copy and not schema -- the copied wrapper keeps pointing into the original document (comment claiming '
                         f'through it uses the original owner\'s boundaries, edits reach the wrong tree)', dc.where)
                continue
            if not shallow:
                ctx.ok(rid, site, 'no shallow copy of self; constructor arguments are copies or schema')
                continue
            cname = shallow[0].targets[0].id          # type: ignore[attr-defined]
            containers: set[str] = set()
            for k in c.mro:
                init = k.attrs.get('__init__')
                if not isinstance(init, FuncInfo):
                    continue
                for a in walk_no_nested(init.node):
                    if isinstance(a, (ast.Assign, ast.AnnAssign)):
                        tgt = a.targets[0] if isinstance(a, ast.Assign) else a.target
                        v = a.value
                        sa = self_attr(tgt)
                        if sa and v is not None and (isinstance(v, (ast.List, ast.Dict, ast.Set, ast.ListComp, ast.DictComp, ast.SetComp)) or (
                                isinstance(v, ast.Call) and norm(v.func).split('[')[0].split('.')[-1] in (
                                    'list', 'dict', 'set', 'deque', 'defaultdict', 'OrderedDict'))):
                            containers.add(sa)
            reassigned = {t.attr for a in walk_no_nested(dc.node) if isinstance(a, ast.Assign) for t in a.targets
                          if isinstance(t, ast.Attribute) and isinstance(t.value, ast.Name) and t.value.id == cname}
            # copy.copy(self) also copies what SUBCLASSES keep: an attribute a subclass fills in __init__ from an argument that is not schema
            # (the owning model, a parent) stays a reference into the original document unless the copy replaces it
            for sub in [k for k in p.classes if c in k.mro and k is not c and not k.module.name.endswith('_test') and '__deepcopy__' not in k.attrs]:
                sinit = sub.attrs.get('__init__')
                if not isinstance(sinit, FuncInfo):
                    continue
                sparams = set(sinit.params[1:])
                for a in walk_no_nested(sinit.node):
                    if isinstance(a, ast.Assign) and len(a.targets) == 1 and self_attr(a.targets[0]) and isinstance(a.value, ast.Name) and a.value.id in sparams:
                        sa = self_attr(a.targets[0])
                        if sa not in reassigned and sa not in ('_field', '_inner_field', '_notify') and not sa.endswith('field'):
                            containers.add(f'{sa} (set by {sub.name}.__init__ from its argument `{a.value.id}`)')
            shared = sorted(x for x in containers if x.split(' ')[0] not in reassigned)
            ctx.check(not shared, rid, site, f'copy.copy(self) shares {shared}',
                      f'{c.name}.__deepcopy__ starts from copy.copy(self) and does not replace {shared}: the copy and the original keep one '
                      f'{"list" if len(shared) == 1 else "set of containers"} between them, so registering or notifying through one acts on the other '
                      f'(a deep copy must be fully independent)', dc.where, note='every container attribute re-assigned')
    if n < 3:
        raise AnalysisError(f'COPY-SHALLOW: only {n} __deepcopy__ methods found')


def run(ctx: RuleContext, p: Program) -> None:
    tcs = build_tree_classes(p)
    ctx.try_rule(rule_copy_store, p, 'COPY-STORE')
    ctx.try_rule(rule_copy_shallow, p, 'COPY-SHALLOW')
    ctx.try_rule(gen.rule_cover_clone, p, tcs, 'COVER-CLONE')
    ctx.require_min('COVER-CLONE', 34)
    ctx.try_rule(handmodels.rule_hand_clone, p, 'COVER-CLONE')
    ctx.try_rule(rule_token_clone, p, 'TOKEN-CLONE')
    ctx.try_rule(seps.rule_sep_prov, p, 'SEP-PROV')
    ctx.try_rule(seps.rule_sep_fresh, p, 'SEP-FRESH')
    from . import round4
    ctx.try_rule(round4.rule_replace_store, p, 'REPLACE-STORE')
    ctx.try_rule(round4.rule_desc_state, p, 'DESC-STATE')
    ctx.not_decided += ['that the copy compares equal (structural part under C20)', 'exact spans at reordered placeholders',
                        'independence under later edits as a runtime fact']
    ctx.assumptions += ['copy.deepcopy(token) dispatches to RawTokenModel.__deepcopy__', 'TokenStore.from_tokens builds a new store']
