"""C11 -- a deep copy is equal, exact and fully independent (structural clauses)."""
from __future__ import annotations

import ast

from ..fieldmodel import build_tree_classes, single_return_expr
from ..model import AnalysisError, FuncInfo, Program, dotted, norm, self_attr, stmts_no_doc, walk_no_nested
from ..report import RuleContext
from . import gen, handmodels, seps

EXPLANATION = (
    'Static analysis (AST coverage, provenance). Decides: COPY-STORE (RawTreeModel.__deepcopy__ builds its token list only '
    'from copy.deepcopy of the tokens of iter(first, last), builds a fresh store from exactly that list and clones onto it '
    'through a mapping transformer), COVER-CLONE (every tree model clone constructs a new instance on the parameter store and '
    'passes every child through .clone, so no child or store is shared), TOKEN-CLONE (every token _clone returns a newly '
    'constructed object, RawTokenModel.__deepcopy__ returns _clone(), token clone/reattach return the transformer image), '
    'SEP-PROV (shared class-level separator tokens only ever enter a store as deep copies). It does NOT decide that the copy '
    'compares equal (C20 covers the structural part) or independence under later edits as a runtime fact.')


def rule_copy_store(ctx: RuleContext, p: Program, rid: str) -> None:
    ctx.rule(rid, 'RawTreeModel.__deepcopy__: tokens = [copy.deepcopy(t) for t in store.iter(first_token, last_token)] with an '
                  'id(t) -> copy map; store = TokenStore.from_tokens(tokens); return self.clone(store, MappingTokenTransformer(map))')
    base = p.cls('RawTreeModel', 'models.base')
    fn = p.method(base, '__deepcopy__', inherited=False)
    problems: list[str] = []
    loops = [n for n in walk_no_nested(fn.node) if isinstance(n, ast.For)]
    tok_list = map_name = None
    span_texts = {'self._token_store.iter(self.first_token, self.last_token)', 'self.token_store.iter(self.first_token, self.last_token)', 'self.tokens'}
    aliases = {norm(a.targets[0]) for a in walk_no_nested(fn.node) if isinstance(a, (ast.Assign,)) and (
        norm(a.value) in span_texts or (isinstance(a.value, ast.Call) and norm(a.value.func) in ('list', 'tuple') and a.value.args
                                        and norm(a.value.args[0]) in span_texts))}
    comp_lists = [a for a in walk_no_nested(fn.node) if isinstance(a, (ast.Assign, ast.AnnAssign)) and isinstance(a.value, ast.ListComp)]
    if not loops and comp_lists:
        # comprehension idiom: L = [copy.deepcopy(t) for t in SPAN]; M = {id(a): b for a, b in zip(SPAN, L)}
        for a in comp_lists:
            c = a.value
            g = c.generators[0]
            if len(c.generators) == 1 and not g.ifs and (norm(g.iter) in span_texts | aliases) and isinstance(c.elt, ast.Call) \
                    and (dotted(c.elt.func) or '') == 'copy.deepcopy' and norm(c.elt.args[0]) == norm(g.target):
                tok_list = norm(a.targets[0] if isinstance(a, ast.Assign) else a.target)
                span_used = norm(g.iter)
        for a in walk_no_nested(fn.node):
            if isinstance(a, (ast.Assign, ast.AnnAssign)) and isinstance(a.value, ast.DictComp):
                d = a.value
                g = d.generators[0]
                if isinstance(g.iter, ast.Call) and norm(g.iter.func) == 'zip' and len(g.iter.args) == 2 and isinstance(g.target, ast.Tuple) \
                        and norm(g.iter.args[1]) == tok_list and norm(g.iter.args[0]) in (span_texts | aliases) and not g.ifs \
                        and norm(d.key) == f'id({norm(g.target.elts[0])})' and norm(d.value) == norm(g.target.elts[1]):
                    # the originals must be a materialised sequence, not a second traversal of a generator
                    if norm(g.iter.args[0]) in aliases or norm(g.iter.args[0]) == 'self.tokens':
                        map_name = norm(a.targets[0] if isinstance(a, ast.Assign) else a.target)
        if tok_list is None:
            problems.append('token list is not built from copy.deepcopy of every token of the model\'s span')
        if map_name is None:
            problems.append('copy map {id(original): copy} over the same span not found')
    elif len(loops) != 1:
        problems.append('expected exactly one loop over the model tokens')
    else:
        lp = loops[0]
        it = lp.iter
        if not (isinstance(it, ast.Call) and isinstance(it.func, ast.Attribute) and it.func.attr == 'iter'
                and [norm(a) for a in it.args] == ['self.first_token', 'self.last_token']) and norm(it) != 'self.tokens':
            problems.append(f'iterates {norm(it)}, not the model\'s own token span')
        tv = norm(lp.target)
        copies = {}
        for st in lp.body:
            if isinstance(st, ast.Assign) and isinstance(st.value, ast.Call) and (dotted(st.value.func) or '') == 'copy.deepcopy' \
                    and norm(st.value.args[0]) == tv and isinstance(st.targets[0], ast.Name):
                copies[st.targets[0].id] = st
        for st in lp.body:
            if isinstance(st, ast.Expr) and isinstance(st.value, ast.Call) and isinstance(st.value.func, ast.Attribute) \
                    and st.value.func.attr == 'append':
                a = st.value.args[0]
                if (isinstance(a, ast.Name) and a.id in copies) or (isinstance(a, ast.Call) and (dotted(a.func) or '') == 'copy.deepcopy'):
                    tok_list = norm(st.value.func.value)
                else:
                    problems.append(f'appends {norm(a)} (not a deep copy) to the new token list')
            if isinstance(st, ast.Assign) and isinstance(st.targets[0], ast.Subscript):
                k, v = st.targets[0].slice, st.value
                if norm(k) == f'id({tv})' and isinstance(v, ast.Name) and v.id in copies:
                    map_name = norm(st.targets[0].value)
                else:
                    problems.append(f'token map entry {norm(st)} does not map id(original) to its copy')
        if any(isinstance(x, (ast.If, ast.Continue, ast.Break)) for st in lp.body for x in ast.walk(st)):
            problems.append('loop filters tokens (a token would be dropped from the copy)')
    store_var = None
    for st in stmts_no_doc(fn.node.body):
        if isinstance(st, ast.Assign) and isinstance(st.value, ast.Call) and (dotted(st.value.func) or '').endswith('TokenStore.from_tokens'):
            if tok_list is None or norm(st.value.args[0]) != tok_list:
                problems.append(f'store built from {norm(st.value.args[0])}, not the list of copies')
            store_var = norm(st.targets[0])
    ret = [n for n in walk_no_nested(fn.node) if isinstance(n, ast.Return)]
    if len(ret) != 1 or not (isinstance(ret[0].value, ast.Call) and norm(ret[0].value.func) == 'self.clone'):
        problems.append('does not return self.clone(...)')
    else:
        a = ret[0].value.args
        if a and isinstance(a[0], ast.Call) and (dotted(a[0].func) or '').endswith('TokenStore.from_tokens'):
            # canonical form: the fresh store is built inline
            if tok_list is None or norm(a[0].args[0]) != tok_list:
                problems.append(f'store built from {norm(a[0].args[0])}, not the list of copies')
            store_var = norm(a[0])
        if len(a) != 2 or norm(a[0]) != store_var:
            problems.append(f'clone target is {norm(a[0]) if a else None}, not the fresh store')
        if len(a) == 2 and not (isinstance(a[1], ast.Call) and norm(a[1].func).endswith('MappingTokenTransformer')
                                and [norm(x) for x in a[1].args] == [map_name]):
            problems.append(f'transformer is {norm(a[1])}, not MappingTokenTransformer(<copy map>) (identity would share tokens)')
    ctx.check(not problems, rid, 'models.base:RawTreeModel.__deepcopy__', '; '.join(problems) or 'ok', '; '.join(problems),
              fn.where, note='deep copies -> fresh store -> clone with mapping transformer')
    # the mapping transformer looks tokens up by id (never returns its argument)
    mt = p.cls('MappingTokenTransformer', 'models.base')
    tf = p.method(mt, 'transform', inherited=False)
    e = single_return_expr(tf)
    # the attribute that __init__ fills from its mapping parameter, whatever it is called
    init = p.try_method(mt, '__init__', inherited=False)
    map_attrs = {self_attr(a.targets[0]) for a in (walk_no_nested(init.node) if init else []) if isinstance(a, ast.Assign)
                 and len(a.targets) == 1 and self_attr(a.targets[0]) and isinstance(a.value, ast.Name) and a.value.id in init.params[1:]}
    ok = e is not None and any(f'self.{m}[id({tf.params[1]})]' in norm(e) for m in map_attrs if m)
    ctx.check(ok, rid, 'models.base:MappingTokenTransformer.transform', norm(e) if e else '',
              'MappingTokenTransformer.transform does not return the mapped copy', tf.where, note=norm(e) if e else '')
    # no tree model overrides __deepcopy__
    for c in p.tree_model_classes():
        ctx.check('__deepcopy__' not in c.attrs, rid, f'{c.name}', '__deepcopy__ override',
                  f'{c.name} overrides __deepcopy__', c.where, note='inherits RawTreeModel.__deepcopy__', nontrivial=False)


def rule_token_clone(ctx: RuleContext, p: Program, rid: str) -> None:
    ctx.rule(rid, 'every token model _clone returns a newly constructed object of its own type built from its current '
                  'attributes; RawTokenModel.__deepcopy__ returns self._clone(); RawTokenModel.clone/reattach return '
                  'token_transformer.transform(self)')
    base = p.cls('RawTokenModel', 'models.base')
    n = 0
    for c in p.token_model_classes():
        fn = c.attrs.get('_clone')
        if not isinstance(fn, FuncInfo):
            continue
        n += 1
        e = single_return_expr(fn)
        ok = isinstance(e, ast.Call) and (norm(e.func) in ('type(self)', c.name, 'self.__class__'))
        uses_self = ok and all(self_attr(a) is not None or isinstance(a, ast.Constant) or
                               (isinstance(a, ast.Attribute)) for a in [*e.args, *[k.value for k in e.keywords]])  # type: ignore[union-attr]
        ctx.check(bool(ok and uses_self), rid, f'{c.module.name.split(".", 1)[1]}:{c.name}._clone', norm(e) if e else 'no return',
                  f'{c.name}._clone returns `{norm(e) if e else None}`: not a freshly constructed token (a copy would share the '
                  f'token object with the original document)', fn.where, note=norm(e) if e else '')
        # constructor arity: every __init__ parameter receives a value
        init = c.lookup('__init__')
        if ok and isinstance(init, FuncInfo) and init.module.name.startswith('autobean_refactor.models'):
            need = [a.arg for a in init.node.args.args[1:]]
            given = len(e.args)  # type: ignore[union-attr]
            ctx.check(given >= len(need) - len(init.node.args.defaults), rid,
                      f'{c.module.name.split(".", 1)[1]}:{c.name}._clone arity', f'{given} of {len(need)}',
                      f'{c.name}._clone passes {given} positional values for constructor parameters {need}', fn.where,
                      note=f'{given} args for {need}', nontrivial=False)
    if n < 4:
        raise AnalysisError(f'TOKEN-CLONE: only {n} _clone bodies found (>= 4 confirmed by hand)')
    # every concrete token class resolves _clone to one of those bodies
    for c in p.registered('token_model'):
        f = c.lookup('_clone')
        ctx.check(isinstance(f, FuncInfo) and f.cls is not base, rid, f'{c.name}: resolves _clone', 'resolves',
                  f'{c.name} has no concrete _clone', c.where, note=f'{f.cls.name if isinstance(f, FuncInfo) and f.cls else None}._clone',
                  nontrivial=False)
    dc = p.method(base, '__deepcopy__', inherited=False)
    e = [n for n in walk_no_nested(dc.node) if isinstance(n, ast.Return)]
    ctx.check(len(e) == 1 and norm(e[0].value) == 'self._clone()', rid, 'models.base:RawTokenModel.__deepcopy__',
              norm(e[0].value) if e else '', 'RawTokenModel.__deepcopy__ does not return self._clone()', dc.where)
    for name in ('clone', 'reattach'):
        f = p.method(base, name, inherited=False)
        r = single_return_expr(f)
        tparam = f.params[2]
        ctx.check(r is not None and norm(r) == f'{tparam}.transform(self)', rid, f'models.base:RawTokenModel.{name}',
                  norm(r) if r else '', f'RawTokenModel.{name} does not return the transformer image of the token', f.where)


def rule_copy_shallow(ctx: RuleContext, p: Program, rid: str) -> None:
    ctx.rule(rid, 'no __deepcopy__ builds its result from a shallow copy of self while the class keeps mutable per-object state: every '
                  'attribute that __init__ sets to a fresh container (list / dict / set) must be re-assigned on the copy, otherwise copy and '
                  'original share it (for a repeated-field wrapper: the list of update handlers, so views of one document are driven by '
                  'edits of the other)')
    n = 0
    for m in p.modules.values():
        if m.name.endswith('_test'):
            continue
        for c in m.classes:
            dc = c.attrs.get('__deepcopy__')
            if not isinstance(dc, FuncInfo):
                continue
            n += 1
            site = f'{m.name.split(".", 1)[1]}:{c.name}.__deepcopy__'
            shallow = [a for a in walk_no_nested(dc.node) if isinstance(a, ast.Assign) and isinstance(a.value, ast.Call)
                       and (dotted(a.value.func) or '') in ('copy.copy', 'copy') and a.value.args and norm(a.value.args[0]) == dc.params[0]
                       and isinstance(a.targets[0], ast.Name)]
            if not shallow:
                ctx.ok(rid, site, 'no shallow copy of self')
                continue
            cname = shallow[0].targets[0].id          # type: ignore[attr-defined]
            containers: set[str] = set()
            for k in c.mro:
                init = k.attrs.get('__init__')
                if not isinstance(init, FuncInfo):
                    continue
                for a in walk_no_nested(init.node):
                    if isinstance(a, (ast.Assign, ast.AnnAssign)):
                        tgt = a.targets[0] if isinstance(a, ast.Assign) else a.target
                        v = a.value
                        sa = self_attr(tgt)
                        if sa and v is not None and (isinstance(v, (ast.List, ast.Dict, ast.Set, ast.ListComp, ast.DictComp, ast.SetComp)) or (
                                isinstance(v, ast.Call) and norm(v.func).split('[')[0].split('.')[-1] in (
                                    'list', 'dict', 'set', 'deque', 'defaultdict', 'OrderedDict'))):
                            containers.add(sa)
            reassigned = {t.attr for a in walk_no_nested(dc.node) if isinstance(a, ast.Assign) for t in a.targets
                          if isinstance(t, ast.Attribute) and isinstance(t.value, ast.Name) and t.value.id == cname}
            shared = sorted(containers - reassigned)
            ctx.check(not shared, rid, site, f'copy.copy(self) shares {shared}',
                      f'{c.name}.__deepcopy__ starts from copy.copy(self) and does not replace {shared}: the copy and the original keep one '
                      f'{"list" if len(shared) == 1 else "set of containers"} between them, so registering or notifying through one acts on the other '
                      f'(a deep copy must be fully independent)', dc.where, note='every container attribute re-assigned')
    if n < 3:
        raise AnalysisError(f'COPY-SHALLOW: only {n} __deepcopy__ methods found')


def run(ctx: RuleContext, p: Program) -> None:
    tcs = build_tree_classes(p)
    ctx.try_rule(rule_copy_store, p, 'COPY-STORE')
    ctx.try_rule(rule_copy_shallow, p, 'COPY-SHALLOW')
    ctx.try_rule(gen.rule_cover_clone, p, tcs, 'COVER-CLONE')
    ctx.require_min('COVER-CLONE', 34)
    ctx.try_rule(handmodels.rule_hand_clone, p, 'COVER-CLONE')
    ctx.try_rule(rule_token_clone, p, 'TOKEN-CLONE')
    ctx.try_rule(seps.rule_sep_prov, p, 'SEP-PROV')
    ctx.try_rule(seps.rule_sep_fresh, p, 'SEP-FRESH')
    ctx.not_decided += ['that the copy compares equal (structural part under C20)', 'exact spans at reordered placeholders',
                        'independence under later edits as a runtime fact']
    ctx.assumptions += ['copy.deepcopy(token) dispatches to RawTokenModel.__deepcopy__', 'TokenStore.from_tokens builds a new store']
