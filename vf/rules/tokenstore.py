"""Structural rules over autobean_refactor/token_store.py shared by C07 and C08."""
from __future__ import annotations

import ast
from typing import Any, Iterable, Optional

from ..model import (AnalysisError, ClassInfo, FuncInfo, ModuleInfo, Program, dotted, norm, self_attr,
                     stmts_no_doc, walk_no_nested)
from ..report import RuleContext
from ..walker import Outcome, Walker

LIST_MUTATORS = {'append', 'extend', 'insert', 'pop', 'remove', 'clear', 'sort', 'reverse', '__setitem__',
                 '__delitem__', '__iadd__'}


class TS:
    """Facts about token_store.py gathered once."""

    def __init__(self, p: Program) -> None:
        self.p = p
        self.m = p.module('token_store')
        self.store = p.cls('TokenStore', 'token_store')
        self.block = p.cls('_StoreBlock', 'token_store')
        self.handle = p.cls('_StoreHandle', 'token_store')
        self.token = p.cls('Token', 'token_store')
        self.funcs: dict[str, FuncInfo] = {}
        for f in p.functions_in(self.m):
            if f.kind == 'overload' or f.parent is not None:
                continue
            self.funcs[f.qualname] = f
        self.reindex = self._need('TokenStore._update_block_indexes')

    def _need(self, q: str) -> FuncInfo:
        if q not in self.funcs:
            raise AnalysisError(f'anchor function vanished: token_store.{q}')
        return self.funcs[q]

    # --- which expressions denote a store / a block inside function `fn` ----------
    def store_names(self, fn: FuncInfo) -> set[str]:
        names: set[str] = set()
        if fn.cls is self.store and fn.kind in ('method', 'getter', 'setter'):
            names.add(fn.params[0])
        a = fn.node.args
        for arg in [*a.posonlyargs, *a.args, *a.kwonlyargs]:
            if arg.annotation is not None and 'TokenStore' in norm(arg.annotation):
                names.add(arg.arg)
        for n in walk_no_nested(fn.node):
            if isinstance(n, ast.Assign) and len(n.targets) == 1 and isinstance(n.targets[0], ast.Name):
                v = n.value
                if isinstance(v, ast.Call) and (norm(v.func) in ('cls', 'TokenStore') and fn.cls is self.store
                                                or norm(v.func) == 'TokenStore'):
                    names.add(n.targets[0].id)
                if isinstance(v, ast.Attribute) and v.attr == 'store':
                    names.add(n.targets[0].id)
        return names

    def is_blocks_expr(self, e: ast.AST, stores: set[str]) -> bool:
        """`<store>._blocks`"""
        return isinstance(e, ast.Attribute) and e.attr == '_blocks' and (
            (isinstance(e.value, ast.Name) and e.value.id in stores)
            or (isinstance(e.value, ast.Attribute) and e.value.attr == 'store'))

    def block_names(self, fn: FuncInfo, stores: set[str]) -> set[str]:
        names: set[str] = set()
        if fn.cls is self.block and fn.kind in ('method',):
            names.add(fn.params[0])
        a = fn.node.args
        for arg in [*a.posonlyargs, *a.args, *a.kwonlyargs]:
            if arg.annotation is not None and '_StoreBlock' in norm(arg.annotation):
                names.add(arg.arg)
        changed = True
        while changed:
            changed = False
            for n in walk_no_nested(fn.node):
                tgt: Optional[str] = None
                val: Optional[ast.AST] = None
                if isinstance(n, ast.Assign) and len(n.targets) == 1 and isinstance(n.targets[0], ast.Name):
                    tgt, val = n.targets[0].id, n.value
                elif isinstance(n, ast.For) and isinstance(n.target, ast.Name):
                    if self.is_blocks_expr(n.iter, stores):
                        tgt, val = n.target.id, ast.Subscript(value=n.iter, slice=ast.Constant(0), ctx=ast.Load())
                cls_ctor = isinstance(val, ast.Call) and norm(val.func) == 'cls' and fn.cls is self.block and fn.kind == 'classmethod'
                if tgt and val is not None and tgt not in names and (self.is_block_expr(val, stores, names) or cls_ctor):
                    names.add(tgt)
                    changed = True
        return names

    def is_block_expr(self, e: ast.AST, stores: set[str], blocks: set[str]) -> bool:
        if isinstance(e, ast.Name):
            return e.id in blocks
        if isinstance(e, ast.Subscript) and self.is_blocks_expr(e.value, stores) \
                and not isinstance(e.slice, ast.Slice):
            return True
        if isinstance(e, ast.Attribute) and e.attr == 'block':
            return True
        if isinstance(e, ast.Call):
            f = norm(e.func)
            if f in ('_StoreBlock', '_StoreBlock.from_tokens', 'cls.from_tokens'):
                return True
            if f == 'cls' and False:
                return True
        return False


def _is_full_slice(s: ast.AST) -> bool:
    return isinstance(s, ast.Slice) and s.lower is None and s.upper is None and s.step is None


# ======================================================================= TS-IDX
def rule_ts_idx(ctx: RuleContext, ts: TS, rid: str) -> None:
    ctx.rule(rid, 'typestate over token_store.py: after a length-changing mutation of <store>._blocks the block '
                  'indexes are stale until _update_block_indexes(k) runs; while stale no block .index may be read '
                  '(except as argument of the re-index call or in a staleness probe) and no public entry may return')
    p = ts.p
    exempt_cache: dict[int, set[int]] = {}

    def exempt_nodes(fn: FuncInfo) -> set[int]:
        if id(fn) in exempt_cache:
            return exempt_cache[id(fn)]
        ex: set[int] = set()
        for n in walk_no_nested(fn.node):
            if isinstance(n, ast.Call) and isinstance(n.func, ast.Attribute) and n.func.attr == ts.reindex.name:
                for a in n.args:
                    ex.update(id(x) for x in ast.walk(a))
            # staleness probe: `<blocks>[k].index != k` (a comparison of a block's index with its own position)
            if isinstance(n, ast.Compare) and len(n.ops) == 1 and isinstance(n.ops[0], (ast.NotEq, ast.Eq)):
                l, r = n.left, n.comparators[0]
                for a, b in ((l, r), (r, l)):
                    if isinstance(a, ast.Attribute) and a.attr == 'index' and isinstance(a.value, ast.Subscript) \
                            and norm(a.value.slice) == norm(b):
                        ex.update(id(x) for x in ast.walk(n))
        exempt_cache[id(fn)] = ex
        return ex

    memo: dict[tuple[int, Any], set[Any]] = {}
    reads: dict[Any, list[str]] = {}      # mutation key -> offending reads
    mut_info: dict[Any, tuple[str, str, str]] = {}
    stack: list[int] = []
    n_mut = [0]
    n_reads = [0]

    def analyse(fn: FuncInfo, state: Any) -> set[Any]:
        key = (id(fn), state)
        if key in memo:
            return memo[key]
        if id(fn) in stack:
            return {state}
        stack.append(id(fn))
        stores = ts.store_names(fn)
        blocks = ts.block_names(fn, stores)
        exempt = exempt_nodes(fn)

        def stale_from(node: ast.AST, what: str) -> Any:
            n_mut[0] += 1
            k = ('stale', fn.qualname, norm(node))
            mut_info[k] = (fn.qualname, norm(node), fn.where)
            return k

        def transfer(s: Any, ev: tuple[Any, ...]) -> Iterable[Any]:
            kind = ev[0]
            if kind == 'store':
                t = ev[1]
                if isinstance(t, ast.Subscript) and ts.is_blocks_expr(t.value, stores):
                    if isinstance(t.slice, ast.Slice):
                        v = ev[2]
                        if _is_full_slice(t.slice) and v is not None and any(
                                isinstance(c, ast.Call) and norm(c.func) == '_build_blocks' and len(c.args) >= 2
                                and isinstance(c.args[1], ast.Constant) and c.args[1].value == 0
                                for c in ast.walk(v)):
                            return [s]       # whole-list replacement by _build_blocks(_, 0, _): indexes explicit
                        return [stale_from(_stmt_of(fn, t), 'slice assignment') if s == 'fresh' else s]
                    return [s]               # single element replacement keeps length
                if isinstance(t, ast.Attribute) and t.attr == '_blocks' and isinstance(t.value, ast.Name) \
                        and t.value.id in stores:
                    v = ev[2]
                    if fn.name == '__init__':
                        return [s]
                    return [stale_from(_stmt_of(fn, t), 'rebinding') if s == 'fresh' else s]
                return [s]
            if kind == 'del':
                t = ev[1]
                if isinstance(t, ast.Subscript) and ts.is_blocks_expr(t.value, stores):
                    return [stale_from(_stmt_of(fn, t), 'del') if s == 'fresh' else s]
                return [s]
            if kind == 'eval':
                n = ev[1]
                if isinstance(n, ast.Call) and isinstance(n.func, ast.Attribute):
                    recv = n.func.value
                    if ts.is_blocks_expr(recv, stores) and n.func.attr in LIST_MUTATORS:
                        return [stale_from(n, n.func.attr) if s == 'fresh' else s]
                    if isinstance(recv, ast.Name) and recv.id in stores:
                        if n.func.attr == ts.reindex.name:
                            return ['fresh']
                        callee = ts.funcs.get(f'TokenStore.{n.func.attr}')
                        if callee is not None:
                            return analyse(callee, s)
                if isinstance(n, ast.Call) and isinstance(n.func, ast.Name):
                    callee = ts.funcs.get(n.func.id)
                    if callee is not None and callee.cls is None:
                        return analyse(callee, s)
                if isinstance(n, ast.Attribute) and n.attr == 'index' and isinstance(n.ctx, ast.Load) \
                        and s != 'fresh' and id(n) not in exempt \
                        and ts.is_block_expr(n.value, stores, blocks):
                    n_reads[0] += 1
                    reads.setdefault(s, []).append(f'{fn.qualname}: reads {norm(n)} ({fn.where.split(":")[0]}:{n.lineno})')
                return [s]
            return [s]

        w = Walker(transfer)
        out = w.run(stmts_no_doc(fn.node.body), [state])
        res = out.normal | out.returned
        stack.pop()
        memo[key] = res
        # exceptions raised while stale also leave the store inconsistent
        for r in out.raised:
            if r != 'fresh':
                reads.setdefault(r, []).append(f'{fn.qualname}: may raise while block indexes are stale')
        return res

    entries = [f for q, f in ts.funcs.items() if f.cls is ts.store and
               (not f.name.startswith('_') or f.name in ('__iter__', '__len__'))]
    if len(entries) < 10:
        raise AnalysisError(f'TS-IDX: only {len(entries)} public TokenStore entry points found')
    exit_stale: dict[Any, list[str]] = {}
    for f in entries:
        for s in analyse(f, 'fresh'):
            if s != 'fresh':
                exit_stale.setdefault(s, []).append(f.qualname)
    bad = set(reads) | set(exit_stale)
    for k in sorted(bad, key=str):
        fnq, stmt, where = mut_info[k]
        path = sorted(set(reads.get(k, [])))[:8] + [f'public entry {e} can return with stale indexes'
                                                    for e in sorted(set(exit_stale.get(k, [])))[:6]]
        ctx.fail(rid, f'token_store:{fnq}', stmt,
                 f'block list mutated by `{stmt}` and block indexes are used / exposed before being re-indexed', where, path)
    for k, (fnq, stmt, where) in mut_info.items():
        if k not in bad:
            ctx.ok(rid, f'token_store:{fnq}: {stmt}', 're-indexed before any index read on every path')
    for f in entries:
        ctx.ok(rid, f'entry token_store:{f.qualname}', 'returns with fresh indexes' if not any(
            f.qualname in v for v in exit_stale.values()) else 'see finding', nontrivial=False)
    ctx.stats['ts_idx'] = {'entries': len(entries), 'mutation_sites': len(mut_info), 'stale_reads': n_reads[0]}
    if len(mut_info) < 3:
        raise AnalysisError(f'TS-IDX: only {len(mut_info)} _blocks mutation sites found (3 confirmed by hand)')


def _stmt_of(fn: FuncInfo, node: ast.AST) -> ast.AST:
    for st in ast.walk(fn.node):
        if isinstance(st, (ast.Assign, ast.AugAssign, ast.Delete, ast.AnnAssign)):
            for ch in ast.walk(st):
                if ch is node:
                    return st
    return node


# ======================================================================= TS-HANDLE
def _handle_loop(ts: TS, loop: ast.For) -> Optional[str]:
    """If `loop` assigns `<tok>.store_handle = _StoreHandle(<blk>, <i>)` for the loop's own index, return norm(<blk>)."""
    idx: Optional[str] = None
    if isinstance(loop.target, ast.Name) and isinstance(loop.iter, ast.Call) and norm(loop.iter.func) == 'range':
        idx = loop.target.id
    elif isinstance(loop.target, ast.Tuple) and len(loop.target.elts) == 2 and isinstance(loop.iter, ast.Call) \
            and norm(loop.iter.func) == 'enumerate' and isinstance(loop.target.elts[0], ast.Name):
        idx = loop.target.elts[0].id
    if idx is None:
        return None
    for n in ast.walk(loop):
        if isinstance(n, ast.Assign) and len(n.targets) == 1 and isinstance(n.targets[0], ast.Attribute) \
                and n.targets[0].attr == 'store_handle' and isinstance(n.value, ast.Call) \
                and norm(n.value.func) == '_StoreHandle':
            args = {k.arg: k.value for k in n.value.keywords}
            pos = list(n.value.args)
            blk = args.get('block', pos[0] if pos else None)
            ix = args.get('index', pos[1] if len(pos) > 1 else None)
            if blk is not None and isinstance(ix, ast.Name) and ix.id == idx:
                return norm(blk)
    return None


def _loop_covers_from(loop: ast.For) -> Optional[str]:
    """Lower bound of the handle loop ('' = from 0)."""
    if isinstance(loop.iter, ast.Call) and norm(loop.iter.func) == 'range':
        a = loop.iter.args
        return '' if len(a) == 1 else norm(a[0])
    return ''


def rule_ts_handle(ctx: RuleContext, ts: TS, rid: str) -> None:
    ctx.rule(rid, 'every mutation of a block\'s token list (and every block built by the bare constructor) is followed '
                  'on all normal paths by rebuild() of that block, a callee that rebuilds it, or the in-place handle '
                  'loop together with an update of size and last_newline_index')
    funcs = [f for f in ts.funcs.values()]
    # summaries: which block parameters does a function re-handle on every normal path?
    rebuilds: dict[str, set[int]] = {}

    def block_param_idx(fn: FuncInfo) -> dict[str, int]:
        out: dict[str, int] = {}
        a = fn.node.args
        allp = [*a.posonlyargs, *a.args]
        for i, arg in enumerate(allp):
            if arg.annotation is not None and '_StoreBlock' in norm(arg.annotation):
                out[arg.arg] = i
        if fn.cls is ts.block and fn.kind == 'method':
            out[allp[0].arg] = 0
        return out

    def run(fn: FuncInfo, init_pending: frozenset[str], record: bool) -> tuple[set[frozenset[str]], dict[str, str]]:
        stores = ts.store_names(fn)
        blocks = ts.block_names(fn, stores)
        aliases: dict[str, str] = {}
        for n in walk_no_nested(fn.node):
            if isinstance(n, ast.Assign) and len(n.targets) == 1 and isinstance(n.targets[0], ast.Name) \
                    and ts.is_block_expr(n.value, stores, blocks) and not isinstance(n.value, ast.Call):
                aliases[norm(n.value)] = n.targets[0].id
        loops = {id(n): n for n in walk_no_nested(fn.node) if isinstance(n, ast.For)}
        origin: dict[str, str] = {}

        def canon(e: ast.AST) -> str:
            t = norm(e)
            return aliases.get(t, t)

        def tokens_owner(e: ast.AST) -> Optional[str]:
            """`X.tokens` where X is a block -> canon(X)"""
            if isinstance(e, ast.Attribute) and e.attr == 'tokens' and ts.is_block_expr(e.value, stores, blocks):
                return canon(e.value)
            return None

        def transfer(s: frozenset[str], ev: tuple[Any, ...]) -> Iterable[frozenset[str]]:
            kind = ev[0]
            if kind == 'store':
                t = ev[1]
                if isinstance(t, ast.Subscript):
                    o = tokens_owner(t.value)
                    if o is not None:
                        origin.setdefault(o, norm(_stmt_of(fn, t)))
                        return [s | {o}]
                    # a bare-constructor block placed into the block list: `<blocks>[a:b] = [_StoreBlock(...)]`
                if isinstance(t, ast.Attribute) and t.attr == 'tokens' and ts.is_block_expr(t.value, stores, blocks):
                    o = canon(t.value)
                    origin.setdefault(o, norm(_stmt_of(fn, t)))
                    return [s | {o}]
                return [s]
            if kind == 'del':
                t = ev[1]
                if isinstance(t, ast.Subscript):
                    o = tokens_owner(t.value)
                    if o is not None:
                        origin.setdefault(o, norm(_stmt_of(fn, t)))
                        return [s | {o}]
                return [s]
            if kind == 'enter-loop':
                loop = ev[1]
                if isinstance(loop, ast.For):
                    blk = _handle_loop(ts, loop)
                    if blk is not None:
                        b = aliases.get(blk, blk)
                        # the in-place idiom must also maintain the caches in this function
                        if _loop_covers_from(loop) == '':
                            return [s - {b, 'ctor:' + b, 'ctor'}]
                        writes = {norm(x.targets[0] if isinstance(x, ast.Assign) else x.target)
                                  for x in walk_no_nested(fn.node) if isinstance(x, (ast.Assign, ast.AugAssign))}
                        need = [f'{blk}.last_newline_index', f'{blk}.size']
                        if all(any(w == nd or w.startswith(nd + '.') for w in writes) for nd in need):
                            return [s - {b}]
                        return [s]
                return [s]
            if kind == 'eval':
                n = ev[1]
                if isinstance(n, ast.AugAssign):
                    o = tokens_owner(n.target)
                    if o is not None:
                        origin.setdefault(o, norm(n))
                        return [s | {o}]
                    return [s]
                if isinstance(n, ast.Call):
                    f = n.func
                    if isinstance(f, ast.Attribute):
                        o = tokens_owner(f.value)
                        if o is not None and f.attr in LIST_MUTATORS:
                            origin.setdefault(o, norm(n))
                            return [s | {o}]
                        if f.attr == 'rebuild' and ts.is_block_expr(f.value, stores, blocks):
                            return [s - {canon(f.value), 'ctor'}]
                        if f.attr == 'pop' and ts.is_blocks_expr(f.value, stores) and len(n.args) == 1:
                            parg = n.args[0]
                            if isinstance(parg, ast.Name):
                                # a local bound once to `<block>.index`
                                defs_ = [a_.value for a_ in walk_no_nested(fn.node) if isinstance(a_, ast.Assign) and len(a_.targets) == 1
                                         and isinstance(a_.targets[0], ast.Name) and a_.targets[0].id == parg.id]
                                if len(defs_) == 1:
                                    parg = defs_[0]
                            if isinstance(parg, ast.Attribute) and parg.attr == 'index' and ts.is_block_expr(parg.value, stores, blocks):
                                # the block leaves the block list (its tokens were moved elsewhere): nothing to re-handle
                                return [s - {canon(parg.value)}]
                        callee = None
                        if isinstance(f.value, ast.Name) and f.value.id in stores:
                            callee = ts.funcs.get(f'TokenStore.{f.attr}')
                        elif ts.is_block_expr(f.value, stores, blocks):
                            callee = ts.funcs.get(f'_StoreBlock.{f.attr}')
                        if callee is not None and callee.qualname in rebuilds:
                            cleared = set()
                            allargs = ([f.value] if callee.kind == 'method' else []) + list(n.args)
                            for i in rebuilds[callee.qualname]:
                                if i < len(allargs):
                                    cleared.add(canon(allargs[i]))
                            ns = set(s) - cleared
                            if cleared:
                                ns = {x for x in ns if not x.startswith('ctor')}
                            return [frozenset(ns)]
                    name = norm(f)
                    if name == '_build_blocks' and len(n.args) >= 3:
                        o = tokens_owner(n.args[2])
                        if o is not None:
                            return [s - {o}]
                    if name in ('_StoreBlock', 'cls') and (name == '_StoreBlock' or fn.cls is ts.block):
                        # bare constructor with a non-empty token list: handles not built yet
                        toks = n.args[2] if len(n.args) >= 3 else next(
                            (k.value for k in n.keywords if k.arg == 'tokens'), None)
                        if toks is not None and not (isinstance(toks, ast.List) and not toks.elts):
                            origin.setdefault('ctor', norm(n)[:120])
                            return [s | {'ctor'}]
                return [s]
            return [s]

        w = Walker(transfer)
        out = w.run(stmts_no_doc(fn.node.body), [init_pending])
        return (out.normal | out.returned), origin

    # fixpoint for rebuild summaries
    changed = True
    for f in funcs:
        rebuilds[f.qualname] = set()
    rounds = 0
    while changed and rounds < 6:
        changed = False
        rounds += 1
        for f in funcs:
            bp = block_param_idx(f)
            good: set[int] = set()
            for name, i in bp.items():
                exits, _ = run(f, frozenset({name}), False)
                if exits and all(name not in e for e in exits):
                    good.add(i)
            if good != rebuilds[f.qualname]:
                rebuilds[f.qualname] = good
                changed = True
    # obligations
    n_sites = 0
    for f in funcs:
        exits, origin = run(f, frozenset(), True)
        if not origin:
            continue
        for o, stmt in origin.items():
            n_sites += 1
            left = [e for e in exits if o in e]
            site = f'token_store:{f.qualname}'
            ctx.check(not left, rid, f'{site}: {stmt}', stmt,
                      f'token list of `{o}` is changed by `{stmt}` and a normal path reaches the end of {f.qualname} '
                      f'without rebuild()/re-handling of that block (handles and cached size go stale)', f.where,
                      note=f'block {o} re-handled on all {len(exits)} exit states')
    ctx.stats['ts_handle'] = {'token_list_mutation_sites': n_sites,
                              'rebuild_summaries': {k: sorted(v) for k, v in rebuilds.items() if v}}
    if n_sites < 6:
        raise AnalysisError(f'TS-HANDLE: only {n_sites} token-list mutation sites found (>= 6 confirmed by hand)')


# ======================================================================= TS-DETACH
def rule_ts_detach(ctx: RuleContext, ts: TS, rid: str) -> None:
    ctx.rule(rid, 'every token range removed from a block token list has store_handle = None assigned over exactly '
                  'that range beforehand (removed tokens are detached)')
    fn = ts._need('TokenStore._splice')
    stores = ts.store_names(fn)
    blocks = ts.block_names(fn, stores)
    aliases: dict[str, str] = {}
    for n in walk_no_nested(fn.node):
        if isinstance(n, ast.Assign) and len(n.targets) == 1 and isinstance(n.targets[0], ast.Name) \
                and ts.is_block_expr(n.value, stores, blocks):
            aliases[n.targets[0].id] = norm(n.value)

    def canon(e: ast.AST) -> str:
        t = norm(e)
        return aliases.get(t, t)

    # cleared ranges, per enclosing branch (we compare within the same If arm)
    def cleared_in(body: list[ast.stmt]) -> set[tuple[str, str, str]]:
        out: set[tuple[str, str, str]] = set()
        for st in body:
            for loop in [x for x in ast.walk(st) if isinstance(x, ast.For)]:
                clears = [a for a in ast.walk(loop) if isinstance(a, ast.Assign) and len(a.targets) == 1
                          and isinstance(a.targets[0], ast.Attribute) and a.targets[0].attr == 'store_handle'
                          and isinstance(a.value, ast.Constant) and a.value.value is None]
                if not clears:
                    continue
                tgt = clears[0].targets[0].value  # the token expression
                if isinstance(loop.iter, ast.Call) and norm(loop.iter.func) == 'range' and isinstance(loop.target, ast.Name):
                    a = loop.iter.args
                    lo, hi = ('0', norm(a[0])) if len(a) == 1 else (norm(a[0]), norm(a[1]))
                    if isinstance(tgt, ast.Subscript) and isinstance(tgt.value, ast.Attribute) \
                            and tgt.value.attr == 'tokens' and norm(tgt.slice) == loop.target.id:
                        out.add((canon(tgt.value.value), lo, hi))
                    else:
                        # nested: for i in range(lo, hi): for token in <blocks>[i].tokens: token.store_handle = None
                        for inner in [x for x in ast.walk(loop) if isinstance(x, ast.For) and x is not loop]:
                            it = inner.iter
                            if isinstance(it, ast.Attribute) and it.attr == 'tokens' and isinstance(it.value, ast.Subscript) \
                                    and norm(it.value.slice) == loop.target.id and isinstance(tgt, ast.Name) \
                                    and isinstance(inner.target, ast.Name) and inner.target.id == tgt.id:
                                out.add(('<blocks>', lo, hi))
        return out

    def removed_in(body: list[ast.stmt]) -> list[tuple[tuple[str, str, str], ast.AST]]:
        out: list[tuple[tuple[str, str, str], ast.AST]] = []
        for st in body:
            if not isinstance(st, ast.Assign) or len(st.targets) != 1:
                continue
            t = st.targets[0]
            if isinstance(t, ast.Subscript) and isinstance(t.slice, ast.Slice):
                if isinstance(t.value, ast.Attribute) and t.value.attr == 'tokens':
                    lo = norm(t.slice.lower) if t.slice.lower else '0'
                    hi = norm(t.slice.upper) if t.slice.upper else f'len({norm(t.value)})'
                    out.append(((canon(t.value.value), lo, hi), st))
                elif ts.is_blocks_expr(t.value, stores):
                    a = norm(t.slice.lower) if t.slice.lower else '0'
                    b = t.slice.upper
                    # blocks a..b-1 are replaced; tokens kept are those spliced into the new block
                    kept: list[tuple[str, str, str]] = []
                    for s in ast.walk(st.value):
                        if isinstance(s, ast.Subscript) and isinstance(s.slice, ast.Slice) \
                                and isinstance(s.value, ast.Attribute) and s.value.attr == 'tokens':
                            kept.append((norm(s.value.value), norm(s.slice.lower) if s.slice.lower else '',
                                         norm(s.slice.upper) if s.slice.upper else ''))
                    first = f'{norm(t.value)}[{a}]'
                    last_i = None
                    if isinstance(b, ast.BinOp) and isinstance(b.op, ast.Add) and isinstance(b.right, ast.Constant) \
                            and b.right.value == 1:
                        last_i = norm(b.left)
                    if last_i is None:
                        raise AnalysisError(f'TS-DETACH: cannot interpret block slice bound {norm(t.slice)}')
                    last = f'{norm(t.value)}[{last_i}]'
                    kf = [k for k in kept if k[0] == first and k[1] == '' and k[2]]
                    kl = [k for k in kept if k[0] == last and k[2] == '' and k[1]]
                    if len(kf) != 1 or len(kl) != 1:
                        raise AnalysisError('TS-DETACH: kept head/tail slices of the multi-block splice not recognised')
                    out.append(((first, kf[0][2], f'len({first}.tokens)'), st))
                    out.append((('<blocks>', f'{a} + 1', last_i), st))
                    out.append(((last, '0', kl[0][1]), st))
        return out

    n = 0
    for branch in [x for x in ast.walk(fn.node) if isinstance(x, ast.If)]:
        for body in (branch.body, branch.orelse):
            rem = removed_in(body)
            if not rem:
                continue
            cl = cleared_in(body)
            for key, st in rem:
                n += 1
                ctx.check(key in cl, rid, f'token_store:{fn.qualname}: {norm(st)[:80]} range {key}', f'{key}',
                          f'tokens {key[0]}.tokens[{key[1]}:{key[2]}] are removed by `{norm(st)[:100]}` but no preceding '
                          f'loop clears their store_handle over that range (cleared: {sorted(cl)})', fn.where,
                          note=f'cleared by loop over {key}')
    if n < 4:
        raise AnalysisError(f'TS-DETACH: only {n} removal ranges found in _splice (4 confirmed by hand)')


# ======================================================================= LEN
def rule_len(ctx: RuleContext, ts: TS, rid: str) -> None:
    ctx.rule(rid, 'every normal path through _splice adds (inserted - removed) to _len exactly once; _len is otherwise '
                  'only set by __init__ (0) and from_tokens (len(tokens))')
    fn = ts._need('TokenStore._splice')
    stores = ts.store_names(fn)

    def transfer(s: int, ev: tuple[Any, ...]) -> Iterable[int]:
        if ev[0] == 'store':
            t = ev[1]
            if isinstance(t, ast.Attribute) and t.attr == '_len' and isinstance(t.value, ast.Name) and t.value.id in stores:
                return [min(s + 1, 2)]
        return [s]

    out = Walker(transfer).run(stmts_no_doc(fn.node.body), [0])
    exits = out.normal | out.returned
    ctx.check(exits == {1}, rid, 'token_store:TokenStore._splice', f'_len updates per path: {sorted(exits)}',
              f'some normal path through _splice updates _len {sorted(exits)} times (must be exactly once)', fn.where,
              note='exactly one _len update on every normal path')
    # form of the update: `self._len += len(<inserted>) - <removed>` where <removed> is assigned on every path
    upd = [n for n in walk_no_nested(fn.node) if isinstance(n, ast.AugAssign) and isinstance(n.target, ast.Attribute)
           and n.target.attr == '_len']
    ins_param = fn.params[1] if len(fn.params) > 1 else 'tokens'
    for u in upd:
        v = u.value
        ok = isinstance(u.op, ast.Add) and isinstance(v, ast.BinOp) and isinstance(v.op, ast.Sub) \
            and norm(v.left) == f'len({ins_param})' and isinstance(v.right, ast.Name)
        ctx.check(ok, rid, 'token_store:TokenStore._splice: _len delta', norm(u),
                  f'_len is updated by `{norm(u)}`, expected `+= len({ins_param}) - <removed count>`', fn.where,
                  note=norm(u))
        if ok:
            rem = v.right.id  # type: ignore[union-attr]

            def t2(s: str, ev: tuple[Any, ...]) -> Iterable[str]:
                if ev[0] == 'store' and isinstance(ev[1], ast.Name) and ev[1].id == rem:
                    return ['set']
                if ev[0] == 'eval' and isinstance(ev[1], ast.AugAssign) and isinstance(ev[1].target, ast.Attribute) \
                        and ev[1].target.attr == '_len':
                    return [s + '!'] if s == 'unset' else [s]
                return [s]

            o2 = Walker(t2).run(stmts_no_doc(fn.node.body), ['unset'])
            bad = [s for s in (o2.normal | o2.returned) if s.startswith('unset')]
            ctx.check(not bad, rid, f'token_store:TokenStore._splice: {rem} defined', rem,
                      f'{rem} is not assigned on every path before the _len update', fn.where, note='assigned on all paths')
    # removed count formulas: single-block `hi - lo` of the replaced slice; multi-block tail + middle + head
    pass  # the value added to _len is decided by TS-SEQ (linear forms); the textual formula check was dropped
    # other writers of _len
    for f in ts.funcs.values():
        for n in walk_no_nested(f.node):
            tgt = None
            if isinstance(n, ast.Assign):
                tgt = n.targets[0]
            elif isinstance(n, ast.AugAssign):
                tgt = n.target
            if isinstance(tgt, ast.Attribute) and tgt.attr == '_len':
                if f.qualname in ('TokenStore._splice',):
                    continue
                if f.qualname == 'TokenStore.__init__':
                    ok = isinstance(n, ast.Assign) and isinstance(n.value, ast.Constant) and n.value.value == 0
                elif f.qualname == 'TokenStore.from_tokens':
                    ok = isinstance(n, ast.Assign) and norm(n.value) == f'len({f.params[1]})'
                else:
                    ok = False
                ctx.check(ok, rid, f'token_store:{f.qualname}: {norm(n)}', norm(n),
                          f'unexpected writer of _len: `{norm(n)}` in {f.qualname}', f.where, note=norm(n))


def _check_removed_formula(ctx: RuleContext, ts: TS, fn: FuncInfo, rid: str) -> None:
    """`len_removed` must equal the size of the range that the same branch removes."""
    for branch in [x for x in ast.walk(fn.node) if isinstance(x, ast.If)]:
        for body in (branch.body, branch.orelse):
            assigns = [s for s in body if isinstance(s, ast.Assign) and isinstance(s.targets[0], ast.Name)
                       and s.targets[0].id.startswith('len_removed')]
            slices = [s for s in body if isinstance(s, ast.Assign) and isinstance(s.targets[0], ast.Subscript)
                      and isinstance(s.targets[0].slice, ast.Slice)]
            if not assigns or not slices:
                continue
            t = slices[0].targets[0]
            assert isinstance(t, ast.Subscript) and isinstance(t.slice, ast.Slice)
            a = assigns[0]
            if isinstance(t.value, ast.Attribute) and t.value.attr == 'tokens':
                lo = norm(t.slice.lower) if t.slice.lower else '0'
                hi = norm(t.slice.upper) if t.slice.upper else ''
                want = f'{hi} - {lo}'
                ctx.check(norm(a.value) == want, rid, 'token_store:TokenStore._splice: removed count (single block)',
                          norm(a), f'removed count is `{norm(a.value)}` but the slice removed is [{lo}:{hi}] '
                          f'(expected `{want}`)', fn.where, note=norm(a))
            else:
                # multi-block: tail of first block + all middle blocks + head of last block
                txt = norm(a.value)
                incr = [norm(x) for s in body for x in ast.walk(s) if isinstance(x, ast.AugAssign)
                        and isinstance(x.target, ast.Name) and x.target.id == a.targets[0].id]  # type: ignore[union-attr]
                lo_i = norm(t.slice.lower) if t.slice.lower else '0'
                ok = 'len(' in txt and f'[{lo_i}].tokens)' in txt and ' - ' in txt and ' + ' in txt and len(incr) == 1 \
                    and incr[0].endswith('.tokens)') and '+=' in incr[0]
                ctx.check(ok, rid, 'token_store:TokenStore._splice: removed count (multi block)',
                          f'{norm(a)}; {incr}', f'removed count `{txt}` / increments {incr} do not have the shape '
                          f'tail(first) + sum(middle) + head(last)', fn.where, note=f'{norm(a)}; {incr}')


# ======================================================================= OWN-STORE
OWNED_ATTRS = {'_blocks', '_len', 'store_handle', 'last_newline_index'}
OWNED_SOFT = {'size', 'index', 'tokens'}   # also names of unrelated attributes elsewhere: judged by receiver shape


def rule_own_store(ctx: RuleContext, ts: TS, rid: str, attrs: Optional[set[str]] = None) -> None:
    ctx.rule(rid, 'the store\'s bookkeeping (_blocks, _len, store_handle, block tokens/size/last_newline_index/index) is '
                  'written only inside token_store.py')
    p = ts.p
    n_in = 0
    for m in p.modules.values():
        for node in ast.walk(m.tree):
            tgts: list[ast.AST] = []
            if isinstance(node, ast.Assign):
                tgts = list(node.targets)
            elif isinstance(node, (ast.AugAssign, ast.AnnAssign)):
                tgts = [node.target]
            elif isinstance(node, ast.Delete):
                tgts = list(node.targets)
            elif isinstance(node, ast.Call) and isinstance(node.func, ast.Attribute) \
                    and node.func.attr in LIST_MUTATORS and isinstance(node.func.value, ast.Attribute) \
                    and node.func.value.attr in ('_blocks',):
                tgts = [node.func.value]
            for t in tgts:
                for sub in ([t] if not isinstance(t, (ast.Tuple, ast.List)) else t.elts):
                    base = sub
                    while isinstance(base, ast.Subscript):
                        base = base.value
                    if not isinstance(base, ast.Attribute):
                        continue
                    name = base.attr
                    hard = name in OWNED_ATTRS
                    soft = name in OWNED_SOFT and isinstance(base.value, ast.Attribute) and \
                        base.value.attr in ('block', 'store_handle')
                    # `.size.line` / `.size.column` writes
                    if isinstance(sub, ast.Attribute) and isinstance(sub.value, ast.Attribute) \
                            and sub.value.attr == 'size' and sub.attr in ('line', 'column'):
                        hard = True
                        name = 'size.' + sub.attr
                    if not (hard or soft):
                        continue
                    if m is ts.m:
                        n_in += 1
                        continue
                    ctx.fail(rid, f'{m.relpath}', norm(node)[:160],
                             f'`{norm(node)[:120]}` writes token-store bookkeeping ({name}) outside token_store.py',
                             f'{m.relpath}:{getattr(node, "lineno", 0)}')
    ctx.ok(rid, 'whole program', f'{n_in} bookkeeping writes, all inside token_store.py')
    ctx.ok(rid, 'modules scanned', f'{len(p.modules)} modules', nontrivial=False)
    if n_in < 20:
        raise AnalysisError(f'OWN-STORE: only {n_in} bookkeeping writes seen in token_store.py (>= 20 confirmed)')


# ======================================================================= TS-GATE
def rule_ts_gate(ctx: RuleContext, ts: TS, rid: str) -> None:
    ctx.rule(rid, 'the gate of _splice refuses, before any mutation, every incoming token that already has a store handle unless '
                  'that handle belongs to *this* store and lies inside the range being replaced (decided by a truth table over: has '
                  'handle / same store / in range); so no token can end up listed by two stores')
    import itertools
    fn = ts._need('TokenStore._splice')
    tokens_p = fn.params[1]
    body = stmts_no_doc(fn.node.body)
    gate = None
    before_mut = True
    for st in body:
        if isinstance(st, ast.For) and norm(st.iter) == tokens_p and any(isinstance(x, ast.Raise) for x in ast.walk(st)):
            gate = st
            break
        if not (isinstance(st, ast.Assign) and all(isinstance(t, (ast.Name, ast.Tuple)) for t in st.targets)):
            before_mut = False
    if gate is None:
        ctx.fail(rid, 'token_store:TokenStore._splice', 'gate loop', 'no loop over the incoming tokens that refuses tokens already in a store', fn.where)
        return
    ctx.check(before_mut, rid, 'token_store:TokenStore._splice: gate position', 'before any mutation',
              'the in-store check runs after state was already modified', fn.where, note='gate is the first effectful statement')
    tv = norm(gate.target)
    ifs = [s for s in gate.body if isinstance(s, ast.If) and any(isinstance(x, ast.Raise) for x in s.body)]
    if len(ifs) != 1 or len(gate.body) != 1:
        raise AnalysisError('TS-GATE: gate loop body is not a single `if ...: raise`')
    test = ifs[0].test

    def ev(e: ast.AST, A: bool, S: bool, R: bool) -> bool:
        if isinstance(e, ast.BoolOp):
            vals = [ev(v, A, S, R) for v in e.values]
            return all(vals) if isinstance(e.op, ast.And) else any(vals)
        if isinstance(e, ast.UnaryOp) and isinstance(e.op, ast.Not):
            return not ev(e.operand, A, S, R)
        t = norm(e)
        if t in (f'{tv}.store_handle is not None', f'{tv}.store_handle'):
            return A
        if t == f'{tv}.store_handle is None':
            return not A
        if isinstance(e, ast.Compare) and len(e.ops) == 1 and isinstance(e.ops[0], (ast.Is, ast.IsNot)) and 'store' in t:
            sides = sorted([norm(e.left), norm(e.comparators[0])], key=len)
            if sides[0] == 'self' and sides[1].endswith('.block.store'):
                return S if isinstance(e.ops[0], ast.Is) else not S
        if isinstance(e, ast.Compare) and len(e.ops) == 2 and all(isinstance(o, ast.LtE) for o in e.ops) \
                and norm(e.left) == fn.params[2] and norm(e.comparators[1]) == fn.params[3] and 'block.index' in norm(e.comparators[0]) \
                and norm(e.comparators[0]).count('.index') == 2:
            return R
        raise AnalysisError(f'TS-GATE: gate condition atom {t[:80]!r} not understood')

    wrong = []
    for A, S, R in itertools.product([False, True], repeat=3):
        want = A and (not S or not R)
        try:
            got = ev(test, A, S, R)
        except AnalysisError:
            raise
        if got != want:
            wrong.append((A, S, R, got))
    def show(w: tuple) -> str:
        A, S, R, got = w
        return f'token {"with" if A else "without"} a handle, {"this" if S else "another"} store, position {"inside" if R else "outside"} the range: ' \
               f'{"refused" if got else "accepted"}'
    ctx.check(not wrong, rid, 'token_store:TokenStore._splice: gate condition', norm(test)[:160],
              'the gate decides wrongly for: ' + '; '.join(show(w) for w in wrong if w[0]) + ' -- a token that lives in another document at a '
              'position that happens to fall inside the replaced range is spliced in and ends up in two stores', fn.where,
              note='refuse iff has handle and (foreign store or outside range)')
    ft = ts._need('TokenStore.from_tokens')
    ok = any(isinstance(s, ast.For) and any(isinstance(x, ast.Raise) for x in ast.walk(s)) and f'.store_handle' in norm(s) for s in stmts_no_doc(ft.node.body)[:1])
    ctx.check(ok, rid, 'token_store:TokenStore.from_tokens: gate', 'refuses tokens that have a handle', 'from_tokens does not refuse tokens that are '
              'already in a store before building blocks', ft.where)
