"""C07 -- the token store behaves like a plain ordered sequence (structural clauses)."""
from __future__ import annotations

from ..model import Program
from ..report import RuleContext
from . import tokenstore as T

EXPLANATION = (
    'Static analysis of autobean_refactor/token_store.py (AST + path-forking typestate walker, no execution). '
    'Decides necessary structural conditions of C07: TS-IDX (block indexes are re-indexed after every length-changing '
    'mutation of the block list before any index is read and before any public entry returns; interprocedural over the '
    'private helpers), TS-HANDLE (every mutation of a block token list is followed on all normal paths by a rebuild / '
    're-handling of that block), TS-DETACH (removed ranges have their handles cleared over exactly that range), LEN '
    '(_len updated exactly once per splice path with inserted-removed; removed count matches the removed slice), '
    'OWN-STORE (bookkeeping fields are written only in token_store.py). It does NOT decide the index arithmetic of '
    'get_prev/get_next/iter/get_index, the split/merge thresholds, or equality with a reference list over histories.')


def run(ctx: RuleContext, p: Program) -> None:
    ts = T.TS(p)
    ctx.try_rule(T.rule_ts_idx, ts, 'TS-IDX')
    ctx.try_rule(T.rule_ts_handle, ts, 'TS-HANDLE')
    ctx.try_rule(T.rule_ts_detach, ts, 'TS-DETACH')
    ctx.try_rule(T.rule_len, ts, 'LEN')
    ctx.try_rule(T.rule_own_store, ts, 'OWN-STORE')
    ctx.try_rule(T.rule_ts_gate, ts, 'TS-GATE')
    from . import storeforms
    ctx.try_rule(storeforms.rule_nav_form, ts, 'NAV-FORM')
    ctx.try_rule(storeforms.rule_build_part, ts, 'BUILD-PART')
    ctx.not_decided += ['arithmetic of get_prev/get_next/iter/get_index/get_position',
                        'split / merge thresholds', 'agreement with a reference list over operation histories']
    ctx.assumptions += ['_update_block_indexes(k) re-indexes blocks k.. (its loop shape is checked, its argument is not)',
                        'list / slice semantics of Python lists']
