"""C07 -- the token store behaves like a plain ordered sequence (structural clauses)."""
from __future__ import annotations

from ..model import Program
from ..report import RuleContext
from . import tokenstore as T

EXPLANATION = (
    'Static analysis of autobean_refactor/token_store.py (AST + path-forking typestate walker, no execution). '
    'Decides necessary structural conditions of C07: TS-IDX (block indexes are re-indexed after every length-changing '
    'mutation of the block list before any index is read and before any public entry returns; interprocedural over the '
    'private helpers), TS-HANDLE (every mutation of a block token list is followed on all normal paths by a rebuild / '
    're-handling of that block), LEN (_len updated exactly once per splice path), '
    'OWN-STORE (bookkeeping fields are written only in token_store.py), TS-GATE (the already-in-a-store gate of _splice), '
    'NAV-SEM (the navigation and addressing functions, interpreted over every layout of a small family of abstract stores, agree '
    'with the flat list for every token and token pair, also after a really interpreted mutation that follows a round of queries), '
    'BUILD-SEM / FROM-SEM (_build_blocks and from_tokens interpreted around their thresholds). TS-SEQ: _splice with its helpers inlined is evaluated symbolically (an AST '
    'interpreter over symbolic token sequences and linear forms, every size test forked) on stores of 1..4 blocks (1..7 in the '
    'thorough tier) for every placement of the replaced range: at return the concatenated block contents equal what a list '
    'would hold, block indexes and store back-pointers are consistent, every block has fresh handles and size caches, removed tokens have lost their handles, and '
    '_len moved by inserted - removed -- one step of the history induction, for every block layout of that size. It does NOT '
    'decide the split/merge thresholds themselves (any load factor is sound for the sequence semantics) or the text of '
    'positions (C08).')


def run(ctx: RuleContext, p: Program) -> None:
    ts = T.TS(p)
    ctx.try_rule(T.rule_ts_idx, ts, 'TS-IDX')
    ctx.try_rule(T.rule_ts_handle, ts, 'TS-HANDLE')
    ctx.try_rule(T.rule_len, ts, 'LEN')
    ctx.try_rule(T.rule_own_store, ts, 'OWN-STORE')
    ctx.try_rule(T.rule_ts_gate, ts, 'TS-GATE')
    from . import storeforms
    from . import tsseq, possem
    ctx.try_rule(possem.rule_nav_sem, ts, 'NAV-SEM')
    ctx.try_rule(possem.rule_nav_layout, ts, 'NAV-LAYOUT', 4 if ctx.tier == 'quick' else 6)
    ctx.try_rule(possem.rule_build_sem, ts, 'BUILD-SEM')
    ctx.try_rule(possem.rule_from_tokens_sem, ts, 'FROM-SEM')
    ctx.try_rule(tsseq.rule_ts_seq, ts, "TS-SEQ", 4 if ctx.tier == "quick" else 7)
    ctx.not_decided += ['arithmetic of get_prev/get_next/iter/get_index/get_position',
                        'split / merge thresholds', 'agreement with a reference list over operation histories']
    ctx.assumptions += ['_update_block_indexes(k) re-indexes blocks k.. (its loop shape is checked, its argument is not)',
                        'list / slice semantics of Python lists']
