"""C05 -- after any edit history the tree is a valid syntax tree of its tokens (structural clauses)."""
from __future__ import annotations

import ast
from typing import Any, Iterable, Optional

from .. import linear
from ..fieldmodel import build_tree_classes
from ..model import AnalysisError, ClassInfo, FuncInfo, Program, dotted, norm, self_attr, stmts_no_doc, walk_no_nested
from ..report import RuleContext
from ..walker import Walker
from . import gen, handmodels, repwrap as R

EXPLANATION = (
    'Static analysis (AST, path walker, sign analysis, coverage). Decides: PAIR-DETACH (whenever the tokens of a model '
    'obtained by detach()/detach_with_separators() are consumed, the model is re-bound to the receiving store by an accepted '
    'reattach idiom on every normal path; one level of wrapper -- _insert_tokens -- is summarised), PAIR-TREE (a token-side edit '
    'is followed by the matching tree-side edit on all normal paths, and in the repeated wrapper both sides use the same '
    'position), SIGN-IDX (positions handed to _insert_tokens/_del_tokens/_prev_last are non-negative-normalised), '
    'COVER-REATTACH (every _reattach re-binds the store and every child), BORDER (first_token/last_token follow the ordered '
    'field list), POP-SELF (pop() captures the node\'s tokens before deleting them, builds a store from exactly those and '
    'reattaches the node to it), OWN-TREE (_token_store and Repeated.items are written only by the owning classes). It does '
    'NOT decide nesting / non-overlap of spans or single ownership of every token as runtime facts.')

STORE_SINKS = {'insert_after', 'insert_before', 'splice', 'from_tokens'}


# ------------------------------------------------------------------ PAIR-DETACH
def _wrapper_summaries(p: Program) -> dict[str, tuple[int, str]]:
    """private helpers that detach the elements of an iterable parameter without reattaching them:
    name -> (positional index of that parameter counting self, parameter name)"""
    out: dict[str, tuple[int, str]] = {}
    for f in p.all_funcs:
        if f.kind == 'overload' or not f.name.startswith('_') or f.name.startswith('__'):
            continue
        params = f.params
        for lp in [n for n in walk_no_nested(f.node) if isinstance(n, ast.For)]:
            src = lp.iter
            if isinstance(src, ast.Call) and norm(src.func) == 'enumerate' and src.args:
                src = src.args[0]
            if not (isinstance(src, ast.Name) and src.id in params):
                continue
            tgt = lp.target.elts[-1] if isinstance(lp.target, ast.Tuple) else lp.target
            if not isinstance(tgt, ast.Name):
                continue
            det = any(isinstance(c, ast.Call) and isinstance(c.func, ast.Attribute) and c.func.attr == 'detach'
                      and norm(c.func.value) == tgt.id for st in lp.body for c in ast.walk(st))
            rea = any(isinstance(c, ast.Call) and isinstance(c.func, ast.Attribute) and c.func.attr == 'reattach'
                      for c in walk_no_nested(f.node))
            if det and not rea:
                out[f.name] = (params.index(src.id), src.id)
    return out


def rule_pair_detach(ctx: RuleContext, p: Program, rid: str) -> None:
    ctx.rule(rid, 'a model whose tokens were taken by detach() / detach_with_separators() (directly or through a summarised '
                  'helper such as _insert_tokens) is reattached to the receiving store on every normal path before the function '
                  'returns: v.reattach(store), field.reattach(v, store), `for v in vs: v.reattach(store)`, or an isinstance-'
                  'guarded reattach (tokens need none)')
    summaries = _wrapper_summaries(p)
    ctx.stats['pair_detach_summaries'] = {k: v[1] for k, v in summaries.items()}
    n_sites = 0
    for f in p.all_funcs:
        if f.kind == 'overload' or f.module.name.startswith('autobean_refactor.modelgen') or 'meta_models' in f.module.name:
            continue
        if f.name in ('detach', 'detach_with_separators') or f.name in summaries:
            continue   # these hand the detached tokens to their caller (the obligation moves with them)
        src = f.node
        has = any(isinstance(c, ast.Call) and isinstance(c.func, ast.Attribute)
                  and (c.func.attr in ('detach', 'detach_with_separators') or c.func.attr in summaries)
                  for c in walk_no_nested(src))
        if not has:
            continue
        origin: dict[str, str] = {}
        elem_of: dict[str, str] = {}     # loop variable -> iterable name
        loop_vars: dict[int, list[tuple[str, str]]] = {}
        # a local bound once to a display of collections (children = (*operands, *ops)) stands for that display in a loop header
        single: dict[str, list] = {}
        for a_ in walk_no_nested(src):
            tg_ = a_.targets[0] if isinstance(a_, ast.Assign) and len(a_.targets) == 1 else a_.target if isinstance(a_, ast.AnnAssign) and a_.value is not None else None
            if isinstance(tg_, ast.Name):
                single.setdefault(tg_.id, []).append(a_.value)
        for lp in [n for n in walk_no_nested(src) if isinstance(n, (ast.For, ast.comprehension))]:
            it = lp.iter
            tgt = lp.target
            if isinstance(it, ast.Name) and len(single.get(it.id, [])) == 1 and isinstance(single[it.id][0], (ast.Tuple, ast.List)) \
                    and any(isinstance(x, ast.Starred) for x in single[it.id][0].elts):
                it = single[it.id][0]
            pairs: list[tuple[str, str]] = []
            if isinstance(it, ast.Name) and isinstance(tgt, ast.Name):
                pairs.append((tgt.id, it.id))
            elif isinstance(it, ast.Call) and norm(it.func) in ('enumerate', 'reversed') and it.args \
                    and isinstance(it.args[0], ast.Name):
                t = tgt.elts[-1] if isinstance(tgt, ast.Tuple) else tgt
                if isinstance(t, ast.Name):
                    pairs.append((t.id, it.args[0].id))
            elif isinstance(it, ast.Call) and norm(it.func) == 'zip' and isinstance(tgt, ast.Tuple):
                for t, a in zip(tgt.elts, it.args):
                    if isinstance(t, ast.Name) and isinstance(a, ast.Name):
                        pairs.append((t.id, a.id))
            elif isinstance(it, ast.Call) and norm(it.func) in ('itertools.chain', 'chain') and isinstance(tgt, ast.Name):
                # one loop over several collections: its variable stands for an element of each of them
                for a in it.args:
                    if isinstance(a, ast.Name):
                        pairs.append((tgt.id, a.id))
            elif isinstance(it, (ast.Tuple, ast.List)) and isinstance(tgt, ast.Name) and any(isinstance(x, ast.Starred) for x in it.elts):
                for x in it.elts:
                    if isinstance(x, ast.Starred) and isinstance(x.value, ast.Name):
                        pairs.append((tgt.id, x.value.id))
            for a, b in pairs:
                elem_of[a] = b
            loop_vars[id(lp)] = pairs

        def key_of(e: ast.AST) -> Optional[str]:
            if isinstance(e, ast.Name):
                return e.id
            a = self_attr(e)
            return f'self.{a}' if a else None

        def transfer(s: frozenset[str], ev: tuple[Any, ...]) -> Iterable[frozenset[str]]:
            if ev[0] == 'exit-loop':
                # what one iteration left pending is pending for every element of the iterable
                ns = set(s)
                for var, itname in loop_vars.get(id(ev[1]), []):
                    if var in ns:
                        ns.discard(var)
                        ns.add('each:' + itname)
                        origin.setdefault('each:' + itname, origin.get(var, var))
                return [frozenset(ns)]
            if ev[0] == 'enter-loop':
                # a loop over the same iterable that reattaches its loop variable re-binds every element
                ns = set(s)
                for var, itname in loop_vars.get(id(ev[1]), []):
                    if ('each:' + itname) in ns and any(
                            isinstance(c, ast.Call) and isinstance(c.func, ast.Attribute) and c.func.attr == 'reattach'
                            and (norm(c.func.value) == var or (c.args and norm(c.args[0]) == var))
                            for st in ev[1].body for c in ast.walk(st)):
                        ns.discard('each:' + itname)
                return [frozenset(ns)]
            if ev[0] == 'assume':
                t, truth = ev[1], ev[2]
                if isinstance(t, ast.Call) and norm(t.func) == 'isinstance' and len(t.args) == 2 and not truth \
                        and 'RawTreeModel' in norm(t.args[1]):
                    k = key_of(t.args[0])
                    if k:
                        return [s - {k}]
                if not truth and key_of(t) in s:
                    return [s - {key_of(t) or ''}]       # `if v:` false branch: v is None, nothing was detached
                if isinstance(t, ast.Compare) and len(t.ops) == 1 and isinstance(t.comparators[0], ast.Constant) \
                        and t.comparators[0].value is None:
                    k = key_of(t.left)
                    isnone = (isinstance(t.ops[0], ast.Is) and truth) or (isinstance(t.ops[0], ast.IsNot) and not truth)
                    if k and isnone:
                        return [s - {k}]
                return [s]
            if ev[0] != 'eval' or not isinstance(ev[1], ast.Call) or not isinstance(ev[1].func, ast.Attribute):
                return [s]
            c = ev[1]
            name = c.func.attr
            if name == 'detach' and not c.args:
                k = key_of(c.func.value)
                if k:
                    origin.setdefault(k, norm(c))
                    return [s | {k}]
            if name == 'detach_with_separators' and len(c.args) == 1:
                k = key_of(c.args[0])
                if k:
                    origin.setdefault(k, norm(c))
                    return [s | {k}]
            if name in summaries and self_attr(c.func) is not None:
                idx, _ = summaries[name]
                args = list(c.args)
                if idx - 1 < len(args):
                    a = args[idx - 1]
                    if isinstance(a, ast.List):
                        add = {key_of(el) for el in a.elts if key_of(el)}
                        for k in add:
                            origin.setdefault(k or '', norm(c))
                        return [s | {k for k in add if k}]
                    if isinstance(a, ast.Name):
                        origin.setdefault('each:' + a.id, norm(c))
                        return [s | {'each:' + a.id}]
            if name == 'reattach':
                k = key_of(c.func.value)
                if k is not None and k in s:
                    return [s - {k}]
                if k is not None and k in elem_of and ('each:' + elem_of[k]) in s:
                    return [s - {'each:' + elem_of[k]}]
                # field.reattach(v, store)
                if c.args:
                    k2 = key_of(c.args[0])
                    if k2 is not None and k2 in s:
                        return [s - {k2}]
            return [s]

        out = Walker(transfer).run(stmts_no_doc(src.body), [frozenset()])
        exits = out.normal | out.returned
        site = f'{f.module.name.split(".", 1)[1]}:{f.qualname}'
        for k, o in origin.items():
            n_sites += 1
            if k in elem_of and ('each:' + elem_of[k]) in origin:
                k = 'each:' + elem_of[k]
            left = any(k in e for e in exits)
            # comprehension/loop-local variables whose detach happens inside a loop that also reattaches are cleared per iteration
            ctx.check(not left, rid, site, o,
                      f'`{o}` takes the tokens of `{k.replace("each:", "each element of ")}` but a normal path returns without '
                      f'reattaching it to the receiving store: the node keeps pointing at its old (now empty) store', f.where,
                      note=f'{k} reattached on all paths')
    if n_sites < 200:
        raise AnalysisError(f'PAIR-DETACH: only {n_sites} detach sites analysed (>= 200 incl. generated code confirmed)')


# ------------------------------------------------------------------ PAIR-TREE
def rule_pair_tree(ctx: RuleContext, p: Program, rid: str) -> None:
    ctx.rule(rid, 'a token-side edit is followed by the matching tree-side edit on every normal path: in node properties '
                  '_create_node/_remove_node/replace_node -> inner_field.__set__; in the repeated wrapper _insert_tokens/'
                  '_del_tokens/splice <-> mutation of items, with the same position on both sides')
    props = p.module('models.internal.properties')
    n = 0
    for c in p.classes:
        st = c.attrs.get('__set__')
        if not isinstance(st, FuncInfo):
            continue
        uses = [x for x in walk_no_nested(st.node) if isinstance(x, ast.Call) and (
            (isinstance(x.func, ast.Attribute) and x.func.attr in ('_create_node', '_remove_node'))
            or (dotted(x.func) or '').endswith('replace_node'))]
        if not uses:
            continue
        n += 1

        def transfer(s: str, ev: tuple[Any, ...]) -> Iterable[str]:
            if ev[0] == 'eval' and isinstance(ev[1], ast.Call):
                x = ev[1]
                if x in uses:
                    return ['token-edited']
                if isinstance(x.func, ast.Attribute) and x.func.attr == '__set__' and 'inner_field' in norm(x.func.value):
                    return ['done']
            return [s]

        out = Walker(transfer).run(stmts_no_doc(st.node.body), ['clean'])
        bad = 'token-edited' in (out.normal | out.returned)
        ctx.check(not bad, rid, f'{c.module.name.split(".", 1)[1]}:{c.name}.__set__', 'token edit then field update',
                  f'{c.name}.__set__ can edit the tokens and return without storing the new child in the field', st.where,
                  note=f'{len(uses)} token-side edits, each followed by inner_field.__set__')
    if n < 4:
        raise AnalysisError(f'PAIR-TREE: only {n} node property setters found (>= 4 confirmed by hand)')
    # repeated wrapper
    wrapper = p.cls('RepeatedNodeWrapper', 'models.internal.properties')
    ra = R.repeated_attrs(p, wrapper)
    m = 0
    for f in wrapper.methods():
        if f.kind == 'overload' or f.name.startswith('_') and not f.name.startswith('__'):
            continue
        tok_calls = [x for x in walk_no_nested(f.node) if isinstance(x, ast.Call) and isinstance(x.func, ast.Attribute)
                     and (self_attr(x.func) in ('_insert_tokens', '_del_tokens')
                          or (x.func.attr == 'splice' and 'token_store' in norm(x.func.value)))]
        if not tok_calls:
            continue
        m += 1
        seq: list[str] = []

        def transfer2(s: tuple[bool, bool], ev: tuple[Any, ...]) -> Iterable[tuple[bool, bool]]:
            tok, tree = s
            if ev[0] == 'eval' and ev[1] in tok_calls:
                return [(True, tree)]
            mt = R.items_mutation(ev, ra)
            if mt:
                # a whole-list re-filter (`items[:] = ...`) mirrors whatever happened token-side
                return [(tok, tok if mt.kind == 'assign_all' else True)]
            return [s]

        out = Walker(transfer2).run(stmts_no_doc(f.node.body), [(False, False)])
        exits = out.normal | out.returned
        bad = [e for e in exits if e[0] != e[1]]
        ctx.check(not bad, rid, f'models.internal.properties:{f.qualname}', 'token side <-> tree side',
                  f'{f.qualname} has a normal path that edits only one of (tokens, items): {sorted(bad)}', f.where,
                  note='both sides edited on every editing path')
        # same position on both sides (simple forms)
        why = _same_position(f, ra)
        ctx.check(not why, rid, f'models.internal.properties:{f.qualname}: position', why or 'same position',
                  why, f.where, note='token-side and tree-side positions agree')
    if m < 6:
        raise AnalysisError(f'PAIR-TREE: only {m} wrapper mutators found (>= 6 confirmed by hand)')


def _block_of(root: ast.AST, node: ast.AST) -> list[ast.stmt]:
    """the innermost statement list that contains `node`"""
    best: list[ast.stmt] = []
    for n in ast.walk(root):
        for attr in ('body', 'orelse', 'finalbody'):
            b = getattr(n, attr, None)
            if isinstance(b, list) and b and isinstance(b[0], ast.stmt):
                if any(node is x for st in b for x in ast.walk(st)):
                    if not best or sum(1 for st in b for _ in ast.walk(st)) < sum(1 for st in best for _ in ast.walk(st)):
                        best = b
    return best


def _same_position(f: FuncInfo, ra: set[str]) -> str:
    env: dict[str, ast.AST] = {}
    ins = [x for x in walk_no_nested(f.node) if isinstance(x, ast.Call) and self_attr(x.func) == '_insert_tokens']
    dels = [x for x in walk_no_nested(f.node) if isinstance(x, ast.Call) and self_attr(x.func) == '_del_tokens']
    muts: list[R.ItemsMutation] = []
    def tr(s: int, ev: tuple[Any, ...]) -> Iterable[int]:
        mt = R.items_mutation(ev, ra)
        if mt:
            muts.append(mt)
        return [s]
    Walker(tr).run(stmts_no_doc(f.node.body), [0])
    seen: set[int] = set()
    uniq = []
    for mt in muts:
        if id(mt.node) not in seen:
            seen.add(id(mt.node))
            uniq.append(mt)
    all_ins, all_dels = ins, dels
    for mt in uniq:
        blk = _block_of(f.node, mt.node)
        ins = [c for c in all_ins if any(c is x for st in blk for x in ast.walk(st))]
        dels = [c for c in all_dels if any(c is x for st in blk for x in ast.walk(st))]
        if mt.kind == 'setitem' and not dels:
            i = mt.args[0]
            ok = False
            for st in blk:
                for c in ast.walk(st):
                    if isinstance(c, ast.Call) and isinstance(c.func, ast.Attribute) and c.func.attr == 'splice' and len(c.args) == 3:
                        a, b = c.args[1], c.args[2]
                        if isinstance(a, ast.Attribute) and isinstance(b, ast.Attribute) and a.attr == 'first_token' \
                                and b.attr == 'last_token' and norm(a.value) == norm(b.value) and isinstance(a.value, ast.Name):
                            src = [n for n in blk if isinstance(n, ast.Assign) and norm(n.targets[0]) == a.value.id]
                            ok = ok or any(isinstance(s_.value, ast.Subscript) and R.items_of(s_.value.value, ra)
                                           and linear.same(s_.value.slice, i) for s_ in src)
            if not ok:
                return f'items[{norm(i)}] replaced but the spliced token range is not that of items[{norm(i)}]'
            continue
        if mt.kind == 'insert':
            pos = mt.args[0]
            if not any(linear.same(c.args[0], pos) for c in ins):
                return f'items.insert({norm(pos)}, ...) but tokens are inserted at {[norm(c.args[0]) for c in ins]}'
        elif mt.kind in ('append', 'extend'):
            # tokens must be inserted at len(items) taken before the mutation
            ok = False
            for c in ins:
                a = c.args[0]
                if isinstance(a, ast.Name):
                    src = [n for n in walk_no_nested(f.node) if isinstance(n, ast.Assign) and norm(n.targets[0]) == a.id]
                    ok = ok or any(isinstance(s.value, ast.Call) and norm(s.value.func) == 'len'
                                   and R.items_of(s.value.args[0], ra) for s in src)
            if not ok:
                return f'items.{mt.kind}(...) but tokens are not inserted at len(items)'
        elif mt.kind == 'setslice':
            sl = mt.args[0]
            rng = norm(sl.args[0]) if isinstance(sl, ast.Call) and sl.args else None
            if rng is None:
                return f'slice {norm(sl)} not understood'
            def _res(e: ast.AST) -> str:
                if isinstance(e, ast.Name):
                    src = [a for a in walk_no_nested(f.node) if isinstance(a, ast.Assign) and norm(a.targets[0]) == e.id]
                    if len(src) == 1:
                        return norm(src[0].value)
                return norm(e)
            stops = (f'{rng}.stop', f'max({rng}.start, {rng}.stop)', f'max({rng}.stop, {rng}.start)')
            if not any(norm(c.args[0]) == f'{rng}.start' and _res(c.args[1]) in stops for c in dels):
                return f'items[{norm(sl)}] replaced but tokens deleted over {[[norm(a) for a in c.args[:2]] for c in dels]}'
            if not any(norm(c.args[0]) == f'{rng}.start' for c in ins):
                return f'items[{norm(sl)}] replaced but tokens inserted at {[norm(c.args[0]) for c in ins]}'
        elif mt.kind == 'setitem' and dels:
            i = mt.args[0]
            if not any(linear.same(c.args[0], i) and linear.same(c.args[1], ast.BinOp(left=i, op=ast.Add(), right=ast.Constant(1)))
                       for c in dels):
                return f'items[{norm(i)}] replaced but tokens deleted over {[[norm(a) for a in c.args[:2]] for c in dels]}'
            if not any(linear.same(c.args[0], i) for c in ins):
                return f'items[{norm(i)}] replaced but tokens inserted at {[norm(c.args[0]) for c in ins]}'
        elif mt.kind == 'pop' and dels:
            i = mt.args[0] if mt.args else None
            rngs = R.range_names(f)
            ok = any(isinstance(c.args[0], ast.Attribute) and isinstance(c.args[0].value, ast.Name) and c.args[0].value.id in rngs
                     and c.args[0].attr == 'start' and norm(c.args[1]) == f'{c.args[0].value.id}.stop' for c in dels)
            if not ok:
                return f'items.pop({norm(i) if i else ""}) but tokens deleted over {[[norm(a) for a in c.args[:2]] for c in dels]}'
        elif mt.kind == 'clear' and dels:
            ok = any(isinstance(c.args[0], ast.Constant) and c.args[0].value == 0 for c in dels)
            if not ok:
                return 'items.clear() but tokens are not deleted from position 0'
    return ''


# ------------------------------------------------------------------ SIGN-IDX (token side)
def rule_sign_idx_tokens(ctx: RuleContext, p: Program, rid: str) -> None:
    ctx.rule(rid, 'positions handed to _insert_tokens / _del_tokens / _prev_last by the public wrapper methods are '
                  'non-negative-normalised on every path (a negative position would put tokens after the placeholder while '
                  'the item list uses Python semantics)')
    wrapper = p.cls('RepeatedNodeWrapper', 'models.internal.properties')
    n = 0
    for c in [wrapper, *wrapper.all_subclasses()]:
        for f in c.methods():
            if f.kind == 'overload' or (f.name.startswith('_') and not f.name.startswith('__')):
                continue
            calls = [x for x in walk_no_nested(f.node) if isinstance(x, ast.Call)
                     and self_attr(x.func) in ('_insert_tokens', '_del_tokens', '_prev_last')]
            if not calls:
                continue
            ranges = R.range_names(f)
            step = R.sign_transfer(ranges)
            bad: dict[int, str] = {}

            def transfer(s: frozenset[str], ev: tuple[Any, ...]) -> Iterable[frozenset[str]]:
                if ev[0] == 'eval' and ev[1] in calls:
                    k = 2 if self_attr(ev[1].func) == '_del_tokens' else 1
                    for a in ev[1].args[:k]:
                        if not R.nonneg(a, s, ranges) and not _sorted_group_bound(a):
                            bad[id(ev[1])] = norm(a)
                return [step(s, ev)]

            Walker(transfer).run(stmts_no_doc(f.node.body), [frozenset()])
            for x in calls:
                n += 1
                ctx.check(id(x) not in bad, rid, f'{f.module.name.split(".", 1)[1]}:{f.qualname}', norm(x)[:100],
                          f'`{norm(x)[:100]}`: position `{bad.get(id(x))}` can be negative', f.where, note='non-negative on all paths')
    if n < 9:
        raise AnalysisError(f'SIGN-IDX: only {n} token-position call sites (>= 9 confirmed by hand)')


def _sorted_group_bound(a: ast.AST) -> bool:
    """drop_many: bounds taken from groups of the caller-supplied (already normalised) index collection"""
    t = norm(a)
    return t in ('r[-1]', 'r[0] + 1')


# ------------------------------------------------------------------ POP-SELF
def rule_pop_self(ctx: RuleContext, p: Program, rid: str) -> None:
    ctx.rule(rid, 'RepeatedNodeWrapper.pop: the popped node\'s tokens are captured before the deletion, a new store is built '
                  'from exactly that list, the node is reattached to that store and returned')
    wrapper = p.cls('RepeatedNodeWrapper', 'models.internal.properties')
    f = p.method(wrapper, 'pop', inherited=False)
    events: list[str] = []
    info: dict[str, str] = {}

    def transfer(s: int, ev: tuple[Any, ...]) -> Iterable[int]:
        if ev[0] == 'store' and isinstance(ev[1], ast.Name) and ev[2] is not None:
            v = ev[2]
            if isinstance(v, ast.Attribute) and v.attr == 'tokens':
                events.append('capture')
                info['tokens_var'] = ev[1].id
                info['node'] = norm(v.value)
            if isinstance(v, ast.Call) and (dotted(v.func) or '').endswith('TokenStore.from_tokens'):
                events.append('newstore')
                info['store_var'] = ev[1].id
                info['store_from'] = norm(v.args[0])
        if ev[0] == 'eval' and isinstance(ev[1], ast.Call) and isinstance(ev[1].func, ast.Attribute):
            c = ev[1]
            if self_attr(c.func) == '_del_tokens':
                events.append('delete')
            if (dotted(c.func) or '').endswith('TokenStore.from_tokens') and 'store_var' not in info:
                events.append('newstore')          # canonical form: built inline as the reattach argument
                info['store_var'] = norm(c)
                info['store_from'] = norm(c.args[0])
            if c.func.attr == 'reattach':
                events.append('reattach')
                info['reattach_node'] = norm(c.func.value)
                info['reattach_store'] = norm(c.args[0]) if c.args else ''
        if ev[0] == 'return':
            info['returns'] = norm(ev[1].value) if ev[1].value is not None else ''
        return [s]

    Walker(transfer).run(stmts_no_doc(f.node.body), [0])
    problems: list[str] = []
    order = [e for e in events if e in ('capture', 'delete', 'newstore', 'reattach')]
    if order != ['capture', 'delete', 'newstore', 'reattach']:
        problems.append(f'order of steps is {order}, expected capture tokens, delete, new store, reattach')
    if info.get('store_from') != info.get('tokens_var'):
        problems.append(f'new store built from {info.get("store_from")}, not the captured tokens {info.get("tokens_var")}')
    if info.get('reattach_store') != info.get('store_var') or info.get('reattach_node') != info.get('node'):
        problems.append(f'reattaches {info.get("reattach_node")} to {info.get("reattach_store")}')
    if info.get('returns') != info.get('node'):
        problems.append(f'returns {info.get("returns")}, not the popped node')
    ctx.check(not problems, rid, 'models.internal.properties:RepeatedNodeWrapper.pop', '; '.join(problems) or 'ok',
              '; '.join(problems), f.where, note='capture -> delete -> new store -> reattach -> return')


# ------------------------------------------------------------------ OWN-TREE
def rule_own_tree(ctx: RuleContext, p: Program, rid: str) -> None:
    ctx.rule(rid, '_token_store of a tree model is assigned only in RawTreeModel.__init__ and in _reattach methods; '
                  'Repeated.items is rebound only by Repeated itself and mutated only by the wrapper classes and the comment claimer')
    n = 0
    allowed_mutators = {c.name for c in R.wrapper_classes(p)} | {'_CommentClaimer'}
    for m in p.modules.values():
        for fn in p.functions_in(m):
            if fn.kind == 'overload':
                continue
            for node in walk_no_nested(fn.node):
                tgts: list[ast.AST] = []
                if isinstance(node, ast.Assign):
                    tgts = list(node.targets)
                elif isinstance(node, (ast.AugAssign, ast.AnnAssign)):
                    tgts = [node.target]
                for t in tgts:
                    if isinstance(t, ast.Attribute) and t.attr == '_token_store':
                        n += 1
                        ok = (fn.name == '_reattach') or (fn.name == '__init__' and fn.cls is not None and
                                                          fn.cls.name in ('RawTreeModel', 'ModelBuilder'))
                        ctx.check(ok, rid, f'{m.name.split(".", 1)[1]}:{fn.qualname}', norm(node)[:100],
                                  f'`{norm(node)[:100]}` rebinds a tree model\'s store outside __init__/_reattach (children would '
                                  f'keep the old store)', fn.where, note='constructor / _reattach', nontrivial=False)
                    if isinstance(t, ast.Attribute) and t.attr == 'items' and fn.cls is not None:
                        recv_rep = self_attr(t) is not None and fn.cls.name == 'Repeated'
                        if self_attr(t) is not None and fn.cls.name != 'Repeated' and 'items' not in fn.cls.attrs:
                            continue
                        if recv_rep:
                            n += 1
                            ctx.ok(rid, f'{m.name.split(".", 1)[1]}:{fn.qualname}: {norm(node)[:60]}', 'Repeated rebinding its own items')
    for fn, ra in R.functions_mutating_items(p):
        n += 1
        ok = fn.cls is not None and fn.cls.name in allowed_mutators
        ctx.check(ok, rid, f'{fn.module.name.split(".", 1)[1]}:{fn.qualname}', 'mutates Repeated.items',
                  f'{fn.qualname} mutates Repeated.items outside the wrapper classes', fn.where, note='wrapper / claimer')
    if n < 45:
        raise AnalysisError(f'OWN-TREE: only {n} writer sites found (>= 45 confirmed)')


def run(ctx: RuleContext, p: Program) -> None:
    tcs = build_tree_classes(p)
    ctx.try_rule(rule_pair_detach, p, 'PAIR-DETACH')
    ctx.try_rule(rule_pair_tree, p, 'PAIR-TREE')
    ctx.try_rule(rule_sign_idx_tokens, p, 'SIGN-IDX')
    ctx.try_rule(gen.rule_cover_reattach, p, tcs, 'COVER-REATTACH')
    ctx.require_min('COVER-REATTACH', 34)
    ctx.try_rule(handmodels.rule_hand_reattach, p, 'COVER-REATTACH')
    ctx.try_rule(gen.rule_border, p, tcs, 'BORDER')
    ctx.require_min('BORDER', 68)
    ctx.try_rule(rule_pop_self, p, 'POP-SELF')
    ctx.try_rule(rule_pop_value, p, 'POP-VALUE')
    from . import claimorder
    ctx.try_rule(claimorder.rule_splice_order, p, 'SPLICE-ORDER')
    from . import round4
    ctx.try_rule(round4.rule_replace_store, p, 'REPLACE-STORE')
    ctx.try_rule(round4.rule_id_cmp, p, 'ID-CMP')
    ctx.try_rule(rule_own_tree, p, 'OWN-TREE')
    from .c19 import rule_detach_gate
    ctx.try_rule(rule_detach_gate, p, 'DETACH-GATE')
    from . import round4 as _r4
    ctx.try_rule(_r4.rule_iter_once, p, 'ITER-ONCE')
    from . import nodesem as _ns
    ctx.try_rule(_ns.rule_node_sem, p, 'NODE-SEM', 3 if ctx.tier == 'quick' else 4)
    from . import c14 as _c14, c11 as _c11
    ctx.try_rule(_c14.rule_flag_writers, p, 'FLAG-WRITERS')
    ctx.try_rule(_c11.rule_copy_shallow, p, 'COPY-SHALLOW')
    from . import c10 as _c10
    # a model handed out by the meta mapping (pop(key), popitem()) is a tree of its own: alone in its store
    ctx.try_rule(_c10.rule_map_first, p, 'MAP-FIRST')
    from . import viewlive as _vl
    ctx.try_rule(_vl.rule_store_edge, p, 'STORE-EDGE')
    # the base case of the induction over edit histories: the tree the parser builds is a tree of the tokens it inserts
    from . import treesem as _tsm
    ctx.try_rule(_tsm.rule_tree_sem, p, 'TREE-SEM')
    # converting a cost between its two brace forms swaps the braces in place and hands back a model of exactly those tokens
    from . import costsem as _cs
    ctx.try_rule(_cs.rule_cost_sem, p, 'COST-SEM')
    from . import descsem as _ds
    ctx.try_rule(_ds.rule_desc_sem, p, 'DESC-SEM')
    ctx.try_rule(_ds.rule_field_sem, p, 'FIELD-SEM')
    ctx.try_rule(_ds.rule_rep_edge, p, 'REP-EDGE')
    ctx.not_decided += ['nesting / non-overlap of child spans (runtime)', 'single ownership of every significant token (runtime)',
                        'that every tree leaf is currently in the store (runtime)']
    ctx.assumptions += ['reattach(store) re-binds a whole subtree (COVER-REATTACH)', 'tokens need no reattach (their store is their handle)']


# ====================================================================== POP-VALUE (added after seeded round 3)
def rule_pop_value(ctx: RuleContext, p: Program, rid: str) -> None:
    ctx.rule(rid, 'RepeatedMetaItemWrapper.pop(key) hands back a self-contained value: for every model class that the value view '
                  'preserves (MetaRawValue minus the classes optional_meta_value_property converts to plain values) the rest of the popped '
                  'item is removed from the value\'s store on both sides -- item.first_token..get_prev(value.first_token) and '
                  'get_next(value.last_token)..item.last_token -- under a guard that covers all of those classes')
    from .presence import Typer
    ty = Typer(p)
    mv = p.module('models.meta_value')
    mvi = p.module('models.meta_value_internal')
    raw = ty.ann(mv, ast.Name(id='MetaRawValue', ctx=ast.Load()))
    if raw is None or len(raw.classes) < 5:
        raise AnalysisError('POP-VALUE: MetaRawValue does not resolve to its classes')
    getter = p.method(p.cls('optional_meta_value_property', 'models.meta_value_internal'), '__get__', inherited=False)
    converted: set[ClassInfo] = set()
    for c in walk_no_nested(getter.node):
        if isinstance(c, ast.Call) and norm(c.func) == 'isinstance' and len(c.args) == 2:
            t = ty.ann(mvi, c.args[1])
            if t is not None:
                converted |= set(t.classes)
    preserved = sorted(raw.classes - converted, key=lambda c: c.name)
    if len(preserved) < 3:
        raise AnalysisError(f'POP-VALUE: only {len(preserved)} preserved value classes derived')
    w = p.cls('RepeatedMetaItemWrapper', 'models.meta_item_internal')
    f = p.method(w, 'pop', inherited=False)
    site = 'models.meta_item_internal:RepeatedMetaItemWrapper.pop'
    guards = [i for i in ast.walk(f.node) if isinstance(i, ast.If) and any(
        isinstance(c, ast.Call) and norm(c.func) == 'isinstance' for c in ast.walk(i.test))
        and any(isinstance(c, ast.Call) and isinstance(c.func, ast.Attribute) and c.func.attr == 'remove' for c in ast.walk(i))]
    if len(guards) != 1:
        raise AnalysisError(f'POP-VALUE: {len(guards)} guarded strip blocks in pop (1 confirmed by hand)')
    g = guards[0]
    covered: set[ClassInfo] = set()
    for c in ast.walk(g.test):
        if isinstance(c, ast.Call) and norm(c.func) == 'isinstance' and len(c.args) == 2:
            t = ty.ann(f.module, c.args[1])
            if t is None:
                raise AnalysisError(f'POP-VALUE: guard class {norm(c.args[1])} does not resolve')
            covered |= set(t.classes)
    missing = [k.name for k in preserved if not any(k.is_subclass_of(c) for c in covered)]
    ctx.check(not missing, rid, site, f'guard {norm(g.test)[:70]}',
              f'the strip of the popped item is guarded by `{norm(g.test)[:90]}`, which leaves out {missing}: a value of that class is returned '
              f'still embedded in the popped item\'s store (its first/last tokens are not the store ends, key / indent / end-of-line tokens '
              f'are owned by no leaf), so the node pop() returns is not a self-contained tree and cannot be inserted elsewhere',
              f'{f.module.relpath}:{g.lineno}', note=f'covers {[k.name for k in preserved]}')
    removes = [c for c in ast.walk(g) if isinstance(c, ast.Call) and isinstance(c.func, ast.Attribute) and c.func.attr == 'remove' and len(c.args) == 2]
    env: dict[str, str] = {}
    for n_ in ast.walk(g):
        if isinstance(n_, ast.NamedExpr):
            env[n_.target.id] = norm(n_.value)
        elif isinstance(n_, ast.Assign) and len(n_.targets) == 1 and isinstance(n_.targets[0], ast.Name):
            env[n_.targets[0].id] = norm(n_.value)
    vname = next((norm(c.args[0]) for c in ast.walk(g.test) if isinstance(c, ast.Call) and norm(c.func) == 'isinstance'), 'value')

    def res(e: ast.AST) -> str:
        t = norm(e)
        return env.get(t, t)
    pre = any(res(c.args[0]).endswith('.first_token') and not res(c.args[0]).startswith(vname) and res(c.args[1]).endswith(f'get_prev({vname}.first_token)')
              for c in removes)
    suf = any(res(c.args[0]).endswith(f'get_next({vname}.last_token)') and res(c.args[1]).endswith('.last_token') and not res(c.args[1]).startswith(vname)
              for c in removes)
    ctx.check(pre and suf and len(removes) == 2, rid, site + ': strip', f'{[norm(c)[:50] for c in removes]}',
              'the strip does not remove exactly item.first_token..get_prev(value.first_token) and get_next(value.last_token)..item.last_token',
              f'{f.module.relpath}:{g.lineno}', note='prefix and suffix of the item removed')
