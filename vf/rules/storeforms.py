"""Arithmetic-form rules for token_store.py: navigation offsets (C07) and position caches (C08).

Index expressions are compared as linear normal forms (sum coeff*atom + const) after inlining local
aliases, and guards as sets of normalised comparisons, so reorderings and renamed locals do not matter.
"""
from __future__ import annotations

import ast
from typing import Any, Optional

from .. import linear
from ..model import AnalysisError, FuncInfo, Program, norm, stmts_no_doc, walk_no_nested
from ..report import RuleContext
from .tokenstore import TS


def _env(fn: FuncInfo) -> dict[str, ast.AST]:
    """single-assignment local aliases (handle = _check_store_handle(token) is kept opaque)"""
    counts: dict[str, int] = {}
    vals: dict[str, ast.AST] = {}
    for a in walk_no_nested(fn.node):
        if isinstance(a, ast.Assign) and len(a.targets) == 1 and isinstance(a.targets[0], ast.Name):
            counts[a.targets[0].id] = counts.get(a.targets[0].id, 0) + 1
            vals[a.targets[0].id] = a.value
        elif isinstance(a, (ast.AugAssign, ast.For)) and isinstance(getattr(a, 'target', None), ast.Name):
            counts[a.target.id] = counts.get(a.target.id, 0) + 2   # type: ignore[union-attr]
    return {k: v for k, v in vals.items() if counts.get(k) == 1 and not (isinstance(v, ast.Call) and norm(v.func) == '_check_store_handle')}


def _subst(e: ast.AST, env: dict[str, ast.AST], depth: int = 0) -> ast.AST:
    class R(ast.NodeTransformer):
        def visit_Name(self, n: ast.Name) -> ast.AST:
            if n.id in env and depth < 6:
                return _subst(env[n.id], env, depth + 1)
            return n
    return R().visit(ast.parse(norm(e), mode='eval').body)


def _canon(e: ast.AST, env: dict[str, ast.AST], handles: dict[str, str]) -> str:
    """normalised text with handle variables renamed to H (the token's own handle)"""
    t = norm(_subst(e, env))
    for h, role in handles.items():
        t = t.replace(f'{h}.', f'{role}.')
    return t


def _lin(e: ast.AST, env: dict[str, ast.AST], handles: dict[str, str]) -> linear.Linear:
    s = _subst(e, env)
    t = norm(s)
    for h, role in handles.items():
        t = t.replace(f'{h}.', f'{role}.')
    return linear.linear(ast.parse(t, mode='eval').body)


def _handles(fn: FuncInfo) -> dict[str, str]:
    out: dict[str, str] = {}
    for a in walk_no_nested(fn.node):
        if isinstance(a, ast.Assign) and isinstance(a.value, ast.Call) and norm(a.value.func) == '_check_store_handle' \
                and isinstance(a.targets[0], ast.Name):
            arg = norm(a.value.args[0])
            out[a.targets[0].id] = {'token': 'H', 'start': 'HS', 'end': 'HE', 'ref': 'HR', 'del_end': 'HD'}.get(arg, 'H_' + arg)
    return out


def _want(text: str) -> linear.Linear:
    return linear.linear(linear.parse(text))


def _guarded_returns(fn: FuncInfo, env: dict[str, ast.AST], handles: dict[str, str]) -> list[tuple[Optional[str], str]]:
    """[(guard text or None, returned expression text)] for `if g: return e` chains at the top level"""
    out: list[tuple[Optional[str], str]] = []

    def ret(r: ast.Return) -> str:
        return _canon(r.value, env, handles) if r.value is not None else 'None'

    def chain(st: ast.stmt) -> None:
        if isinstance(st, ast.If) and len(st.body) == 1 and isinstance(st.body[0], ast.Return):
            out.append((_canon(st.test, env, handles), ret(st.body[0])))
            for sub in st.orelse:
                chain(sub)
        elif isinstance(st, ast.Return):
            out.append((None, ret(st)))

    for st in stmts_no_doc(fn.node.body):
        chain(st)
    return out


def _cmp_ok(guard: str, want: list[str]) -> bool:
    """every wanted conjunct (given as alternatives separated by ' | ') appears among the guard's conjuncts"""
    try:
        g = ast.parse(guard, mode='eval').body
    except SyntaxError:
        return False
    conj = [norm(x) for x in (g.values if isinstance(g, ast.BoolOp) and isinstance(g.op, ast.And) else [g])]
    def eq(a: str, b: str) -> bool:
        return a == b or _same_cmp(a, b)
    return len(conj) == len(want) and all(any(any(eq(c, alt.strip()) for alt in w.split(' | ')) for c in conj) for w in want)


def _same_cmp(a: str, b: str) -> bool:
    try:
        x, y = ast.parse(a, mode='eval').body, ast.parse(b, mode='eval').body
    except SyntaxError:
        return False
    if isinstance(x, ast.Compare) and isinstance(y, ast.Compare) and len(x.ops) == 1 and len(y.ops) == 1:
        def norm_cmp(c: ast.Compare) -> Optional[tuple[str, linear.Linear]]:
            op = type(c.ops[0]).__name__
            l, r = c.left, c.comparators[0]
            d = ast.BinOp(left=l, op=ast.Sub(), right=r)
            if op in ('Gt', 'GtE'):
                d = ast.BinOp(left=r, op=ast.Sub(), right=l)
                op = {'Gt': 'Lt', 'GtE': 'LtE'}[op]
            if op == 'LtE':        # a <= b  <=>  a < b + 1 for integers
                d = ast.BinOp(left=d, op=ast.Sub(), right=ast.Constant(1))
                op = 'Lt'
            if op not in ('Lt', 'Eq', 'NotEq'):
                return None
            return op, linear.linear(d)
        return norm_cmp(x) is not None and norm_cmp(x) == norm_cmp(y)
    return False


# ====================================================================== NAV-FORM (C07)
def rule_nav_form(ctx: RuleContext, ts: TS, rid: str) -> None:
    ctx.rule(rid, 'navigation and addressing follow the block layout: get_prev/get_next step by exactly one inside a block and cross '
                  'to the neighbouring block\'s last/first token (mirror images); get_index/get_position sum whole blocks before the '
                  'token\'s block plus the tokens before it; iter yields [start.index : end.index+1] or tail + whole middle blocks + '
                  'head; splice/insert_after/insert_before address (block, index) / (block, index+1) correctly')
    site = 'token_store:TokenStore.'
    # get_prev
    f = ts._need('TokenStore.get_prev')
    env, hs = _env(f), _handles(f)
    gr = _guarded_returns(f, env, hs)
    ok = len(gr) == 3 and gr[0] == ('H.index', 'H.block.tokens[H.index - 1]') \
        and _cmp_ok(gr[1][0] or '', ['H.block.index', 'self._blocks[H.block.index - 1].tokens']) \
        and gr[1][1] == 'self._blocks[H.block.index - 1].tokens[-1]' and gr[2] == (None, 'None')
    ctx.check(ok, rid, site + 'get_prev', f'{gr}', f'get_prev has the cases {gr}; expected: previous token in the block; else last token of the '
              f'previous (non-empty) block; else None', f.where, note='tokens[i-1] | prev block tokens[-1] | None')
    f = ts._need('TokenStore.get_next')
    env, hs = _env(f), _handles(f)
    gr = _guarded_returns(f, env, hs)
    ok = len(gr) == 3 and _same_cmp(gr[0][0] or '', 'H.index + 1 < len(H.block.tokens)') and gr[0][1] == 'H.block.tokens[H.index + 1]' \
        and _same_cmp(gr[1][0] or '', 'H.block.index + 1 < len(self._blocks)') and gr[1][1] == 'self._blocks[H.block.index + 1].tokens[0]' \
        and gr[2] == (None, 'None')
    ctx.check(ok, rid, site + 'get_next', f'{gr}', f'get_next has the cases {gr}; expected: next token in the block; else first token of the next '
              f'block; else None', f.where, note='tokens[i+1] | next block tokens[0] | None')
    # get_first / get_last
    for nm, want in (('get_first', 'self._blocks[0].tokens[0]'), ('get_last', 'self._blocks[-1].tokens[-1]')):
        f = ts._need(f'TokenStore.{nm}')
        r = [x.value for x in walk_no_nested(f.node) if isinstance(x, ast.Return)]
        txt = norm(r[0]) if len(r) == 1 and r[0] is not None else ''
        ok = want in txt and txt.endswith('or None') and 'self._blocks[0].tokens' in txt
        ctx.check(ok, rid, site + nm, txt, f'{nm} returns `{txt}`, expected {want} guarded by a non-empty store, else None', f.where, note=txt[:90])
    # get_index
    f = ts._need('TokenStore.get_index')
    hs = _handles(f)
    h = next(iter(hs), 'handle')
    init = [a for a in walk_no_nested(f.node) if isinstance(a, ast.Assign) and isinstance(a.targets[0], ast.Name) and norm(a.value) == f'{h}.index']
    loops = [l for l in walk_no_nested(f.node) if isinstance(l, ast.For)]
    ok = len(init) == 1 and len(loops) == 1 and norm(loops[0].iter) == f'range({h}.block.index)'
    if ok:
        acc = init[0].targets[0].id  # type: ignore[union-attr]
        body = loops[0].body
        ok = len(body) == 1 and isinstance(body[0], ast.AugAssign) and isinstance(body[0].op, ast.Add) and norm(body[0].target) == acc \
            and norm(body[0].value) == f'len(self._blocks[{norm(loops[0].target)}].tokens)'
        r = [x.value for x in walk_no_nested(f.node) if isinstance(x, ast.Return)]
        ok = ok and len(r) == 1 and norm(r[0]) == acc
    ctx.check(ok, rid, site + 'get_index', 'index in block + sizes of preceding blocks',
              'get_index is not handle.index + sum(len(block.tokens) for the blocks before the token\'s block)', f.where)
    # get_position
    f = ts._need('TokenStore.get_position')
    hs = _handles(f)
    h = next(iter(hs), 'handle')
    loops = [l for l in stmts_no_doc(f.node.body) if isinstance(l, ast.For)]
    shapes = []
    for l in loops:
        b = l.body[0] if len(l.body) == 1 else None
        shapes.append((norm(l.iter), norm(b.value) if isinstance(b, ast.AugAssign) and isinstance(b.op, ast.Add) else None, norm(l.target)))
    ok = len(shapes) == 2 and shapes[0][0] == f'range({h}.block.index)' and shapes[0][1] == f'self._blocks[{shapes[0][2]}].size' \
        and shapes[1][0] == f'range({h}.index)' and shapes[1][1] == f'{h}.block.tokens[{shapes[1][2]}].size'
    fresh = any(isinstance(a, ast.Assign) and norm(a.value) == 'Position()' for a in walk_no_nested(f.node))
    ctx.check(ok and fresh, rid, site + 'get_position', f'{shapes}', f'get_position sums {shapes}; expected the sizes of all preceding blocks, then of the '
              f'tokens before it in its block, starting from a fresh Position()', f.where, note='blocks before + tokens before')
    # iter
    f = ts._need('TokenStore.iter')
    ys = [norm(y.value) for y in walk_no_nested(f.node) if isinstance(y, ast.YieldFrom)]
    hs = _handles(f)
    a = next((k for k, v in hs.items() if v == 'HS'), 'start_handle')
    b = next((k for k, v in hs.items() if v == 'HE'), 'end_handle')
    want = [f'{a}.block.tokens[{a}.index:{b}.index + 1]', f'{a}.block.tokens[{a}.index:]', 'self._blocks[i].tokens', f'{b}.block.tokens[:{b}.index + 1]']
    loops = [l for l in walk_no_nested(f.node) if isinstance(l, ast.For)]
    rng_ok = len(loops) == 1 and norm(loops[0].iter) == f'range({a}.block.index + 1, {b}.block.index)'
    same = [i for i in walk_no_nested(f.node) if isinstance(i, ast.If)]
    guard_ok = len(same) == 1 and norm(same[0].test) in (f'{a}.block is {b}.block', f'{b}.block is {a}.block')
    got = [y.replace(f'[{norm(loops[0].target)}]', '[i]') if loops else y for y in ys]
    ctx.check(got == want and rng_ok and guard_ok, rid, site + 'iter', f'{got}', f'iter yields {got} (middle range ok: {rng_ok}, same-block test ok: {guard_ok}); '
              f'expected {want}', f.where, note='same block slice | tail + middle blocks + head')
    # addressing of the mutators
    f = ts._need('TokenStore.splice')
    env, hs = _env(f), _handles(f)
    tup = {norm(a.targets[0]): a.value for a in walk_no_nested(f.node) if isinstance(a, ast.Assign) and isinstance(a.value, ast.Tuple)}
    def t2(e: ast.AST) -> list[str]:
        return [_canon(x, env, hs) for x in e.elts] if isinstance(e, ast.Tuple) else []
    starts = [t2(a.value) for a in walk_no_nested(f.node) if isinstance(a, ast.Assign) and norm(a.targets[0]) == 'start' and isinstance(a.value, ast.Tuple)]
    ends = [t2(a.value) for a in walk_no_nested(f.node) if isinstance(a, ast.Assign) and norm(a.targets[0]) == 'end' and isinstance(a.value, ast.Tuple)]
    ok = sorted(map(tuple, starts)) == sorted([('0', '0'), ('HR.block.index', 'HR.index')]) and [tuple(e) for e in ends] == [('HD.block.index', 'HD.index + 1')] \
        and any(isinstance(a, ast.Assign) and norm(a.targets[0]) == 'end' and norm(a.value) == 'start' for a in walk_no_nested(f.node))
    ctx.check(ok, rid, site + 'splice', f'start {starts} end {ends}', f'splice addresses start {starts} / end {ends}; expected start = (block, index) of ref '
              f'(or (0, 0)), end = (block, index + 1) of del_end (or start)', f.where, note='start=(b,i) end=(b,i+1)')
    f = ts._need('TokenStore.insert_after')
    env, hs = _env(f), _handles(f)
    starts = [t2(a.value) for a in walk_no_nested(f.node) if isinstance(a, ast.Assign) and norm(a.targets[0]) == 'start' and isinstance(a.value, ast.Tuple)]
    call = [c for c in walk_no_nested(f.node) if isinstance(c, ast.Call) and norm(c.func) == 'self._splice']
    ok = sorted(map(tuple, starts)) == sorted([('0', '0'), ('HR.block.index', 'HR.index + 1')]) and len(call) == 1 \
        and [norm(x) for x in call[0].args] == [f.params[2], 'start', 'start']
    ctx.check(ok, rid, site + 'insert_after', f'start {starts}', f'insert_after addresses {starts}; expected (block, index + 1) of ref (or (0, 0)), empty range', f.where)
    for nm, want_call in (('insert_before', 'self.splice({1}, {0})'), ('replace', 'self.splice([{1}], {0}, {0})'), ('remove', 'self.splice([], {0}, {1} or {0})')):
        f = ts._need(f'TokenStore.{nm}')
        c = [norm(x.value) for x in stmts_no_doc(f.node.body) if isinstance(x, ast.Expr)]
        want_txt = want_call.format(f.params[1], f.params[2])
        ctx.check(c == [want_txt], rid, site + nm, f'{c}', f'{nm} is {c}, expected {want_txt}', f.where, note=want_txt)


# ====================================================================== POS-FORM (C08)
def rule_pos_form(ctx: RuleContext, ts: TS, rid: str) -> None:
    ctx.rule(rid, '_token_size = (count of "\\n", characters after the last "\\n") in linear normal form (the size every other position '
                  'computation starts from; the computations themselves are evaluated by POS-SEM)')
    m = ts.m
    f = ts._need('_token_size')
    arg = f.params[0]
    r = [x.value for x in walk_no_nested(f.node) if isinstance(x, ast.Return)]
    ok = False
    if len(r) == 1 and isinstance(r[0], ast.Call) and norm(r[0].func) == 'Position':
        kw = {k.arg: k.value for k in r[0].keywords}
        if len(r[0].args) == 2:
            kw = {'line': r[0].args[0], 'column': r[0].args[1]}
        ok = 'line' in kw and 'column' in kw and norm(kw['line']) == f"{arg}.count('\\n')" \
            and linear.linear(kw['column']) == _want(f"len({arg}) - {arg}.rfind('\\n') - 1")
    ctx.check(ok, rid, 'token_store:_token_size', norm(r[0])[:100] if r else '', '_token_size is not (count of newlines, len - rfind(newline) - 1)', f.where)
    # Position.__iadd__, the accumulation loops of from_tokens/rebuild/extend, update() and the in-place branch of _splice used to be
    # matched textually here; POS-SEM (possem.py) now evaluates them over abstract tokens, which also accepts correct rewrites.


# ====================================================================== BUILD-PART (C07)
def rule_build_part(ctx: RuleContext, ts: TS, rid: str) -> None:
    ctx.rule(rid, '_build_blocks partitions the token list: every block is a slice tokens[lo:hi], consecutive slices are contiguous '
                  '(each lower bound equals the previous upper bound, tracked through `start += K` with the same K as the slice '
                  'width), the last slice of every terminating branch is open-ended, block indexes count up by one, and the loop '
                  'counter decreases by exactly the width taken')
    f = ts._need('_build_blocks')
    tokens_p = f.params[2]
    idx_p = f.params[1]
    loops = [l for l in stmts_no_doc(f.node.body) if isinstance(l, ast.While)]
    if len(loops) != 1:
        raise AnalysisError('BUILD-PART: main loop of _build_blocks not found')
    problems: list[str] = []
    branches: list[list[ast.stmt]] = []

    def collect(stmts: list[ast.stmt]) -> None:
        for s in stmts:
            if isinstance(s, ast.If):
                branches.append(s.body)
                if len(s.orelse) == 1 and isinstance(s.orelse[0], ast.If):
                    collect(s.orelse)
                elif s.orelse:
                    branches.append(s.orelse)
    collect(loops[0].body)
    if len(branches) < 2:
        raise AnalysisError('BUILD-PART: branches of _build_blocks not found')
    for bi, body in enumerate(branches):
        slices = []
        for c in [x for st in body for x in ast.walk(st) if isinstance(x, ast.Call) and norm(x.func).endswith('from_tokens')]:
            a0 = c.args[0]
            if not (isinstance(a0, ast.Subscript) and norm(a0.value) == tokens_p and isinstance(a0.slice, ast.Slice)):
                problems.append(f'branch {bi}: block built from {norm(a0)}, not a slice of the token list')
                continue
            slices.append((a0.slice.lower, a0.slice.upper, c.args[2] if len(c.args) > 2 else None))
        terminates = any(isinstance(x, ast.Break) for st in body for x in ast.walk(st))
        augs = {norm(a.target): a for st in body for a in ast.walk(st) if isinstance(a, ast.AugAssign)}
        if not slices:
            problems.append(f'branch {bi}: no block is built')
            continue
        # first slice starts at `start`
        if slices[0][0] is None or norm(slices[0][0]) != 'start':
            problems.append(f'branch {bi}: first slice starts at {norm(slices[0][0]) if slices[0][0] else 0}, not at the running position')
        for (lo, hi, ix), (lo2, hi2, ix2) in zip(slices, slices[1:]):
            if hi is None or lo2 is None or linear.linear(hi) != linear.linear(lo2):
                problems.append(f'branch {bi}: slices [{norm(lo) if lo else ""}:{norm(hi) if hi else ""}] and [{norm(lo2) if lo2 else ""}:...] are not contiguous')
            if ix is not None and ix2 is not None and linear.linear(ix2) != linear.linear(ast.BinOp(left=ix, op=ast.Add(), right=ast.Constant(1))):
                problems.append(f'branch {bi}: block indexes {norm(ix)} -> {norm(ix2)} do not count up by one')
        if terminates:
            if slices[-1][1] is not None:
                problems.append(f'branch {bi}: terminating branch ends with a bounded slice [..:{norm(slices[-1][1])}] (tokens after it are dropped)')
        else:
            lo, hi, ix = slices[-1]
            if hi is None:
                problems.append(f'branch {bi}: non-terminating branch takes an open-ended slice')
            else:
                width = linear.linear(ast.BinOp(left=hi, op=ast.Sub(), right=lo))
                for var, sign in (('start', 1), ('remaining', -1)):
                    a = augs.get(var)
                    if a is None:
                        problems.append(f'branch {bi}: {var} is not advanced')
                        continue
                    got = linear.linear(a.value)
                    if not ((isinstance(a.op, ast.Add) and sign == 1 or isinstance(a.op, ast.Sub) and sign == -1) and got == width):
                        problems.append(f'branch {bi}: {var} changes by {"+" if isinstance(a.op, ast.Add) else "-"}{linear.show(got)} but the slice is {linear.show(width)} wide')
                a = augs.get(idx_p)
                if a is None or not (isinstance(a.op, ast.Add) and norm(a.value) == '1'):
                    problems.append(f'branch {bi}: block index is not advanced by one')
    init = {norm(a.targets[0]): norm(a.value) for a in stmts_no_doc(f.node.body) if isinstance(a, ast.Assign)}
    if init.get('start') != '0' or init.get('remaining') != f'len({tokens_p})':
        problems.append(f'loop starts with start={init.get("start")}, remaining={init.get("remaining")}')
    if norm(loops[0].test) != 'remaining':
        problems.append(f'loop runs while `{norm(loops[0].test)}`')
    ctx.check(not problems, rid, 'token_store:_build_blocks', '; '.join(problems) or 'ok', '; '.join(problems), f.where,
              note=f'{len(branches)} branches: contiguous slices, open-ended tail, counters in step')
    # (the rebalance in _merge_blocks used to be matched textually here; TS-SEQ now evaluates it symbolically)
