"""C16 -- the editor writes exactly the edited files (structural clauses over editor.py)."""
from __future__ import annotations

import ast
import copy
from typing import Any, Iterable, Optional

from ..model import AnalysisError, FuncInfo, Program, dotted, norm, stmts_no_doc, walk_no_nested
from ..report import RuleContext
from ..walker import Walker

EXPLANATION = (
    'Static analysis of autobean_refactor/editor.py (AST + path walker). Decides: ED-NEWLINE (every text-mode read of a '
    'ledger disables newline translation and every write uses newline \'\' or \'\\n\' or binary mode, so CR characters '
    'survive a round trip), ED-DIRNAME (the possibly empty result of os.path.dirname never reaches os.makedirs '
    'unguarded), ED-GUARD (every write is control-dependent on printed != original for that path), ED-AFTER-YIELD (no '
    'filesystem mutation before the yield or in a finally/except around it), ED-ONCE (membership test on the seen map '
    'dominates read+parse; every queued path went through os.path.normpath), ED-SETS (deletions iterate '
    'set(original) - set(yielded mapping); writes iterate the yielded mapping). It does NOT decide glob semantics.')

FS_MUTATORS = {'os.unlink', 'os.remove', 'os.makedirs', 'os.mkdir', 'os.rename', 'os.replace', 'os.rmdir',
               'shutil.rmtree', 'shutil.move', 'shutil.copy', 'shutil.copyfile'}


def _open_mode(c: ast.Call, is_method: bool) -> str:
    pos = c.args if is_method else c.args[1:]
    mode: Optional[ast.AST] = pos[0] if pos else None
    for k in c.keywords:
        if k.arg == 'mode':
            mode = k.value
    if mode is None:
        return 'r'
    if isinstance(mode, ast.Constant) and isinstance(mode.value, str):
        return mode.value
    return '?'


def _kw(c: ast.Call, name: str) -> Optional[ast.AST]:
    for k in c.keywords:
        if k.arg == name:
            return k.value
    return None


def io_sites(fn: FuncInfo) -> list[dict[str, Any]]:
    """All file I/O call sites of a function with their mode / newline / encoding facts."""
    out: list[dict[str, Any]] = []
    for n in walk_no_nested(fn.node):
        if not isinstance(n, ast.Call):
            continue
        name = dotted(n.func) or ''
        last = name.rsplit('.', 1)[-1]
        if name in ('open', 'io.open') or (last == 'open' and isinstance(n.func, ast.Attribute)
                                          and name not in ('os.open',)):
            is_method = isinstance(n.func, ast.Attribute) and name != 'io.open'
            mode = _open_mode(n, is_method)
            out.append({'node': n, 'kind': 'open', 'mode': mode, 'write': any(ch in mode for ch in 'wax+'),
                        'binary': 'b' in mode, 'newline': _kw(n, 'newline'), 'encoding': _kw(n, 'encoding'), 'errors': _kw(n, 'errors')})
        elif last in ('read_text',):
            out.append({'node': n, 'kind': 'read_text', 'mode': 'r', 'write': False, 'binary': False,
                        'newline': _kw(n, 'newline'), 'encoding': _kw(n, 'encoding') or (n.args[0] if n.args else None),
                        'errors': _kw(n, 'errors') or (n.args[1] if len(n.args) > 1 else None), 'no_newline_param': True})
        elif last in ('write_text',):
            out.append({'node': n, 'kind': 'write_text', 'mode': 'w', 'write': True, 'binary': False,
                        'newline': _kw(n, 'newline'), 'encoding': _kw(n, 'encoding') or (n.args[1] if len(n.args) > 1 else None),
                        'errors': _kw(n, 'errors') or (n.args[2] if len(n.args) > 2 else None)})
        elif last in ('read_bytes', 'write_bytes'):
            out.append({'node': n, 'kind': last, 'mode': 'rb' if last == 'read_bytes' else 'wb',
                        'write': last == 'write_bytes', 'binary': True, 'newline': None, 'encoding': None})
    return out


def rule_ed_newline(ctx: RuleContext, p: Program, fns: list[FuncInfo], rid: str) -> None:
    ctx.rule(rid, 'every text-mode read of a ledger file disables universal-newline translation (newline given, or binary '
                  'mode) and every write uses newline=\'\' / \'\\n\' or binary mode; read and write agree on encoding')
    n = 0
    for fn in fns:
        sites = io_sites(fn)
        encs = set()
        for s in sites:
            n += 1
            c: ast.Call = s['node']
            site = f'editor:{fn.qualname}: {norm(c)[:70]}'
            nl = s['newline']
            encs.add(norm(s['encoding']) if s['encoding'] is not None else '<default>')
            if s['binary']:
                ctx.ok(rid, site, 'binary mode')
                continue
            if s['write']:
                ok = isinstance(nl, ast.Constant) and nl.value in ('', '\n')
                ctx.check(ok, rid, f'editor:{fn.qualname}', f'write: {norm(c)}',
                          f'`{norm(c)}` writes in text mode with newline={norm(nl) if nl is not None else "None (platform translation)"}; '
                          f'accepted: newline=\'\' or \'\\n\' or binary mode', f'{fn.module.relpath}:{c.lineno}',
                          note=f'newline={norm(nl) if nl is not None else None}')
            else:
                ok = isinstance(nl, ast.Constant) and isinstance(nl.value, str) and not s.get('no_newline_param')
                why = ('Path.read_text() has no way to disable newline translation on this interpreter'
                       if s.get('no_newline_param') else
                       f'newline={norm(nl) if nl is not None else "None (universal newlines)"}')
                ctx.check(ok, rid, f'editor:{fn.qualname}', f'read: {norm(c)}',
                          f'`{norm(c)}` reads in text mode with newline translation ({why}): "\\r\\n" becomes "\\n", '
                          f'so a CRLF file that is edited is rewritten with bare LF everywhere', f'{fn.module.relpath}:{c.lineno}',
                          note=f'newline={norm(nl) if nl is not None else None}')
        if sites:
            ctx.check(len(encs) <= 1, rid, f'editor:{fn.qualname}: encoding agreement', f'{sorted(encs)}',
                      f'reads and writes of {fn.qualname} use different encodings {sorted(encs)}', fn.where,
                      note=f'encodings {sorted(encs)}')
        # in-memory text buffers the printed model goes through: io.StringIO translates on write unless newline is '' / '\\n' (its default)
        for c in walk_no_nested(fn.node):
            if isinstance(c, ast.Call) and (dotted(c.func) or '') in ('io.StringIO', 'StringIO'):
                nlk = next((k.value for k in c.keywords if k.arg == 'newline'), c.args[1] if len(c.args) > 1 else None)
                ok = nlk is None or (isinstance(nlk, ast.Constant) and nlk.value in ('', '\n'))
                n += 1
                ctx.check(ok, rid, f'editor:{fn.qualname}', f'buffer: {norm(c)}',
                          f'`{norm(c)}` is a text buffer with newline={norm(nlk) if nlk is not None else ""}: universal-newline translation turns every '
                          f'"\\r\\n" of the printed model into "\\n", so the text compared with (and written over) the file differs from what was read even '
                          f'when nothing was edited', f'{fn.module.relpath}:{c.lineno}', note='no translation (newline absent, \'\' or \'\\n\')')
    if n < 4:
        raise AnalysisError(f'ED-NEWLINE: only {n} I/O sites found in editor.py (4 confirmed by hand)')


def rule_ed_dirname(ctx: RuleContext, p: Program, fns: list[FuncInfo], rid: str) -> None:
    ctx.rule(rid, 'the result of os.path.dirname(...) (may be the empty string for a bare file name) reaches '
                  'os.makedirs only under a truthiness guard or with an `or <dir>` fallback')
    n = 0
    for fn in fns:
        # variables assigned from dirname
        dvars: set[str] = set()
        for a in walk_no_nested(fn.node):
            if isinstance(a, ast.Assign) and isinstance(a.targets[0], ast.Name) and isinstance(a.value, ast.Call) \
                    and (dotted(a.value.func) or '').endswith('dirname'):
                dvars.add(a.targets[0].id)
        parents = _parents(fn.node)
        for c in walk_no_nested(fn.node):
            if not (isinstance(c, ast.Call) and (dotted(c.func) or '') in ('os.makedirs', 'os.mkdir') and c.args):
                continue
            n += 1
            a0 = c.args[0]
            tainted = (isinstance(a0, ast.Call) and (dotted(a0.func) or '').endswith('dirname')) or \
                      (isinstance(a0, ast.Name) and a0.id in dvars)
            guarded = False
            if isinstance(a0, ast.Name):
                cur: ast.AST = c
                while id(cur) in parents:
                    par = parents[id(cur)]
                    if isinstance(par, ast.If) and cur in par.body and isinstance(par.test, ast.Name) \
                            and par.test.id == a0.id:
                        guarded = True
                    cur = par
            ctx.check(not tainted or guarded, rid, f'editor:{fn.qualname}', norm(c),
                      f'`{norm(c)}`: os.path.dirname returns \'\' for a bare relative file name and os.makedirs(\'\') raises '
                      f'FileNotFoundError, so nothing is written and every edit is lost', f'{fn.module.relpath}:{c.lineno}',
                      note='guarded' if guarded else 'not derived from dirname')
    if n < 1:
        ctx.ok(rid, 'editor.py', 'no makedirs call', nontrivial=False)


def _parents(root: ast.AST) -> dict[int, ast.AST]:
    out: dict[int, ast.AST] = {}
    for n in ast.walk(root):
        for ch in ast.iter_child_nodes(n):
            out[id(ch)] = n
    return out


def _write_sites(fn: FuncInfo) -> list[tuple[ast.Call, Optional[ast.AST]]]:
    """(call, text expression written) for each write."""
    out: list[tuple[ast.Call, Optional[ast.AST]]] = []
    for s in io_sites(fn):
        if not s['write']:
            continue
        c: ast.Call = s['node']
        if s['kind'] in ('write_text', 'write_bytes'):
            out.append((c, c.args[0] if c.args else None))
        else:
            # open(..., 'w') as f: f.write(x)
            text: Optional[ast.AST] = None
            for w in walk_no_nested(fn.node):
                if isinstance(w, ast.With) and any(it.context_expr is c for it in w.items):
                    for x in ast.walk(w):
                        if isinstance(x, ast.Call) and isinstance(x.func, ast.Attribute) and x.func.attr == 'write' and x.args:
                            text = x.args[0]
            out.append((c, text))
    return out


def rule_ed_guard(ctx: RuleContext, p: Program, fns: list[FuncInfo], rid: str) -> None:
    ctx.rule(rid, 'every write site is control-dependent on `<printed text> != <text read for the same path>`')
    n = 0
    for fn in fns:
        parents = _parents(fn.node)
        # text variables that come from a read: x = ...read()/read_text(); texts[k] = f.read()
        read_vars: set[str] = set()
        for a in walk_no_nested(fn.node):
            if isinstance(a, ast.Assign) and any(isinstance(c, ast.Call) and isinstance(c.func, ast.Attribute)
                                                 and c.func.attr in ('read', 'read_text', 'read_bytes') for c in ast.walk(a.value)):
                t = a.targets[0]
                read_vars.add(t.id if isinstance(t, ast.Name) else norm(t.value) if isinstance(t, ast.Subscript) else norm(t))
        # a container that is filled from a read variable holds read text too: texts[k] = text  (text = f.read())
        changed = True
        while changed:
            changed = False
            for a in walk_no_nested(fn.node):
                if isinstance(a, ast.Assign) and isinstance(a.value, ast.Name) and a.value.id in read_vars:
                    t = a.targets[0]
                    key = t.id if isinstance(t, ast.Name) else norm(t.value) if isinstance(t, ast.Subscript) else norm(t)
                    if key not in read_vars:
                        read_vars.add(key)
                        changed = True
        for c, text in _write_sites(fn):
            n += 1
            ok = False
            why = 'no enclosing comparison'
            cur: ast.AST = c
            while id(cur) in parents and text is not None:
                par = parents[id(cur)]
                if isinstance(par, ast.If) and (cur in par.body or any(cur is x for b in par.body for x in ast.walk(b))):
                    t = par.test
                    if isinstance(t, ast.BoolOp) and isinstance(t.op, ast.Or):
                        # `key not in <texts read> or printed != texts[key]`: a path that was never read is always written
                        cmps = [v for v in t.values if isinstance(v, ast.Compare) and len(v.ops) == 1 and isinstance(v.ops[0], ast.NotEq)]
                        rest = [v for v in t.values if v not in cmps]
                        if len(cmps) == 1 and all(isinstance(v, ast.Compare) and len(v.ops) == 1 and isinstance(v.ops[0], ast.NotIn)
                                                  and norm(v.comparators[0]) in read_vars for v in rest):
                            t = cmps[0]
                    if isinstance(t, ast.Compare) and len(t.ops) == 1 and isinstance(t.ops[0], ast.NotEq):
                        sides = [t.left, t.comparators[0]]
                        has_new = any(norm(s) == norm(text) for s in sides)
                        orig = [s for s in sides if norm(s) != norm(text)]
                        has_orig = bool(orig) and any(
                            (isinstance(o, ast.Name) and o.id in read_vars)
                            or (isinstance(o, ast.Subscript) and norm(o.value) in read_vars)
                            or (isinstance(o, ast.Call) and isinstance(o.func, ast.Attribute) and o.func.attr == 'get'
                                and norm(o.func.value) in read_vars
                                # a path that was never read must differ from *any* printed text: default None only
                                and (len(o.args) == 1 or (len(o.args) == 2 and isinstance(o.args[1], ast.Constant) and o.args[1].value is None))
                                and not o.keywords) for o in orig)
                        if has_new and has_orig:
                            ok = True
                        else:
                            why = f'enclosing test `{norm(t)}` does not compare the written text with the text read'
                cur = par
            ctx.check(ok, rid, f'editor:{fn.qualname}', f'write {norm(c)[:80]}',
                      f'`{norm(c)}` is not guarded by printed != original ({why}): unchanged files would be rewritten',
                      f'{fn.module.relpath}:{c.lineno}', note='guarded by printed != original')
    if n < 2:
        raise AnalysisError(f'ED-GUARD: only {n} write sites found (2 confirmed by hand)')


def _is_fs_mutation(n: ast.AST) -> Optional[str]:
    if isinstance(n, ast.Call):
        name = dotted(n.func) or ''
        if name in FS_MUTATORS:
            return name
        last = name.rsplit('.', 1)[-1]
        if last in ('write_text', 'write_bytes', 'unlink', 'mkdir', 'rename', 'touch', 'rmdir') and isinstance(n.func, ast.Attribute):
            return last
        if name in ('open', 'io.open') or last == 'open':
            mode = _open_mode(n, isinstance(n.func, ast.Attribute) and name != 'io.open')
            if any(ch in mode for ch in 'wax+'):
                return f'open({mode!r})'
    return None


def rule_ed_after_yield(ctx: RuleContext, p: Program, fns: list[FuncInfo], rid: str) -> None:
    ctx.rule(rid, 'in each context manager every filesystem mutation happens after the yield on every path, and the yield '
                  'is not inside a try whose finally/except mutates the filesystem (if the block raises, nothing is touched)')
    n = 0
    for fn in fns:
        if not any(isinstance(x, ast.Yield) for x in walk_no_nested(fn.node)):
            continue
        bad: list[str] = []
        muts = [0]

        def transfer(s: str, ev: tuple[Any, ...]) -> Iterable[str]:
            if ev[0] == 'yield':
                return ['after']
            if ev[0] == 'eval':
                m = _is_fs_mutation(ev[1])
                if m:
                    muts[0] += 1
                    if s == 'before':
                        bad.append(f'{m} at line {ev[1].lineno} can run before the yield')
            return [s]

        Walker(transfer).run(stmts_no_doc(fn.node.body), ['before'])
        for t in [x for x in walk_no_nested(fn.node) if isinstance(x, ast.Try)]:
            if any(isinstance(y, ast.Yield) for b in t.body for y in ast.walk(b)):
                for part in [*t.finalbody, *[s for h in t.handlers for s in h.body]]:
                    for x in ast.walk(part):
                        m = _is_fs_mutation(x)
                        if m:
                            bad.append(f'{m} in finally/except around the yield runs even when the block raises')
        n += 1
        ctx.check(not bad, rid, f'editor:{fn.qualname}', '; '.join(bad) or f'{muts[0]} mutation events, all after yield',
                  '; '.join(bad), fn.where, note=f'{muts[0]} fs mutation events, all after the yield')
    if n < 2:
        raise AnalysisError(f'ED-AFTER-YIELD: only {n} context managers found (2 confirmed by hand)')


def _entry(p: Program, fns: Optional[list[FuncInfo]], name: str) -> FuncInfo:
    if fns:
        for f in fns:
            if f.cls is not None and f.cls.name == 'Editor' and f.name == name and f.parent is None:
                return f
    return p.method(p.cls('Editor', 'editor'), name)


def rule_ed_once(ctx: RuleContext, p: Program, rid: str, fns: Optional[list[FuncInfo]] = None) -> None:
    ctx.rule(rid, 'recursive traversal: the membership test on the map of texts already read dominates read+parse in the '
                  'loop; every path that enters the queue or the maps has passed through os.path.normpath')
    m = p.module('editor')
    ed = p.cls('Editor', 'editor')
    fn = _entry(p, fns, 'edit_file_recursive')
    loops = [x for x in walk_no_nested(fn.node) if isinstance(x, ast.While)]
    if not loops:
        raise AnalysisError('ED-ONCE: traversal loop not found in edit_file_recursive')
    loop = loops[0]
    body = loop.body
    # 1. pop, then membership test + continue, before any read
    cur_var = None
    for st in body:
        if isinstance(st, ast.Assign) and isinstance(st.value, ast.Call) and isinstance(st.value.func, ast.Attribute) \
                and st.value.func.attr in ('popleft', 'pop') and isinstance(st.targets[0], ast.Name):
            cur_var = st.targets[0].id
            queue = norm(st.value.func.value)
            break
    if cur_var is None:
        raise AnalysisError('ED-ONCE: queue pop not found')
    order: list[str] = []
    seen_map = None
    for st in body:
        if isinstance(st, ast.If) and isinstance(st.test, ast.Compare) and isinstance(st.test.ops[0], ast.In) \
                and norm(st.test.left) == cur_var and any(isinstance(x, ast.Continue) for x in st.body):
            seen_map = norm(st.test.comparators[0])
            order.append('test')
        elif any(isinstance(x, ast.Call) and ((dotted(x.func) or '') in ('open',) or
                 (isinstance(x.func, ast.Attribute) and x.func.attr in ('read', 'read_text', 'parse'))) for x in ast.walk(st)):
            order.append('read')
    ctx.check(bool(order) and order[0] == 'test', rid, 'editor:Editor.edit_file_recursive: visit-once', f'{order}',
              'a file can be read and parsed before (or without) the already-seen test: shared includes / cycles are '
              'visited more than once', fn.where, note=f'order {order}')
    # the seen map is keyed by the popped path and filled in the same iteration
    filled = any(isinstance(x, ast.Assign) and isinstance(x.targets[0], ast.Subscript)
                 and norm(x.targets[0].value) == seen_map and norm(x.targets[0].slice) == cur_var
                 for st in body for x in ast.walk(st))
    ctx.check(filled, rid, 'editor:Editor.edit_file_recursive: seen map filled', f'{seen_map}[{cur_var}]',
              f'the seen map {seen_map} is not filled with the visited path in the loop', fn.where, note=f'{seen_map}[{cur_var}] = ...')
    # 2. normpath on every queue entry
    problems: list[str] = []
    n_src = 0
    for x in walk_no_nested(fn.node):
        if isinstance(x, ast.Assign) and norm(x.targets[0]) == queue and isinstance(x.value, ast.Call):
            for el in ast.walk(x.value):
                if isinstance(el, ast.List):
                    for e in el.elts:
                        n_src += 1
                        if not (isinstance(e, ast.Call) and (dotted(e.func) or '').endswith('normpath')):
                            problems.append(f'initial queue entry {norm(e)} is not normalised')
        if isinstance(x, ast.Call) and isinstance(x.func, ast.Attribute) and norm(x.func.value) == queue \
                and x.func.attr in ('extend', 'append', 'appendleft', 'extendleft'):
            for a in x.args:
                n_src += 1
                if isinstance(a, ast.Call) and (dotted(a.func) or '').endswith('normpath'):
                    continue
                if isinstance(a, ast.Call) and isinstance(a.func, ast.Name) and a.func.id in m.symbols:
                    g = m.symbols[a.func.id]
                    if isinstance(g, FuncInfo):
                        ys = [y for y in walk_no_nested(g.node) if isinstance(y, (ast.Yield, ast.YieldFrom))]

                        def normalised(y: ast.AST) -> bool:
                            v = y.value  # type: ignore[attr-defined]
                            if isinstance(y, ast.Yield):
                                return isinstance(v, ast.Call) and (dotted(v.func) or '').endswith('normpath')
                            # yield from map(os.path.normpath, xs) / (os.path.normpath(x) for x in xs) / [os.path.normpath(x) for x in xs]
                            if isinstance(v, ast.Call) and norm(v.func) == 'map' and v.args and (dotted(v.args[0]) or '').endswith('normpath'):
                                return True
                            if isinstance(v, (ast.GeneratorExp, ast.ListComp)) and isinstance(v.elt, ast.Call) and (dotted(v.elt.func) or '').endswith('normpath'):
                                return True
                            return False
                        if ys and all(normalised(y) for y in ys):
                            continue
                        problems.append(f'{g.name} yields a path that did not go through os.path.normpath')
                        continue
                problems.append(f'queue receives {norm(a)} which is not provably normalised')
    ctx.check(not problems and n_src >= 2, rid, 'editor:Editor.edit_file_recursive: normalised paths',
              '; '.join(problems) or f'{n_src} queue sources', '; '.join(problems) or 'queue sources not found', fn.where,
              note=f'{n_src} queue sources, all through normpath')


def rule_ed_sets(ctx: RuleContext, p: Program, rid: str, fns: Optional[list[FuncInfo]] = None) -> None:
    ctx.rule(rid, 'after the yield, deletions iterate set(<original texts>) - set(<yielded mapping>) and writes iterate the '
                  'yielded mapping itself (so removed entries are deleted and new entries created)')
    fn = _entry(p, fns, 'edit_file_recursive')
    ys = [y for y in walk_no_nested(fn.node) if isinstance(y, ast.Yield)]
    if len(ys) != 1 or not isinstance(ys[0].value, ast.Name):
        raise AnalysisError('ED-SETS: single `yield <mapping>` not found')
    mapping = ys[0].value.id
    dels = 0
    writes = 0
    for loop in [x for x in walk_no_nested(fn.node) if isinstance(x, ast.For)]:
        has_unlink = any(isinstance(c, ast.Call) and (dotted(c.func) or '') in ('os.unlink', 'os.remove') for c in ast.walk(loop))
        has_write = any(_is_fs_mutation(c) and 'open' in (_is_fs_mutation(c) or '') or
                        (isinstance(c, ast.Call) and isinstance(c.func, ast.Attribute) and c.func.attr == 'write_text')
                        for c in ast.walk(loop))
        if has_unlink:
            dels += 1
            it = loop.iter
            ok = isinstance(it, ast.BinOp) and isinstance(it.op, ast.Sub) and norm(it.right) == f'set({mapping})' \
                and isinstance(it.left, ast.Call) and norm(it.left.func) == 'set' and norm(it.left.args[0]) != mapping
            ctx.check(ok, rid, 'editor:Editor.edit_file_recursive: deletions', norm(it),
                      f'deletions iterate `{norm(it)}`, expected set(<original>) - set({mapping})', fn.where, note=norm(it))
            # the unlink argument is the loop variable
            tgt = norm(loop.target)
            for c in ast.walk(loop):
                if isinstance(c, ast.Call) and (dotted(c.func) or '') in ('os.unlink', 'os.remove'):
                    ctx.check(norm(c.args[0]) == tgt, rid, 'editor:Editor.edit_file_recursive: unlink target', norm(c),
                              f'`{norm(c)}` does not delete the loop variable {tgt}', fn.where, note=norm(c))
        if has_write:
            writes += 1
            it = loop.iter
            core = it
            while isinstance(core, ast.Call) and norm(core.func) in ('list', 'sorted', 'tuple', 'iter') and len(core.args) == 1 and not core.keywords:
                core = core.args[0]
            ok = norm(core) in (f'{mapping}.items()', mapping, f'{mapping}.keys()')
            ctx.check(ok, rid, 'editor:Editor.edit_file_recursive: writes', norm(it),
                      f'writes iterate `{norm(it)}`, not the yielded mapping {mapping}', fn.where, note=norm(it))
    if dels != 1 or writes != 1:
        raise AnalysisError(f'ED-SETS: found {dels} deletion loops and {writes} write loops (1 and 1 confirmed by hand)')


class _Subst(ast.NodeTransformer):
    def __init__(self, mapping: dict[str, ast.AST]) -> None:
        self.m = mapping

    def visit_Name(self, n: ast.Name) -> ast.AST:
        if n.id in self.m and isinstance(n.ctx, ast.Load):
            return copy.deepcopy(self.m[n.id])
        return n


def expanded_view(p: Program, fns: list[FuncInfo]) -> list[FuncInfo]:
    """the editor's functions with calls to its own private helpers expanded in place (statement-level calls whose callee is a
    module-level function or a private method of the same class, with no yield and no value-returning / early return): the rules
    then see one body per public entry point, whatever the entry point delegates to a helper.  Parameters are replaced by the
    argument expressions -- this is a view for shape and ordering rules, not a semantics-preserving rewrite.  Helpers all of whose
    call sites were expanded are dropped from the list (they are analysed as part of their callers)."""
    import dataclasses
    by_name: dict[str, FuncInfo] = {}
    for f in fns:
        if f.parent is None:
            by_name[('self.' if f.cls is not None else '') + f.name] = f

    def expandable(h: FuncInfo) -> bool:
        if not h.name.startswith('_') or h.name.startswith('__'):
            return False
        if any(isinstance(x, (ast.Yield, ast.YieldFrom)) for x in walk_no_nested(h.node)):
            return False
        rets = [x for x in walk_no_nested(h.node) if isinstance(x, ast.Return)]
        if any(r.value is not None for r in rets):
            return False
        body = h.node.body
        return all(r is body[-1] for r in rets)           # a bare return only as the last statement

    expanded_names: set[str] = set()
    kept_calls: set[str] = set()

    def expand_block(stmts: list[ast.stmt], owner: FuncInfo, depth: int) -> list[ast.stmt]:
        out: list[ast.stmt] = []
        for st in stmts:
            call = st.value if isinstance(st, ast.Expr) and isinstance(st.value, ast.Call) else None
            key = norm(call.func) if call is not None else None
            h = by_name.get(key) if key else None
            if h is not None and h is not owner and depth < 3 and expandable(h) and not any(isinstance(a, ast.Starred) for a in call.args) \
                    and not any(k.arg is None for k in call.keywords):
                a = h.node.args
                params = [x.arg for x in [*a.posonlyargs, *a.args]]
                if h.cls is not None:
                    params = params[1:]
                mapping: dict[str, ast.AST] = dict(zip(params, call.args))
                mapping.update({k.arg: k.value for k in call.keywords if k.arg})
                defaults = dict(zip(params[len(params) - len(a.defaults):], a.defaults))
                for q in params:
                    if q not in mapping and q in defaults:
                        mapping[q] = defaults[q]
                if all(q in mapping for q in params):
                    body = [copy.deepcopy(b) for b in h.node.body if not (isinstance(b, ast.Return) and b.value is None)]
                    body = [b for b in body if not (isinstance(b, ast.Expr) and isinstance(b.value, ast.Constant))]
                    sub = _Subst(mapping)
                    body = [ast.fix_missing_locations(ast.copy_location(sub.visit(b), st)) for b in body]
                    out.extend(expand_block(body, owner, depth + 1))
                    expanded_names.add(key)
                    continue
            if call is not None and key in by_name:
                kept_calls.add(key)
            for attr in ('body', 'orelse', 'finalbody'):
                sub_ = getattr(st, attr, None)
                if isinstance(sub_, list) and sub_ and isinstance(sub_[0], ast.stmt) and not isinstance(st, (ast.FunctionDef, ast.AsyncFunctionDef, ast.ClassDef)):
                    setattr(st, attr, expand_block(sub_, owner, depth))
            for hd in getattr(st, 'handlers', []) or []:
                hd.body = expand_block(hd.body, owner, depth)
            out.append(st)
        return out

    res: list[FuncInfo] = []
    for f in fns:
        node = copy.deepcopy(f.node)
        node.body = expand_block(node.body, f, 0)
        res.append(dataclasses.replace(f, node=node))
    # any other use of a helper (as a value, in an expression) keeps it in the list
    used_otherwise = {norm(c.func) for f in res for c in ast.walk(f.node) if isinstance(c, ast.Call) and norm(c.func) in by_name}
    drop = {k for k in expanded_names if k not in used_otherwise and k not in kept_calls}
    return [f for f in res if (('self.' if f.cls is not None else '') + f.name) not in drop or f.parent is not None]


def run(ctx: RuleContext, p: Program) -> None:
    m = p.module('editor')
    fns = expanded_view(p, [f for f in p.functions_in(m) if f.kind != 'overload'])
    ctx.stats['editor_functions_analysed'] = [f.qualname for f in fns]
    # ED-GUARD, ED-ONCE, ED-SETS, ED-ORDER, ED-PAIR and ED-DIRNAME compared shapes; the evaluation ED-SEM decides what they stood for
    ctx.try_rule(rule_ed_newline, p, fns, 'ED-NEWLINE')
    ctx.try_rule(rule_ed_after_yield, p, fns, 'ED-AFTER-YIELD')
    ctx.try_rule(rule_ed_fresh, p, fns, 'ED-FRESH')
    ctx.try_rule(rule_ed_glob, p, fns, 'ED-GLOB')
    ctx.try_rule(rule_ed_target, p, fns, 'ED-TARGET')
    ctx.try_rule(rule_ed_codec, p, fns, 'ED-CODEC')
    ctx.try_rule(rule_ed_spell, p, fns, 'ED-SPELL')
    from . import edsem
    ctx.try_rule(edsem.rule_ed_sem, p, 'ED-SEM')
    ctx.not_decided += ['glob matching semantics', 'filesystem races', 'what the parser/printer produce (C01)']
    ctx.assumptions += ['Python io newline semantics: newline=None translates on read and to os.linesep on write; '
                        'any other value disables translation on read; \'\' and \'\\n\' write verbatim',
                        'Path.read_text has no newline parameter before Python 3.13']


# ====================================================================== ED-FRESH (added after seeded round 3)
def rule_ed_fresh(ctx: RuleContext, p: Program, fns: list[FuncInfo], rid: str) -> None:
    ctx.rule(rid, 'the models an edit session hands to its caller are created in that session: every object that reaches the yield (directly, '
                  'as an entry of the yielded dict, or through a helper method) is the result of a parse / constructor / deep copy made in '
                  'this call, never an object read back from the Editor instance (a model kept from an earlier session carries that '
                  'session\'s edits, including those of a body that raised, and would be written out as if they were made now)')
    by_name = {f.name: f for f in fns if f.cls is not None}
    n = 0

    def self_state(e: ast.AST, selfname: str) -> Optional[str]:
        """expression reads mutable state of the instance (anything under self other than the parser / a method call)"""
        for x in ast.walk(e):
            if isinstance(x, ast.Attribute) and isinstance(x.value, ast.Name) and x.value.id == selfname and x.attr not in ('_parser',) \
                    and x.attr not in by_name:
                return norm(x)
        return None

    def sources(fn: FuncInfo, e: ast.AST, depth: int, seen: set[str]) -> list[tuple[str, str]]:
        """[(kind, text)] kind in fresh | state | unknown"""
        selfname = fn.params[0] if fn.params else 'self'
        if isinstance(e, ast.Name):
            if e.id in seen:
                return []
            seen = seen | {e.id}
            out: list[tuple[str, str]] = []
            defs = [a for a in walk_no_nested(fn.node) if isinstance(a, ast.Assign) and any(
                (isinstance(t, ast.Name) and t.id == e.id) or (isinstance(t, ast.Tuple) and any(isinstance(x, ast.Name) and x.id == e.id for x in t.elts))
                for t in a.targets)]
            defs += [a for a in walk_no_nested(fn.node) if isinstance(a, ast.NamedExpr) and a.target.id == e.id]      # type: ignore[list-item]
            stores = [a for a in walk_no_nested(fn.node) if isinstance(a, ast.Assign) and any(
                isinstance(t, ast.Subscript) and isinstance(t.value, ast.Name) and t.value.id == e.id for t in a.targets)]
            for a in defs + stores:
                out += sources(fn, a.value, depth, seen)
            if e.id in fn.params:
                out.append(('param', e.id))
            return out
        if isinstance(e, ast.Tuple):
            return [s for x in e.elts for s in sources(fn, x, depth, seen)]
        if isinstance(e, ast.Subscript):
            st = self_state(e.value, selfname)
            return [('state', st)] if st else sources(fn, e.value, depth, seen)
        if isinstance(e, ast.IfExp):
            return sources(fn, e.body, depth, seen) + sources(fn, e.orelse, depth, seen)
        if isinstance(e, ast.Call):
            nm = dotted(e.func) or norm(e.func)
            if nm in ('copy.deepcopy',):
                return [('fresh', norm(e)[:50])]
            if isinstance(e.func, ast.Attribute) and isinstance(e.func.value, ast.Name) and e.func.value.id == selfname and e.func.attr in by_name:
                if depth >= 2:
                    return [('unknown', norm(e)[:50])]
                h = by_name[e.func.attr]
                out = []
                for r in walk_no_nested(h.node):
                    if isinstance(r, ast.Return) and r.value is not None:
                        out += sources(h, r.value, depth + 1, set())
                return [s for s in out if s[0] != 'param']
            st = self_state(e.func, selfname)
            if st:
                return [('state', f'{norm(e)[:50]}')]
            return [('fresh', norm(e)[:50])]
        if isinstance(e, ast.Attribute):
            st = self_state(e, selfname)
            return [('state', st)] if st else [('unknown', norm(e))]
        if isinstance(e, (ast.Constant, ast.Dict, ast.List, ast.Set, ast.DictComp, ast.ListComp)):
            return [('fresh', norm(e)[:40])]
        return [('unknown', norm(e)[:50])]

    for fn in fns:
        if fn.cls is None:
            continue
        for y in walk_no_nested(fn.node):
            if not isinstance(y, ast.Yield) or y.value is None:
                continue
            n += 1
            src = sources(fn, y.value, 0, set())
            state = [t for k, t in src if k == 'state']
            site = f'editor:{fn.qualname}'
            ctx.check(not state, rid, site, f'yield {norm(y.value)}',
                      f'`yield {norm(y.value)}` can hand out an object read from the Editor instance ({state[0] if state else ""}) instead of one '
                      f'parsed in this session: edits made on it by an earlier session -- also one whose body raised, or one whose result was '
                      f'reverted on disk -- are printed and written by this one', f'{fn.module.relpath}:{y.lineno}',
                      note=f'sources: {sorted({t for k, t in src if k == "fresh"})[:3]}')
    if n < 2:
        raise AnalysisError(f'ED-FRESH: only {n} yielding sessions found in editor.py')


# ====================================================================== ED-ORDER (added after seeded round 4)
def rule_ed_order(ctx: RuleContext, p: Program, fns: list[FuncInfo], rid: str) -> None:
    ctx.rule(rid, 'after the yield of edit_file_recursive every deletion precedes every write (a file that was dropped from the mapping and put back '
                  'under another spelling of its path is deleted through the old key and must then be re-created through the new one, not the other '
                  'way round), and no edit session writes a file in place: a text-mode file is replaced by opening it with mode "w", never by '
                  '"r+" plus truncate(<number of characters>), which cuts a file with multi-byte characters short')
    n = 0
    for fn in fns:
        if not any(isinstance(x, ast.Yield) for x in walk_no_nested(fn.node)):
            continue
        seen_yield = False
        first_write = None
        for x in walk_no_nested(fn.node):           # source order
            if isinstance(x, ast.Yield):
                seen_yield = True
            if not seen_yield:
                continue
            m_ = _is_fs_mutation(x)
            if m_ is None:
                continue
            n += 1
            is_del = m_.rsplit('.', 1)[-1] in ('unlink', 'remove', 'rmdir', 'rmtree')
            if not is_del and m_ not in ('os.makedirs', 'os.mkdir', 'mkdir') and first_write is None:
                first_write = x
            if is_del and first_write is not None:
                ctx.fail(rid, f'editor:{fn.qualname}', f'{norm(x)[:60]} after {norm(first_write)[:60]}',
                         f'`{norm(x)[:80]}` runs after files have been written (`{norm(first_write)[:80]}`): a file removed from the mapping and re-added '
                         f'under another spelling of the same path is first written and then deleted', f'{fn.module.relpath}:{x.lineno}')
        for x in walk_no_nested(fn.node):
            if isinstance(x, ast.Call) and isinstance(x.func, ast.Attribute) and x.func.attr == 'truncate' and x.args:
                n += 1
                ctx.fail(rid, f'editor:{fn.qualname}', f'{norm(x)[:60]}',
                         f'`{norm(x)[:80]}` truncates a text-mode file at a position computed from the text: truncate() counts bytes, len() counts '
                         f'characters, so a file containing multi-byte characters loses its tail', f'{fn.module.relpath}:{x.lineno}')
            if isinstance(x, ast.Call):
                name = dotted(x.func) or ''
                if name in ('open', 'io.open') or name.rsplit('.', 1)[-1] == 'open':
                    mode = _open_mode(x, isinstance(x.func, ast.Attribute) and name != 'io.open')
                    if '+' in mode and 'b' not in mode:
                        n += 1
                        ctx.fail(rid, f'editor:{fn.qualname}', f'{norm(x)[:60]}',
                                 f'`{norm(x)[:80]}` opens the ledger for in-place update in text mode: the new text is written over the old one and the '
                                 f'remainder has to be cut at a byte position the text API does not give', f'{fn.module.relpath}:{x.lineno}')
        ctx.ok(rid, f'editor:{fn.qualname}', 'deletions before writes; whole-file writes')
    if n < 2:
        raise AnalysisError(f'ED-ORDER: only {n} file-system mutations after a yield')


# ====================================================================== ED-GLOB (added after seeded round 5)
def rule_ed_glob(ctx: RuleContext, p: Program, fns: list[FuncInfo], rid: str) -> None:
    ctx.rule(rid, 'include patterns are matched by the glob module (glob.glob / glob.iglob, recursive=True) on the pattern joined to the directory '
                  'of the including file -- the matcher whose rules the include directive documents: wildcards do not match dot-files, `**` '
                  'recurses, absolute patterns are allowed.  pathlib.Path.glob / rglob, fnmatch over os.walk / os.listdir and re-implemented '
                  'matching differ on exactly those points (hidden files and directories are pulled into the ledger and rewritten)')
    callers = [f for f in fns if any(isinstance(x, ast.Attribute) and x.attr == 'filename' for x in ast.walk(f.node))
               and any(isinstance(x, ast.Name) and x.id == 'Include' or isinstance(x, ast.Attribute) and x.attr == 'Include' for x in ast.walk(f.node))]
    if not callers:
        raise AnalysisError('ED-GLOB: the function that resolves include directives was not found')
    for f in callers:
        calls = [c for c in ast.walk(f.node) if isinstance(c, ast.Call)]
        globs = [c for c in calls if (dotted(c.func) or '') in ('glob.glob', 'glob.iglob')]
        other = [c for c in calls if (isinstance(c.func, ast.Attribute) and c.func.attr in ('glob', 'rglob', 'iglob') and (dotted(c.func) or '') not in ('glob.glob', 'glob.iglob'))
                 or (dotted(c.func) or '') in ('fnmatch.fnmatch', 'fnmatch.filter', 'fnmatch.fnmatchcase', 'os.walk', 'os.listdir', 'os.scandir')]
        site = f'editor:{f.qualname}'
        if other or not globs:
            bad = other[0] if other else None
            ctx.fail(rid, site, norm(bad)[:80] if bad is not None else 'no glob.glob call',
                     f'include patterns are matched with `{norm(bad)[:70] if bad is not None else "something other than the glob module"}`: its rules for dot-files, '
                     f'`**` and absolute patterns are not those of glob.glob(.., recursive=True), so files the directive does not name are '
                     f'visited (and written back), or named ones are missed', f.where)
            continue
        for c in globs:
            rec = _kw(c, 'recursive')
            pat = c.args[0] if c.args else _kw(c, 'pathname')
            root = _kw(c, 'root_dir')
            # local names of the function expanded (base_dir = os.path.dirname(path); pattern = os.path.join(base_dir, ...))
            env_ = {a.targets[0].id: a.value for a in ast.walk(f.node) if isinstance(a, ast.Assign) and len(a.targets) == 1 and isinstance(a.targets[0], ast.Name)}

            def expand(e: Optional[ast.AST], depth: int = 0) -> str:
                if e is None:
                    return ''
                txt = norm(e)
                if depth > 4:
                    return txt
                for x in ast.walk(e):
                    if isinstance(x, ast.Name) and x.id in env_ and x.id not in ('path',):
                        txt += ' <- ' + expand(env_[x.id], depth + 1)
                return txt
            pat_txt = expand(pat) + ' ' + expand(root)
            joined = pat is not None and 'filename' in pat_txt and ('dirname' in pat_txt or 'parent' in pat_txt)
            hid = _kw(c, 'include_hidden')
            # frozen fact of the glob module (3.11+): include_hidden=True lets `*`, `?` and `**` match names that start with a dot
            hidden = hid is not None and not (isinstance(hid, ast.Constant) and hid.value in (False, None))
            extra = [k.arg for k in c.keywords if k.arg not in ('recursive', 'pathname', 'root_dir', 'include_hidden')]
            ok = isinstance(rec, ast.Constant) and rec.value is True and joined and not hidden and not extra
            ctx.check(ok, rid, site, norm(c)[:90],
                      f'`{norm(c)[:90]}`: ' + ('the pattern is not taken relative to the directory of the including file' if not joined else
                                               'include_hidden is switched on: wildcards now match dot-files and dot-directories (`include "*.bean"` pulls '
                                               '.backup.bean into the ledger, and the editor rewrites it), which the include directive never names' if hidden else
                                               f'keyword(s) {extra} change how the pattern is matched' if extra else
                                               'recursive=True is missing, so `**` in an include pattern matches one level only'), f.where,
                      note='glob.glob(join(dirname(path), filename), recursive=True)')


# ====================================================================== ED-TARGET (added after seeded round 6)
_SAME_FILE_CALLS = {'pathlib.Path', 'pathlib.PurePath', 'pathlib.PosixPath', 'Path', 'os.fspath', 'str', 'os.path.normpath', 'os.path.abspath',
                    'os.path.realpath', 'os.fsdecode', 'os.path.expanduser', 'os.path.normcase'}
_SAME_FILE_METHODS = {'resolve', 'absolute', 'expanduser', 'as_posix', '__fspath__'}
_CONTAINER_CTORS = {'set', 'list', 'sorted', 'tuple', 'frozenset', 'collections.deque', 'deque', 'dict', 'iter', 'reversed'}
_RANK = {'session': 0, 'fresh': 1, 'unknown': 2, 'derived': 3}


def _worst(cs: Iterable[tuple[str, str]]) -> tuple[str, str]:
    best = ('session', '')
    for c in cs:
        if _RANK[c[0]] > _RANK[best[0]]:
            best = c
    return best


class _Targets:
    """which file does a path expression of the editor name?  `session`: the path the caller passed, a path found through an include
    directive, or a key of the yielded mapping, possibly through a same-file conversion; `fresh`: a name handed out by tempfile;
    `derived`: a name computed from another one (suffix, sibling, join, string arithmetic) -- a different file; `unknown` otherwise."""

    def __init__(self, p: Program, fn: FuncInfo, env: Optional[dict[str, tuple[str, str]]] = None, depth: int = 0) -> None:
        self.p, self.fn, self.depth = p, fn, depth
        a = fn.node.args
        params = [x.arg for x in [*a.posonlyargs, *a.args, *a.kwonlyargs]]
        if fn.cls is not None and params:
            params = params[1:]
        self.env: dict[str, tuple[str, str]] = env if env is not None else {q: ('session', '') for q in params}
        self.busy: set[str] = set()
        ys = [y for y in walk_no_nested(fn.node) if isinstance(y, ast.Yield) and isinstance(y.value, ast.Name)]
        self.yielded = {y.value.id for y in ys} if fn.cls is not None else set()  # type: ignore[union-attr]

    # ---- bindings of a local name
    def name(self, nm: str) -> tuple[str, str]:
        if nm in self.env:
            return self.env[nm]
        if nm in self.busy:
            return ('session', '')          # a cycle through the work list adds nothing new
        self.busy.add(nm)
        try:
            found: list[tuple[str, str]] = []
            for st in walk_no_nested(self.fn.node):
                if isinstance(st, (ast.Assign, ast.AnnAssign)) and st.value is not None:
                    for t in (st.targets if isinstance(st, ast.Assign) else [st.target]):
                        if isinstance(t, ast.Name) and t.id == nm:
                            found.append(self.expr(st.value))
                        elif isinstance(t, (ast.Tuple, ast.List)) and any(isinstance(e, ast.Name) and e.id == nm for e in t.elts):
                            v = st.value
                            if isinstance(v, ast.Call) and (dotted(v.func) or '').startswith('tempfile.'):
                                found.append(('fresh', ''))
                            elif isinstance(v, (ast.Tuple, ast.List)) and len(v.elts) == len(t.elts):
                                k = [i for i, e in enumerate(t.elts) if isinstance(e, ast.Name) and e.id == nm][0]
                                found.append(self.expr(v.elts[k]))
                            else:
                                found.append(('unknown', f'{nm} is unpacked from `{norm(v)[:50]}`'))
                elif isinstance(st, ast.NamedExpr) and isinstance(st.target, ast.Name) and st.target.id == nm:
                    found.append(self.expr(st.value))
                elif isinstance(st, (ast.For, ast.comprehension)):
                    found += self._loop_target(st.target, st.iter, nm)
                elif isinstance(st, ast.With):
                    for it in st.items:
                        if isinstance(it.optional_vars, ast.Name) and it.optional_vars.id == nm:
                            c = it.context_expr
                            if isinstance(c, ast.Call) and (dotted(c.func) or '').startswith('tempfile.'):
                                found.append(('fresh', ''))
                            else:
                                found.append(('unknown', f'{nm} is bound by `with {norm(c)[:50]}`'))
            if not found:
                return ('unknown', f'no binding of {nm} found')
            return _worst(found)
        finally:
            self.busy.discard(nm)

    def _loop_target(self, target: ast.AST, it: ast.AST, nm: str) -> list[tuple[str, str]]:
        if isinstance(target, ast.Name) and target.id == nm:
            return [self.elements(it)]
        if isinstance(target, (ast.Tuple, ast.List)) and target.elts and isinstance(target.elts[0], ast.Name) and target.elts[0].id == nm:
            # for k, v in X.items() / enumerate is not a path
            if isinstance(it, ast.Call) and isinstance(it.func, ast.Attribute) and it.func.attr == 'items' and not it.args:
                return [self.elements(it.func.value)]
            if isinstance(it, ast.Call) and norm(it.func) in ('list', 'sorted', 'tuple') and len(it.args) == 1:
                return self._loop_target(target, it.args[0], nm)
            return [('unknown', f'{nm} is unpacked from `{norm(it)[:50]}`')]
        return []

    # ---- a path expression
    def expr(self, e: ast.AST) -> tuple[str, str]:
        if isinstance(e, ast.Name):
            return self.name(e.id)
        if isinstance(e, ast.NamedExpr):
            return self.expr(e.value)
        if isinstance(e, ast.IfExp):
            return _worst([self.expr(e.body), self.expr(e.orelse)])
        if isinstance(e, ast.Attribute) and e.attr == 'name':
            inner = self.expr(e.value)
            if inner[0] == 'fresh':
                return inner
        if isinstance(e, ast.Call):
            nm = dotted(e.func) or ''
            if nm in _SAME_FILE_CALLS and len(e.args) == 1 and not e.keywords:
                return self.expr(e.args[0])
            if nm.startswith('tempfile.'):
                return ('fresh', '')
            if isinstance(e.func, ast.Attribute) and e.func.attr in _SAME_FILE_METHODS and not e.args:
                return self.expr(e.func.value)
            if isinstance(e.func, ast.Attribute) and e.func.attr in ('popleft', 'pop') and len(e.args) <= 1:
                return self.elements(e.func.value)
            if isinstance(e.func, ast.Name) and e.func.id == 'next' and e.args:
                return self.elements(e.args[0])
        if isinstance(e, ast.Subscript) and isinstance(e.slice, (ast.Constant, ast.UnaryOp)) and not isinstance(e.value, ast.Call):
            return self.elements(e.value)
        if isinstance(e, (ast.BinOp, ast.JoinedStr)) or (isinstance(e, ast.Call) and isinstance(e.func, ast.Attribute)) \
                or (isinstance(e, ast.Call) and (dotted(e.func) or '').startswith('os.path.')) or isinstance(e, ast.Attribute):
            if any(self.expr(x)[0] in ('session', 'derived') for x in ast.walk(e) if isinstance(x, ast.Name) and x is not e):
                return ('derived', f'`{norm(e)[:70]}` computes another name from a session path')
        if isinstance(e, ast.Constant):
            return ('derived', f'the constant {norm(e)[:40]}')
        return ('unknown', f'`{norm(e)[:60]}`')

    # ---- the elements (keys, for a mapping) of a collection expression
    def elements(self, e: ast.AST) -> tuple[str, str]:
        if isinstance(e, ast.Name):
            if e.id in self.yielded:
                base: list[tuple[str, str]] = [('session', '')]     # entries the caller adds are files to create
            else:
                base = []
            key = 'C:' + e.id
            if key in self.busy:
                return ('session', '')
            self.busy.add(key)
            try:
                n_src = 0
                for st in walk_no_nested(self.fn.node):
                    if isinstance(st, (ast.Assign, ast.AnnAssign)) and st.value is not None:
                        for t in (st.targets if isinstance(st, ast.Assign) else [st.target]):
                            if isinstance(t, ast.Name) and t.id == e.id:
                                n_src += 1
                                base.append(self.elements(st.value))
                            elif isinstance(t, ast.Subscript) and isinstance(t.value, ast.Name) and t.value.id == e.id:
                                n_src += 1
                                base.append(self.expr(t.slice))
                    elif isinstance(st, ast.AugAssign) and isinstance(st.target, ast.Name) and st.target.id == e.id:
                        n_src += 1
                        base.append(self.elements(st.value))
                    elif isinstance(st, ast.Call) and isinstance(st.func, ast.Attribute) and isinstance(st.func.value, ast.Name) and st.func.value.id == e.id:
                        if st.func.attr in ('append', 'add', 'appendleft') and len(st.args) == 1:
                            n_src += 1
                            base.append(self.expr(st.args[0]))
                        elif st.func.attr in ('extend', 'update', 'extendleft') and len(st.args) == 1:
                            n_src += 1
                            base.append(self.elements(st.args[0]))
                        elif st.func.attr == 'setdefault' and st.args:
                            n_src += 1
                            base.append(self.expr(st.args[0]))
                    elif isinstance(st, (ast.For, ast.comprehension)):
                        base += self._loop_target(st.target, st.iter, e.id) if isinstance(st.target, ast.Name) and st.target.id == e.id else []
                if e.id in self.env:
                    return self.env[e.id]
                if not base:
                    return ('unknown', f'nothing is known about the collection {e.id}')
                return _worst(base)
            finally:
                self.busy.discard(key)
        if isinstance(e, (ast.List, ast.Set, ast.Tuple)):
            return _worst([self.elements(x.value) if isinstance(x, ast.Starred) else self.expr(x) for x in e.elts])
        if isinstance(e, ast.Dict):
            return _worst([self.expr(k) for k in e.keys if k is not None])
        if isinstance(e, ast.BinOp) and isinstance(e.op, (ast.Sub, ast.BitOr, ast.BitAnd, ast.Add)):
            return _worst([self.elements(e.left)] + ([self.elements(e.right)] if not isinstance(e.op, ast.Sub) else []))
        if isinstance(e, (ast.ListComp, ast.SetComp, ast.GeneratorExp, ast.DictComp)):
            elt = e.key if isinstance(e, ast.DictComp) else e.elt
            return self.expr(elt)
        if isinstance(e, ast.Subscript) and isinstance(e.value, ast.Name) and e.value.id in ('dict', 'set', 'list'):
            return ('session', '')
        if isinstance(e, ast.Call):
            nm = dotted(e.func) or ''
            if isinstance(e.func, ast.Subscript):                       # dict[str, str]()
                nm = dotted(e.func.value) or ''
            if nm in _CONTAINER_CTORS or nm.endswith('.deque'):
                if not e.args:
                    return ('session', '')                              # an empty collection
                return self.elements(e.args[0])
            if nm in ('glob.glob', 'glob.iglob'):
                return ('session', '')                                  # files matched by an include directive
            if nm == 'map' and len(e.args) == 2:
                f = dotted(e.args[0]) or ''
                return self.elements(e.args[1]) if f in _SAME_FILE_CALLS else ('unknown', f'map through {f}')
            if nm in ('itertools.chain',):
                return _worst([self.elements(a) for a in e.args])
            if isinstance(e.func, ast.Attribute) and e.func.attr in ('keys', 'copy', 'difference', 'union', 'intersection', 'items'):
                return self.elements(e.func.value)
            if isinstance(e.func, ast.Name) and self.depth < 3:
                g = self.fn.module.symbols.get(e.func.id)
                if isinstance(g, FuncInfo):
                    ga = g.node.args
                    gparams = [x.arg for x in [*ga.posonlyargs, *ga.args]]
                    genv = {q: self.expr(a) if self._pathlike(a) else ('unknown', f'argument {norm(a)[:40]}') for q, a in zip(gparams, e.args)}
                    sub = _Targets(self.p, g, genv, self.depth + 1)
                    outs: list[tuple[str, str]] = []
                    for y in walk_no_nested(g.node):
                        if isinstance(y, ast.Yield) and y.value is not None:
                            outs.append(sub.expr(y.value))
                        elif isinstance(y, ast.YieldFrom):
                            outs.append(sub.elements(y.value))
                        elif isinstance(y, ast.Return) and y.value is not None:
                            outs.append(sub.elements(y.value))
                    if outs:
                        return _worst(outs)
        return ('unknown', f'the elements of `{norm(e)[:60]}`')

    def _pathlike(self, a: ast.AST) -> bool:
        return isinstance(a, (ast.Name, ast.Call, ast.Attribute))


def _mutation_targets(fn: FuncInfo) -> list[tuple[ast.Call, str, list[ast.AST]]]:
    """(call, what it does, path expressions it writes / removes / renames)"""
    out: list[tuple[ast.Call, str, list[ast.AST]]] = []
    for s in io_sites(fn):
        if not s['write']:
            continue
        c = s['node']
        if s['kind'] == 'open':
            nm = dotted(c.func) or ''
            recv = c.func.value if isinstance(c.func, ast.Attribute) and nm != 'io.open' else (c.args[0] if c.args else _kw(c, 'file'))
            if recv is not None:
                out.append((c, 'writes', [recv]))
        elif isinstance(c.func, ast.Attribute):
            out.append((c, 'writes', [c.func.value]))
    for c in walk_no_nested(fn.node):
        if not isinstance(c, ast.Call):
            continue
        nm = dotted(c.func) or ''
        if nm in ('os.unlink', 'os.remove') and c.args:
            out.append((c, 'deletes', [c.args[0]]))
        elif nm in ('os.rename', 'os.replace', 'shutil.move', 'shutil.copy', 'shutil.copyfile', 'shutil.copy2', 'os.link', 'os.symlink') and len(c.args) >= 2:
            out.append((c, 'renames/copies', [c.args[0], c.args[1]]))
        elif isinstance(c.func, ast.Attribute) and c.func.attr in ('unlink', 'touch') and nm not in ('os.unlink',) and len(c.args) == 0:
            out.append((c, 'deletes' if c.func.attr == 'unlink' else 'creates', [c.func.value]))
        elif isinstance(c.func, ast.Attribute) and c.func.attr in ('rename', 'replace', 'hardlink_to', 'symlink_to') and len(c.args) == 1 and not c.keywords \
                and not nm.startswith(('os.', 'shutil.')):
            out.append((c, 'renames', [c.func.value, c.args[0]]))
    return out


def rule_ed_target(ctx: RuleContext, p: Program, fns: list[FuncInfo], rid: str) -> None:
    ctx.rule(rid, 'every path the editor writes, deletes or renames is a session path -- the path the caller passed, a path matched through '
                  'an include directive, or a key of the yielded mapping, at most converted between spellings of the same file (Path, fspath, '
                  'normpath, abspath, resolve) -- or a fresh name from tempfile.  A name computed from a session path (a suffix or sibling '
                  'such as `<name>.tmp`, a join, string arithmetic) is another file of the tree, which an edit session must not touch')
    n = 0
    for fn in fns:
        if fn.cls is None or fn.parent is not None:
            continue
        tg = _Targets(p, fn)
        for c, what, exprs in _mutation_targets(fn):
            for e in exprs:
                n += 1
                kind, why = tg.expr(e)
                ctx.check(kind in ('session', 'fresh'), rid, f'editor:{fn.qualname}', f'{what} {norm(e)[:60]}',
                          (f'`{norm(c)[:80]}` {what} `{norm(e)[:50]}`: {why} -- a file other than the one being edited is created, overwritten or '
                           f'removed' if kind == 'derived' else
                           f'`{norm(c)[:80]}` {what} `{norm(e)[:50]}`, which cannot be traced to a session path ({why})'),
                          f'{fn.module.relpath}:{c.lineno}', note=f'{kind} path')
    if n < 3:
        raise AnalysisError(f'ED-TARGET: only {n} written/deleted paths found (3 confirmed by hand)')


# ====================================================================== ED-PAIR (added after seeded round 6)
def rule_ed_pair(ctx: RuleContext, p: Program, rid: str, fns: Optional[list[FuncInfo]] = None) -> None:
    ctx.rule(rid, 'the map of texts read and the yielded map of models are filled in pairs: on every path through the traversal loop that '
                  'records the text of a path, a model is recorded for the same path before the next iteration and before the yield (a file '
                  'that is read but gets no model is in set(texts) - set(files) at exit and is deleted although the caller removed nothing)')
    fn = _entry(p, fns, 'edit_file_recursive')
    ys = [y for y in walk_no_nested(fn.node) if isinstance(y, ast.Yield)]
    if len(ys) != 1 or not isinstance(ys[0].value, ast.Name):
        raise AnalysisError('ED-PAIR: single `yield <mapping>` not found')
    mapping = ys[0].value.id
    originals: set[str] = set()
    for x in walk_no_nested(fn.node):
        if isinstance(x, ast.BinOp) and isinstance(x.op, ast.Sub) and norm(x.right) in (f'set({mapping})', f'{mapping}.keys()', mapping):
            l = x.left
            if isinstance(l, ast.Call) and l.args and isinstance(l.args[0], ast.Name):
                originals.add(l.args[0].id)
            elif isinstance(l, ast.Call) and isinstance(l.func, ast.Attribute) and isinstance(l.func.value, ast.Name):
                originals.add(l.func.value.id)
            elif isinstance(l, ast.Name):
                originals.add(l.id)
    originals.discard(mapping)
    if len(originals) != 1:
        raise AnalysisError(f'ED-PAIR: the map of original texts was not identified ({sorted(originals)})')
    texts = originals.pop()
    bad: list[str] = []
    stores = {'t': 0, 'm': 0}

    def key_of(t: ast.AST) -> Optional[tuple[str, str]]:
        if isinstance(t, ast.Subscript) and isinstance(t.value, ast.Name) and t.value.id in (texts, mapping):
            return ('t' if t.value.id == texts else 'm', norm(t.slice))
        return None

    def transfer(s: Any, ev: tuple[Any, ...]) -> Iterable[Any]:
        # s: frozenset of ('t'|'m', key) stores that still wait for their partner
        if ev[0] == 'store':
            k = key_of(ev[1])
            if k is not None:
                stores[k[0]] += 1
                other = ('m' if k[0] == 't' else 't', k[1])
                return [s - {other} if other in s else s | {k}]
            if isinstance(ev[1], ast.Name) and ev[1].id == mapping and isinstance(ev[2], (ast.DictComp, ast.Call)) \
                    and any(isinstance(x, ast.Name) and x.id == texts for x in ast.walk(ev[2])):
                stores['m'] += 1
                return [frozenset(x for x in s if x[0] != 't')]           # files built from texts as a whole
        if ev[0] == 'eval' and isinstance(ev[1], ast.Call) and isinstance(ev[1].func, ast.Attribute) and isinstance(ev[1].func.value, ast.Name) \
                and ev[1].func.value.id in (texts, mapping) and ev[1].func.attr in ('setdefault', '__setitem__') and ev[1].args:
            k = ('t' if ev[1].func.value.id == texts else 'm', norm(ev[1].args[0]))
            stores[k[0]] += 1
            other = ('m' if k[0] == 't' else 't', k[1])
            return [s - {other} if other in s else s | {k}]
        if ev[0] == 'iterate' or (ev[0] == 'assume' and any(ev[1] is w.test for w in loops)) or ev[0] == 'yield':
            if s:
                kind = 'the yield' if ev[0] == 'yield' else 'the next iteration'
                for k in sorted(s):
                    msg = (f'{texts}[{k[1]}] is recorded but {kind} can be reached without {mapping}[{k[1]}]' if k[0] == 't' else
                           f'{mapping}[{k[1]}] is recorded but {kind} can be reached without {texts}[{k[1]}]')
                    if msg not in bad:
                        bad.append(msg)
                return [frozenset()]
        return [s]

    loops = [x for x in walk_no_nested(fn.node) if isinstance(x, ast.While)]
    Walker(transfer).run(stmts_no_doc(fn.node.body), [frozenset()])
    if stores['t'] < 1 or stores['m'] < 1:
        raise AnalysisError(f'ED-PAIR: stores into {texts} / {mapping} not found ({stores})')
    ctx.check(not bad, rid, 'editor:Editor.edit_file_recursive: paired maps', '; '.join(bad) or f'{texts} / {mapping}',
              '; '.join(bad) + ': a file that was read but has no model is deleted at exit (or a model without original text is always rewritten)',
              fn.where, note=f'{texts}[k] and {mapping}[k] stored on the same paths')


# ====================================================================== ED-CODEC (added after seeded round 6)
def rule_ed_codec(ctx: RuleContext, p: Program, fns: list[FuncInfo], rid: str) -> None:
    ctx.rule(rid, 'in each edit session the text-mode reads and the text-mode writes of a ledger use the same codec: the same `encoding` and the '
                  'same `errors` handler (or neither).  Text decoded with a lenient handler (surrogateescape, replace, ignore) contains characters '
                  'the strict handler of the write cannot encode: open(.., \'w\') has already truncated the file when the write raises, so an '
                  'edit of one token destroys the rest of the file')
    n = 0
    for fn in fns:
        allsites = io_sites(fn)
        # binary I/O has no codec; the pair still counts as analysed (the bytes are decoded / encoded by the function itself: ED-NEWLINE)
        for w in [s for s in allsites if s['write']]:
            for r in [s for s in allsites if not s['write']]:
                if w['binary'] or r['binary']:
                    n += 1
                    ctx.ok(rid, f'editor:{fn.qualname}', 'a binary side: the codec is in the function\'s own decode / encode', nontrivial=False)
        sites = [s for s in allsites if not s['binary']]
        reads = [s for s in sites if not s['write']]
        writes = [s for s in sites if s['write']]
        if not reads or not writes:
            continue
        for w in writes:
            for r in reads:
                n += 1
                diffs = [k for k in ('encoding', 'errors') if (norm(r.get(k)) if r.get(k) is not None else None) != (norm(w.get(k)) if w.get(k) is not None else None)]
                ctx.check(not diffs, rid, f'editor:{fn.qualname}', f'{norm(r["node"])[:50]} / {norm(w["node"])[:50]}',
                          f'`{norm(r["node"])[:70]}` reads with {", ".join(f"{k}={norm(r[k]) if r.get(k) is not None else None}" for k in diffs)} but '
                          f'`{norm(w["node"])[:70]}` writes with {", ".join(f"{k}={norm(w[k]) if w.get(k) is not None else None}" for k in diffs)}: text that the '
                          f'read accepts cannot be written back, and the file is already truncated when the write fails',
                          f'{fn.module.relpath}:{w["node"].lineno}', note='same encoding / errors on both sides')
    if n < 2:
        raise AnalysisError(f'ED-CODEC: only {n} read/write pairs found (2 confirmed by hand)')


# ====================================================================== ED-SPELL (added in round 7)
def rule_ed_spell(ctx: RuleContext, p: Program, fns: list[FuncInfo], rid: str) -> None:
    ctx.rule(rid, '"any way of spelling the path": a path that is read or written is never first rewritten by os.path.normpath / abspath (or '
                  'PurePath arithmetic that drops `..`), which collapse `dir/..` textually, without asking the file system.  When `dir` is a '
                  'symbolic link to a directory elsewhere, the collapsed spelling names a DIFFERENT file than the one the operating system '
                  'reaches through the original spelling: the editor then hands out, rewrites or deletes the wrong file')
    n = 0
    m = p.module('editor')

    def role(fn: FuncInfo, arg: Optional[ast.AST]) -> str:
        """what is being respelled: the path the caller gave, or a path matched by an include directive (keys findings by role, not by
        the name of the function the normalisation happens to live in)"""
        names = {x.id for x in ast.walk(arg) if isinstance(x, ast.Name)} if arg is not None else set()
        globbed = {t.id for lp in ast.walk(fn.node) if isinstance(lp, (ast.For, ast.comprehension)) and isinstance(lp.target, ast.Name)
                   for t in [lp.target] if any(isinstance(c2, ast.Call) and (dotted(c2.func) or '') in ('glob.glob', 'glob.iglob') for c2 in ast.walk(lp.iter))
                   or any(isinstance(n2, ast.Name) and n2.id in glob_vars for n2 in ast.walk(lp.iter))}
        if names & (globbed | glob_vars) or (arg is None and glob_vars):
            return 'editor: paths matched by an include directive'
        entries = sorted(e_ for e_ in public if fn.name == e_ or fn.name in reach[e_])
        if entries and (names & set(fn.params) or not names):
            return 'editor: the path given by the caller of ' + ' / '.join(entries)
        return f'editor:{fn.qualname}'

    allf = {f.name: f for f in p.functions_in(m) if f.kind != 'overload' and f.parent is None}
    public = [nm for nm, f in allf.items() if f.cls is not None and not nm.startswith('_')]
    reach: dict[str, set[str]] = {}
    for e_ in public:
        seen_: set[str] = set()
        todo_ = [e_]
        while todo_:
            cur_ = todo_.pop()
            for c2 in ast.walk(allf[cur_].node):
                if isinstance(c2, ast.Call):
                    nm2 = c2.func.attr if isinstance(c2.func, ast.Attribute) else c2.func.id if isinstance(c2.func, ast.Name) else None
                    if nm2 in allf and nm2 not in seen_ and nm2 != e_:
                        seen_.add(nm2)
                        todo_.append(nm2)
        reach[e_] = seen_
    for fn in [f for f in p.functions_in(m) if f.kind != 'overload' and f.parent is None]:
        glob_vars = {a.targets[0].id for a in walk_no_nested(fn.node) if isinstance(a, ast.Assign) and len(a.targets) == 1 and isinstance(a.targets[0], ast.Name)
                     and any(isinstance(c2, ast.Call) and (dotted(c2.func) or '') in ('glob.glob', 'glob.iglob') for c2 in ast.walk(a.value))}
        for c in walk_no_nested(fn.node):
            if isinstance(c, ast.Call) and (dotted(c.func) or '') in ('os.path.normpath', 'os.path.abspath', 'posixpath.normpath', 'ntpath.normpath'):
                n += 1
                ctx.fail(rid, role(fn, c.args[0] if c.args else None), 'textual path normalisation',
                         f'`{norm(c)[:70]}` in {fn.qualname}: the collapsed spelling is what gets opened / written / deleted (and is the key of the '
                         f'mapping); for `ledger/current/../accounts.bean` with `ledger/current` a symlink to `../archive/2024` it names '
                         f'ledger/accounts.bean, while the path given denotes archive/accounts.bean -- the wrong file is edited',
                         f'{m.relpath}:{c.lineno}')
            elif isinstance(c, ast.Call) and isinstance(c.func, ast.Attribute) and c.func.attr in ('map',) and False:
                pass
        # normpath handed on as a function value: map(os.path.normpath, xs)
        for c in walk_no_nested(fn.node):
            if isinstance(c, ast.Call) and any((dotted(a) or '') in ('os.path.normpath', 'os.path.abspath') for a in c.args):
                n += 1
                others = [a for a in c.args if (dotted(a) or '') not in ('os.path.normpath', 'os.path.abspath')]
                ctx.fail(rid, role(fn, others[0] if others else None), 'textual path normalisation',
                         f'`{norm(c)[:70]}` in {fn.qualname}: every path is collapsed textually before it is opened (see the rule text): through a '
                         f'symlinked directory the collapsed spelling names another file', f'{m.relpath}:{c.lineno}')
    ctx.ok(rid, 'editor.py', f'{n} textual normalisations of paths found and reported', nontrivial=False)
