"""C13 -- number expressions evaluate and compose like arithmetic (structural clauses)."""
from __future__ import annotations

import ast
from typing import Any, Optional

from ..absint import EffectInterp
from ..absval import B, F, Obj, Plain
from ..fieldmodel import single_return_expr
from ..model import AnalysisError, FuncInfo, Program, norm, walk_no_nested
from ..report import RuleContext
from . import grammar_rules

EXPLANATION = (
    'Static analysis (grammar table agreement, AST operator pairing, effect interpretation). Decides: OP-TABLE (the value getters '
    'handle exactly the literal alternatives of ADD_OP / MUL_OP / UNARY_OP with the matching Python operator), OP-PAIR (each plain '
    'operator is deepcopy(self) + the in-place operator of the same symbol, each reflected operator is `other <same op> self`, each '
    'in-place operator passes its own symbol to _iaddsub/_imuldiv, unary operators pass their own sign), OP-LEVEL (operands are '
    'coerced to the grammar level of their position: right operand of +/- to mul level, both operands of * and / to mul/atom level, '
    'unary operand to atom level; _as_mul_expr wraps iff add-level operators exist, _as_atom_expr wraps unless a single atom; the new '
    'operator token carries the symbol it was given), OP-OWN (no non-in-place operator has any effect on a Borrowed operand or its '
    'document; in-place operators do not touch the right operand: effect / ownership abstract interpretation). It does NOT decide '
    'decimal results, precedence of parsed trees, or re-parse of printed results.')

PLAIN_OPS = {'__add__': ('__iadd__', '+'), '__sub__': ('__isub__', '-'), '__mul__': ('__imul__', '*'), '__truediv__': ('__itruediv__', '/')}
REFLECTED = {'__radd__': ast.Add, '__rsub__': ast.Sub, '__rmul__': ast.Mult, '__rtruediv__': ast.Div}
INPLACE = {'__iadd__': ('_iaddsub', '+'), '__isub__': ('_iaddsub', '-'), '__imul__': ('_imuldiv', '*'), '__itruediv__': ('_imuldiv', '/')}


def rule_op_pair(ctx: RuleContext, p: Program, rid: str) -> None:
    ctx.rule(rid, 'plain operator = copy.deepcopy(self).<in-place operator of the same symbol>(other); reflected operator = '
                  '`other <same operator> self`; in-place operator = self.<helper>(other, <own symbol>); __pos__/__neg__ = _unary(self, sign)')
    ne = p.cls('NumberExpr', 'models.number_expr')
    for nm, (ip, sym) in PLAIN_OPS.items():
        f = p.method(ne, nm, inherited=False)
        e = single_return_expr(f)
        ok = e is not None and norm(e) == f'copy.deepcopy(self).{ip}({f.params[1]})'
        ctx.check(ok, rid, f'models.number_expr:NumberExpr.{nm}', norm(e) if e else '',
                  f'{nm} is `{norm(e) if e else None}`, expected copy.deepcopy(self).{ip}(other): the wrong in-place operator (or no copy) '
                  f'gives the wrong result or modifies the left operand', f.where, note=norm(e) if e else '')
    for nm, op in REFLECTED.items():
        f = p.method(ne, nm, inherited=False)
        e = single_return_expr(f)
        ok = isinstance(e, ast.BinOp) and isinstance(e.op, op) and norm(e.left) == f.params[1] and norm(e.right) == 'self'
        ctx.check(ok, rid, f'models.number_expr:NumberExpr.{nm}', norm(e) if e else '',
                  f'{nm} is `{norm(e) if e else None}`, expected `other {op.__name__} self` (operands in the reflected order)', f.where,
                  note=norm(e) if e else '')
    for nm, (helper, sym) in INPLACE.items():
        f = p.method(ne, nm, inherited=False)
        e = single_return_expr(f)
        ok = e is not None and norm(e) == f"self.{helper}({f.params[1]}, '{sym}')"
        ctx.check(ok, rid, f'models.number_expr:NumberExpr.{nm}', norm(e) if e else '',
                  f"{nm} is `{norm(e) if e else None}`, expected self.{helper}(other, '{sym}')", f.where, note=norm(e) if e else '')
    for nm, sign in (('__pos__', '+'), ('__neg__', '-')):
        f = p.method(ne, nm, inherited=False)
        calls = [c for c in walk_no_nested(f.node) if isinstance(c, ast.Call) and norm(c.func) == '_unary']
        ok = len(calls) == 1 and [norm(a) for a in calls[0].args] == ['self', repr(sign)]
        ctx.check(ok, rid, f'models.number_expr:NumberExpr.{nm}', norm(calls[0]) if calls else '',
                  f'{nm} does not build _unary(self, {sign!r})', f.where, note=norm(calls[0]) if calls else '')
    # the decorator: interpreted for every kind of right operand
    d = p.func('models.number_expr', '_operand_type_check')
    problem = _operand_check_sem(p, d)
    ctx.check(not problem, rid, 'models.number_expr:_operand_type_check', 'op(self, <other as NumberExpr>)',
              f'the operand-check wrapper, interpreted for int / Decimal / NumberExpr / foreign operands: {problem}', d.where,
              note='int and Decimal become NumberExpr.from_value(Decimal), expressions pass through, anything else gives NotImplemented')


def _operand_check_sem(p: Program, d: Any) -> str:
    import decimal
    from . import possem
    from .tokenstore import TS
    ts = TS(p)
    m = p.module('models.number_expr')
    inner = [f for f in p.functions_in(m) if f.parent is d]
    if len(inner) != 1:
        return 'the wrapper no longer defines exactly one inner function'
    w = inner[0]

    class Interp(possem.PosInterp):
        tag = 'OP-PAIR'

        def __init__(self) -> None:
            super().__init__(ts, [], module=m)
            self.calls: list = []

        def expr(self, e: Any, env: dict) -> Any:                 # type: ignore[override]
            if isinstance(e, ast.Call):
                fname = norm(e.func)
                if isinstance(e.func, ast.Name) and e.func.id in env and env[e.func.id] == 'OP':
                    args = [self.expr(a, env) for a in e.args]
                    self.calls.append(args)
                    return possem.Obj('NumberExpr', {'result': True}, 'result')
                if fname == 'isinstance' and len(e.args) == 2:
                    v = self.expr(e.args[0], env)
                    t = norm(e.args[1])
                    if t == 'int':
                        return isinstance(v, int) and not isinstance(v, bool)
                    if t in ('decimal.Decimal', 'Decimal'):
                        return isinstance(v, decimal.Decimal)
                    if t == 'NumberExpr':
                        return isinstance(v, possem.Obj) and v.cls == 'NumberExpr'
                    if t in ('(int, decimal.Decimal)', 'int | decimal.Decimal', '(decimal.Decimal, int)', 'decimal.Decimal | int'):
                        return (isinstance(v, int) and not isinstance(v, bool)) or isinstance(v, decimal.Decimal)
                    raise self.err(e, 'isinstance against a class this rule does not model')
                if fname in ('decimal.Decimal', 'Decimal') and len(e.args) == 1:
                    v = self.expr(e.args[0], env)
                    if isinstance(v, (int, decimal.Decimal)):
                        return decimal.Decimal(v)
                if fname == 'NumberExpr.from_value' and len(e.args) == 1:
                    v = self.expr(e.args[0], env)
                    return possem.Obj('NumberExpr', {'from_value': v}, f'NumberExpr.from_value({v!r})')
            return super().expr(e, env)

    me = possem.Obj('NumberExpr', {}, 'self')
    expr_operand = possem.Obj('NumberExpr', {}, 'other expression')
    # every int and every finite Decimal is an operand of ordinary arithmetic: zeros of any exponent and sign, negatives, subnormals,
    # values beyond the context precision
    numbers = [(5, 'int'), (0, 'int'), (-3, 'int'), (10 ** 30, 'int')] + [(decimal.Decimal(t), 'Decimal') for t in (
        '2.50', '0', '0.00', '-0', '0E+2', '-1.5', '1E-7', '1E+3', '1E-999999', '123456789012345678901234567890.5')]
    for other, kind in (*numbers, (expr_operand, 'NumberExpr'), ('text', 'str'), (None, 'None')):
        it = Interp()
        try:
            res = it.call_function(w, [me, other], {d.params[0]: 'OP'})
        except possem.Raised as ex:
            return f'a right operand {other!r} ({kind}): raises {ex} -- the arithmetic result exists for every int and every finite Decimal'
        if kind in ('str', 'None'):
            if it.calls or res != 'NotImplemented':
                return f'a right operand of kind {kind} is not answered with NotImplemented (calls {len(it.calls)}, result {res!r})'
            continue
        if len(it.calls) != 1 or len(it.calls[0]) != 2 or it.calls[0][0] is not me:
            return f'a right operand of kind {kind}: the operator is not called exactly once as op(self, other)'
        arg = it.calls[0][1]
        if kind == 'NumberExpr':
            if arg is not other:
                return 'an expression operand is not passed through as it is'
        else:
            want = decimal.Decimal(other)
            if not (isinstance(arg, possem.Obj) and arg.cls == 'NumberExpr' and isinstance(arg.f.get('from_value'), decimal.Decimal)
                    and arg.f['from_value'] == want):
                return f'a right operand {other!r} ({kind}) reaches the operator as {arg!r}, not as NumberExpr.from_value(Decimal({other!r}))'
        if not (isinstance(res, possem.Obj) and res.f.get('result')):
            return f'a right operand of kind {kind}: the wrapper does not return what the operator returns'
    return ''


def rule_op_level(ctx: RuleContext, p: Program, rid: str) -> None:
    ctx.rule(rid, 'operands are brought to the grammar level of their position before being spliced in, and the operator token '
                  'created carries the symbol passed in; wrapping conditions follow number_add_expr / number_mul_expr / atom')
    ne = p.cls('NumberExpr', 'models.number_expr')
    ia = p.method(ne, '_iaddsub', inherited=False)
    other, op = ia.params[1], ia.params[2]
    txt = [norm(s) for s in ia.node.body]
    coerced = [a for a in walk_no_nested(ia.node) if isinstance(a, ast.Assign) and isinstance(a.value, ast.Call)
               and norm(a.value.func) == '_as_mul_expr']
    opt = [a for a in walk_no_nested(ia.node) if isinstance(a, ast.Assign) and isinstance(a.value, ast.Call)
           and norm(a.value.func) == 'AddOp.from_raw_text']
    ok = len(coerced) == 1 and norm(coerced[0].value.args[0]) == other and len(opt) == 1 and norm(opt[0].value.args[0]) == op  # type: ignore[union-attr]
    ctx.check(ok, rid, 'models.number_expr:NumberExpr._iaddsub', 'right operand -> mul level; AddOp(op)',
              '_iaddsub does not coerce the right operand with _as_mul_expr or does not create AddOp from the symbol it was given', ia.where,
              note='_as_mul_expr(other); AddOp.from_raw_text(op)')
    # the new add expr appends (mul_expr, add_op) in matching positions
    ctor = [c for c in walk_no_nested(ia.node) if isinstance(c, ast.Call) and norm(c.func) == 'NumberAddExpr']
    ok = len(ctor) == 1 and len(ctor[0].args) == 3 and norm(ctor[0].args[1]).endswith(f'+ ({norm(coerced[0].targets[0])},)') \
        and norm(ctor[0].args[2]).endswith(f'+ ({norm(opt[0].targets[0])},)') if ok else False
    ctx.check(ok, rid, 'models.number_expr:NumberExpr._iaddsub: tree', 'operands + (mul_expr,), ops + (add_op,)',
              '_iaddsub does not append the new operand and operator to the existing add expression', ia.where)
    im = p.method(ne, '_imuldiv', inherited=False)
    other, op = im.params[1], im.params[2]
    c_self = [a for a in walk_no_nested(im.node) if isinstance(a, ast.Assign) and isinstance(a.value, ast.Call)
              and norm(a.value.func) == '_as_mul_expr' and norm(a.value.args[0]) == 'self']
    c_other = [a for a in walk_no_nested(im.node) if isinstance(a, ast.Assign) and isinstance(a.value, ast.Call)
               and norm(a.value.func) == '_as_atom_expr' and norm(a.value.args[0]) == other]
    opt = [a for a in walk_no_nested(im.node) if isinstance(a, ast.Assign) and isinstance(a.value, ast.Call)
           and norm(a.value.func) == 'MulOp.from_raw_text']
    ok = len(c_self) == 1 and len(c_other) == 1 and len(opt) == 1 and norm(opt[0].value.args[0]) == op  # type: ignore[union-attr]
    ctx.check(ok, rid, 'models.number_expr:NumberExpr._imuldiv', 'self -> mul level, other -> atom level; MulOp(op)',
              '_imuldiv does not coerce self with _as_mul_expr and the right operand with _as_atom_expr, or creates the wrong operator', im.where,
              note='_as_mul_expr(self); _as_atom_expr(other); MulOp.from_raw_text(op)')
    # wrapping conditions
    am = p.func('models.number_expr', '_as_mul_expr')
    body = [s for s in am.node.body if not isinstance(s, ast.Expr)]
    first = body[0]
    ok = isinstance(first, ast.If) and norm(first.test) == f'not {am.params[0]}.raw_number_add_expr.raw_ops' \
        and norm(first.body[0]) == f'return {am.params[0]}.raw_number_add_expr.raw_operands[0]' \
        and any(isinstance(c, ast.Call) and norm(c.func) == '_wrap_paren' for s in body[1:] for c in ast.walk(s))
    ctx.check(ok, rid, 'models.number_expr:_as_mul_expr', 'wrap iff add-level operators exist',
              '_as_mul_expr does not return the single mul operand when there is no add-level operator and wrap otherwise', am.where)
    aa = p.func('models.number_expr', '_as_atom_expr')
    t = [norm(i.test) for i in walk_no_nested(aa.node) if isinstance(i, ast.If)]
    rets = [norm(r.value) for r in walk_no_nested(aa.node) if isinstance(r, ast.Return)]
    e0 = aa.params[0]
    ok = t == [f'not {e0}.raw_number_add_expr.raw_ops', 'not mul_expr.raw_ops'] and rets == ['mul_expr.raw_operands[0]',
                                                                                          f'_wrap_paren({e0}.raw_number_add_expr)']
    ctx.check(ok, rid, 'models.number_expr:_as_atom_expr', 'wrap unless a single atom',
              f'_as_atom_expr tests {t} / returns {rets}; expected: a single atom is returned as is, anything else is wrapped', aa.where)
    un = p.func('models.number_expr', '_unary')
    ok = any(isinstance(c, ast.Call) and norm(c.func) == '_as_atom_expr' for c in walk_no_nested(un.node)) and \
        any(isinstance(c, ast.Call) and norm(c.func) == 'UnaryOp.from_raw_text' and norm(c.args[0]) == un.params[1] for c in walk_no_nested(un.node)) and \
        any(isinstance(a, ast.Assign) and norm(a.targets[0]) == un.params[0] and norm(a.value) == f'copy.deepcopy({un.params[0]})' for a in walk_no_nested(un.node))
    ctx.check(ok, rid, 'models.number_expr:_unary', 'copy, atom level, UnaryOp(op)', '_unary does not copy its operand, coerce it to atom '
              'level and create the unary operator from the sign it was given', un.where)
    wp = p.func('models.number_expr', '_wrap_paren')
    calls = [(c.func.attr, norm(c.args[0])) for c in walk_no_nested(wp.node) if isinstance(c, ast.Call) and isinstance(c.func, ast.Attribute)
             and c.func.attr in ('insert_before', 'insert_after')]
    a0 = wp.params[0]
    ok = sorted(calls) == sorted([('insert_before', f'{a0}.first_token'), ('insert_after', f'{a0}.last_token')])
    ctx.check(ok, rid, 'models.number_expr:_wrap_paren', f'{calls}', f'_wrap_paren inserts {calls}; expected "(" before first_token and ")" after last_token',
              wp.where)
    fv = p.func('models.number_expr', '_add_expr_from_value')
    ok = any(isinstance(c, ast.Call) and (norm(c.func) == 'abs' or (isinstance(c.func, ast.Attribute) and c.func.attr == 'copy_abs')) for c in walk_no_nested(fv.node)) and \
        any(isinstance(i, ast.If) and norm(i.test) == f'{fv.params[0]} < 0' for i in walk_no_nested(fv.node)) and \
        any(isinstance(c, ast.Call) and norm(c.func) == 'UnaryOp.from_raw_text' and norm(c.args[0]) == "'-'" for c in walk_no_nested(fv.node))
    ctx.check(ok, rid, 'models.number_expr:_add_expr_from_value', 'abs + unary minus for negatives',
              'a negative value is not built as unary minus applied to abs(value)', fv.where)


def rule_op_own(ctx: RuleContext, p: Program, rid: str) -> None:
    ctx.rule(rid, 'non-in-place operators (+ - * /, reflected forms, unary) have no store / text / tree effect on a Borrowed self or '
                  'other; in-place operators have no such effect on the right operand')
    it = EffectInterp(p)
    ne = p.cls('NumberExpr', 'models.number_expr')
    me = Obj(frozenset({ne.qualname}), B, False)
    n = 0
    for nm in [*PLAIN_OPS, *REFLECTED, '__pos__', '__neg__']:
        f = p.method(ne, nm, inherited=False)
        for other in ([Obj(frozenset({ne.qualname}), B, False)], [Plain('param', None, False, 'int')]) if nm not in ('__pos__', '__neg__') else ([],):
            summ = it.run_entry(f'NumberExpr.{nm}', it.func_value(f, me), list(other))
            n += 1
            site = f'models.number_expr:NumberExpr.{nm}({"expr" if other and isinstance(other[0], Obj) else "number" if other else ""})'
            if summ.muts:
                stack, (kind, detail) = next(iter(summ.muts.items()))
                ctx.fail(rid, f'{stack[-1][0]}', f'{stack[-1][1]}',
                         f'{nm} changes a Borrowed operand ({kind}: {detail}): `a {nm} b` must leave a, b and their documents untouched', f.where,
                         [f'{x[0]}: {x[1]}' for x in stack])
            else:
                ctx.ok(rid, site, 'no effect on Borrowed operands')
    # in-place: only self may change.  Run with a Fresh self so that any remaining Borrowed effect is on `other`.
    fresh = Obj(frozenset({ne.qualname}), F, False)
    for nm in INPLACE:
        f = p.method(ne, nm, inherited=False)
        summ = it.run_entry(f'NumberExpr.{nm}', it.func_value(f, fresh), [Obj(frozenset({ne.qualname}), B, False)])
        n += 1
        if summ.muts:
            stack, (kind, detail) = next(iter(summ.muts.items()))
            ctx.fail(rid, f'{stack[-1][0]}', f'{stack[-1][1]}', f'{nm} changes its right operand ({kind}: {detail})', f.where,
                     [f'{x[0]}: {x[1]}' for x in stack])
        else:
            ctx.ok(rid, f'models.number_expr:NumberExpr.{nm}(expr)', 'right operand untouched')
    if n < 20:
        raise AnalysisError(f'OP-OWN: only {n} operator entries analysed')
    if it.stats['unresolved_calls'] > 10:
        raise AnalysisError(f'OP-OWN: unresolved calls {list(it.stats["unresolved_sites"].items())[:5]}')


def run(ctx: RuleContext, p: Program) -> None:
    ctx.try_rule(grammar_rules.rule_op_table, p, 'OP-TABLE')
    ctx.try_rule(grammar_rules.rule_gram_chain, p, 'GRAM-CHAIN')
    ctx.try_rule(rule_op_pair, p, 'OP-PAIR')
    # OP-LEVEL (shape comparison of the level coercions) was replaced by the evaluation OP-SEM after the fourth batch of rewrites
    from . import opsem
    ctx.try_rule(opsem.rule_op_sem, p, 'OP-SEM')
    ctx.try_rule(rule_op_own, p, 'OP-OWN')
    from . import round4
    ctx.try_rule(round4.rule_set_covers, p, 'SET-COVERS')
    ctx.try_rule(round4.rule_dec_exact, p, 'DEC-EXACT')
    ctx.not_decided += ['decimal arithmetic results', 'precedence / associativity of parsed trees (grammar)', 're-parse of printed results']
    ctx.assumptions += ['primitive models of the effect interpreter (see C19)', 'lark grammar compiled as for the repository']
