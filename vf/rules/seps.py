"""SEP-PROV: class-level separator tokens never enter a store except through copy.deepcopy."""
from __future__ import annotations

import ast
from typing import Optional

from ..model import AnalysisError, FuncInfo, Program, dotted, norm, walk_no_nested
from ..report import RuleContext

SEP_ATTRS = {'separators', 'separators_before', '_separators', '_separators_before'}


def _parents(root: ast.AST) -> dict[int, ast.AST]:
    out: dict[int, ast.AST] = {}
    for n in ast.walk(root):
        for ch in ast.iter_child_nodes(n):
            out[id(ch)] = n
    return out


def rule_sep_prov(ctx: RuleContext, p: Program, rid: str) -> None:
    ctx.rule(rid, 'the shared, class-level separator tokens (field.separators / separators_before and their aliases) are only '
                  'deep-copied, iterated for yielding, tested for None, forwarded by accessor properties or passed by keyword '
                  'to a function that obeys the same rule; they never flow into a token list or a store directly')
    n = 0
    for m in p.modules.values():
        if '.models' not in m.name and not m.name.endswith('models'):
            continue
        for fn in p.functions_in(m):
            if fn.kind == 'overload':
                continue
            parents = _parents(fn.node)
            # local aliases of separators (`separators = self.separators_before`), and parameters named like them
            alias: set[str] = {a.arg for a in [*fn.node.args.args, *fn.node.args.kwonlyargs] if a.arg in SEP_ATTRS}
            changed = True
            while changed:
                changed = False
                for a in walk_no_nested(fn.node):
                    if isinstance(a, ast.Assign) and isinstance(a.targets[0], ast.Name) and a.targets[0].id not in alias \
                            and _is_sep_expr(a.value, alias):
                        alias.add(a.targets[0].id)
                        changed = True
            for node in walk_no_nested(fn.node):
                if not _is_sep_ref(node, alias):
                    continue
                par = parents.get(id(node))
                # skip the inner part of a longer attribute chain (self._field.separators -> judge the outer node)
                if isinstance(par, ast.Attribute) and par.attr in SEP_ATTRS:
                    continue
                if isinstance(node, ast.Name) and not isinstance(node.ctx, ast.Load):
                    continue
                if isinstance(node, ast.Attribute) and not isinstance(node.ctx, ast.Load):
                    ok = fn.name == '__init__'      # `self._separators = separators` in the field constructor
                    n += 1
                    ctx.check(ok, rid, f'{m.name.split(".", 1)[1]}:{fn.qualname}', norm(parents.get(id(node), node))[:100],
                              f'separator attribute rebound outside a constructor: {norm(parents.get(id(node), node))[:100]}', fn.where,
                              note='constructor binding')
                    continue
                n += 1
                why = _allowed_use(node, par, parents, fn, alias)
                ctx.check(why != '', rid, f'{m.name.split(".", 1)[1]}:{fn.qualname}',
                          f'{norm(par)[:110] if par is not None else norm(node)}',
                          f'shared separator tokens `{norm(node)}` are used as `{norm(par)[:110] if par is not None else ""}`: '
                          f'not a deepcopy / yield-iteration / None test / forwarding. Inserting the class-level token itself '
                          f'puts one token object into two documents (or raises on the second insertion)',
                          f'{m.relpath}:{node.lineno}', note=why)
    if n < 20:
        raise AnalysisError(f'SEP-PROV: only {n} separator uses found (>= 20 confirmed by hand)')


def _is_sep_ref(node: ast.AST, alias: set[str]) -> bool:
    if isinstance(node, ast.Attribute) and node.attr in SEP_ATTRS:
        return True
    if isinstance(node, ast.Name) and node.id in alias:
        return True
    return False


def _is_sep_expr(e: ast.AST, alias: set[str]) -> bool:
    if _is_sep_ref(e, alias):
        return True
    if isinstance(e, ast.IfExp):
        return _is_sep_expr(e.body, alias) or _is_sep_expr(e.orelse, alias)
    return False


def _allowed_use(node: ast.AST, par: Optional[ast.AST], parents: dict[int, ast.AST], fn: FuncInfo, alias: set[str]) -> str:
    if par is None:
        return ''
    # copy.deepcopy(<sep>)
    if isinstance(par, ast.Call) and (dotted(par.func) or '') in ('copy.deepcopy', 'deepcopy') and node in par.args:
        return 'deep-copied'
    # for separator in <sep>: yield separator, ...   (never stored)
    if isinstance(par, ast.For) and par.iter is node:
        tgt = par.target.id if isinstance(par.target, ast.Name) else None
        body_ok = all(isinstance(st, ast.Expr) and isinstance(st.value, ast.Yield) for st in par.body)
        if tgt and body_ok:
            return 'iterated for yielding (formatter view, not stored)'
        return ''
    # yield from zip(<sep>, repeat(flag)) / yield from ((s, flag) for s in <sep>): the same formatter view, spelled with an iterator
    if isinstance(par, ast.Call) and norm(par.func) in ('zip', 'itertools.zip_longest') and node in par.args:
        gp = parents.get(id(par))
        if isinstance(gp, ast.YieldFrom):
            return 'iterated for yielding (formatter view, not stored)'
    if isinstance(par, ast.comprehension) and par.iter is node:
        ge = parents.get(id(par))
        if isinstance(ge, ast.GeneratorExp) and isinstance(parents.get(id(ge)), ast.YieldFrom):
            return 'iterated for yielding (formatter view, not stored)'
    # None tests
    if isinstance(par, ast.Compare) and all(isinstance(c, ast.Constant) and c.value is None for c in par.comparators) \
            and par.left is node:
        return 'None test'
    # accessor forwarding: `return self._separators` inside a property named like a separator attribute
    if isinstance(par, ast.Return) and fn.name in SEP_ATTRS:
        return 'accessor forwarding'
    if isinstance(par, ast.IfExp):
        gp = parents.get(id(par))
        if par.test is node:
            return 'truth test'
        if isinstance(gp, ast.Return) and fn.name in SEP_ATTRS:
            return 'accessor forwarding'
        if isinstance(gp, ast.Assign) and isinstance(gp.targets[0], ast.Name):
            return 'local alias (tracked)'
        return _allowed_use(par, gp, parents, fn, alias)
    # local alias
    if isinstance(par, ast.Assign) and par.value is node and isinstance(par.targets[0], ast.Name):
        return 'local alias (tracked)'
    if isinstance(par, ast.Assign) and par.value is node and isinstance(par.targets[0], ast.Attribute) \
            and par.targets[0].attr in SEP_ATTRS and fn.name == '__init__':
        return 'constructor binding'
    # keyword pass-through under a separator name
    if isinstance(par, ast.keyword) and par.arg in SEP_ATTRS:
        return 'forwarded by keyword to a callee that obeys the same rule'
    return ''


def rule_sep_fresh(ctx: RuleContext, p: Program, rid: str) -> None:
    ctx.rule(rid, 'every copy of the separator tokens is inserted at most once: the result of copy.deepcopy(<separators>) is either used '
                  'where it is made, or bound to a name that is read exactly once and not inside a loop that the copy was made outside of '
                  '(one token object cannot stand at two places of a store: its handle names only one of them)')
    n = 0
    for m in p.modules.values():
        if '.models' not in m.name and not m.name.endswith('models'):
            continue
        for fn in p.functions_in(m):
            if fn.kind == 'overload':
                continue
            parents = _parents(fn.node)
            # a parameter that carries the field's separator template (Repeated.from_children(items, separators=..., separators_before=...))
            sep_params = {a.arg for a in [*fn.node.args.posonlyargs, *fn.node.args.args, *fn.node.args.kwonlyargs] if a.arg in SEP_ATTRS}
            for c in walk_no_nested(fn.node):
                if not (isinstance(c, ast.Call) and (dotted(c.func) or '') in ('copy.deepcopy', 'deepcopy') and c.args
                        and any(_is_sep_ref(x, sep_params) for x in ast.walk(c.args[0]))):
                    continue
                n += 1
                site = f'{m.name.split(".", 1)[1]}:{fn.qualname}'
                par = parents.get(id(c))
                if not (isinstance(par, ast.Assign) and par.value is c and len(par.targets) == 1 and isinstance(par.targets[0], ast.Name)):
                    ctx.ok(rid, f'{site}: {norm(c)[:60]}', 'used where it is made')
                    continue
                name = par.targets[0].id

                def loops_around(node: ast.AST) -> list[ast.AST]:
                    out = []
                    x = parents.get(id(node))
                    while x is not None and x is not fn.node:
                        if isinstance(x, (ast.For, ast.While, ast.ListComp, ast.GeneratorExp, ast.SetComp, ast.DictComp)):
                            out.append(x)
                        x = parents.get(id(x))
                    return out
                def_loops = {id(l) for l in loops_around(par)}
                loads = [x for x in walk_no_nested(fn.node) if isinstance(x, ast.Name) and x.id == name and isinstance(x.ctx, ast.Load)]
                in_outer_loop = [x for x in loads if any(id(l) not in def_loops for l in loops_around(x))]
                # several reads are fine when they sit on exclusive branches; keep it simple and exact for the idioms met: count reads
                bad = ''
                if in_outer_loop:
                    bad = f'`{name} = {norm(c)[:50]}` is made once, outside the loop, and read inside it ({norm(parents.get(id(in_outer_loop[0]), in_outer_loop[0]))[:60]})'
                elif len(loads) > 1 and not _exclusive(loads, parents, fn):
                    bad = f'`{name} = {norm(c)[:50]}` is read {len(loads)} times'
                ctx.check(not bad, rid, site, f'{name} = {norm(c)[:60]}',
                          f'{bad}: the same separator token objects are inserted once per item, so a store holds one object at several places; '
                          f'its handle names the last one, and removing or replacing an earlier neighbour then cuts the wrong span',
                          f'{m.relpath}:{c.lineno}', note='bound copy read once')
    if n < 5:
        raise AnalysisError(f'SEP-FRESH: only {n} separator copies found (>= 5 confirmed by hand)')


def _exclusive(loads: list[ast.AST], parents: dict[int, ast.AST], fn: FuncInfo) -> bool:
    """are all reads on pairwise exclusive branches of if/else (or IfExp)?"""
    def branch_path(node: ast.AST) -> list[tuple[int, str]]:
        out = []
        child = node
        x = parents.get(id(node))
        while x is not None and x is not fn.node:
            if isinstance(x, ast.If):
                if any(child is s for s in x.body):
                    out.append((id(x), 'body'))
                elif any(child is s for s in x.orelse):
                    out.append((id(x), 'else'))
            elif isinstance(x, ast.IfExp):
                if child is x.body:
                    out.append((id(x), 'body'))
                elif child is x.orelse:
                    out.append((id(x), 'else'))
            child = x
            x = parents.get(id(x))
        return out
    paths = [dict(branch_path(l)) for l in loads]
    for i in range(len(paths)):
        for j in range(i + 1, len(paths)):
            if not any(k in paths[j] and paths[j][k] != v for k, v in paths[i].items()):
                return False
    return True
