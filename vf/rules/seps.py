"""SEP-PROV: class-level separator tokens never enter a store except through copy.deepcopy."""
from __future__ import annotations

import ast
from typing import Optional

from ..model import AnalysisError, FuncInfo, Program, dotted, norm, walk_no_nested
from ..report import RuleContext

SEP_ATTRS = {'separators', 'separators_before', '_separators', '_separators_before'}


def _parents(root: ast.AST) -> dict[int, ast.AST]:
    out: dict[int, ast.AST] = {}
    for n in ast.walk(root):
        for ch in ast.iter_child_nodes(n):
            out[id(ch)] = n
    return out


def rule_sep_prov(ctx: RuleContext, p: Program, rid: str) -> None:
    ctx.rule(rid, 'the shared, class-level separator tokens (field.separators / separators_before and their aliases) are only '
                  'deep-copied, iterated for yielding, tested for None, forwarded by accessor properties or passed by keyword '
                  'to a function that obeys the same rule; they never flow into a token list or a store directly')
    n = 0
    for m in p.modules.values():
        if '.models' not in m.name and not m.name.endswith('models'):
            continue
        for fn in p.functions_in(m):
            if fn.kind == 'overload':
                continue
            parents = _parents(fn.node)
            # local aliases of separators (`separators = self.separators_before`), and parameters named like them
            alias: set[str] = {a.arg for a in [*fn.node.args.args, *fn.node.args.kwonlyargs] if a.arg in SEP_ATTRS}
            changed = True
            while changed:
                changed = False
                for a in walk_no_nested(fn.node):
                    if isinstance(a, ast.Assign) and isinstance(a.targets[0], ast.Name) and a.targets[0].id not in alias \
                            and _is_sep_expr(a.value, alias):
                        alias.add(a.targets[0].id)
                        changed = True
            for node in walk_no_nested(fn.node):
                if not _is_sep_ref(node, alias):
                    continue
                par = parents.get(id(node))
                # skip the inner part of a longer attribute chain (self._field.separators -> judge the outer node)
                if isinstance(par, ast.Attribute) and par.attr in SEP_ATTRS:
                    continue
                if isinstance(node, ast.Name) and not isinstance(node.ctx, ast.Load):
                    continue
                if isinstance(node, ast.Attribute) and not isinstance(node.ctx, ast.Load):
                    ok = fn.name == '__init__'      # `self._separators = separators` in the field constructor
                    n += 1
                    ctx.check(ok, rid, f'{m.name.split(".", 1)[1]}:{fn.qualname}', norm(parents.get(id(node), node))[:100],
                              f'separator attribute rebound outside a constructor: {norm(parents.get(id(node), node))[:100]}', fn.where,
                              note='constructor binding')
                    continue
                n += 1
                why = _allowed_use(node, par, parents, fn, alias)
                ctx.check(why != '', rid, f'{m.name.split(".", 1)[1]}:{fn.qualname}',
                          f'{norm(par)[:110] if par is not None else norm(node)}',
                          f'shared separator tokens `{norm(node)}` are used as `{norm(par)[:110] if par is not None else ""}`: '
                          f'not a deepcopy / yield-iteration / None test / forwarding. Inserting the class-level token itself '
                          f'puts one token object into two documents (or raises on the second insertion)',
                          f'{m.relpath}:{node.lineno}', note=why)
    if n < 20:
        raise AnalysisError(f'SEP-PROV: only {n} separator uses found (>= 20 confirmed by hand)')


def _is_sep_ref(node: ast.AST, alias: set[str]) -> bool:
    if isinstance(node, ast.Attribute) and node.attr in SEP_ATTRS:
        return True
    if isinstance(node, ast.Name) and node.id in alias:
        return True
    return False


def _is_sep_expr(e: ast.AST, alias: set[str]) -> bool:
    if _is_sep_ref(e, alias):
        return True
    if isinstance(e, ast.IfExp):
        return _is_sep_expr(e.body, alias) or _is_sep_expr(e.orelse, alias)
    return False


def _allowed_use(node: ast.AST, par: Optional[ast.AST], parents: dict[int, ast.AST], fn: FuncInfo, alias: set[str]) -> str:
    if par is None:
        return ''
    # copy.deepcopy(<sep>)
    if isinstance(par, ast.Call) and (dotted(par.func) or '') in ('copy.deepcopy', 'deepcopy') and node in par.args:
        return 'deep-copied'
    # for separator in <sep>: yield separator, ...   (never stored)
    if isinstance(par, ast.For) and par.iter is node:
        tgt = par.target.id if isinstance(par.target, ast.Name) else None
        body_ok = all(isinstance(st, ast.Expr) and isinstance(st.value, ast.Yield) for st in par.body)
        if tgt and body_ok:
            return 'iterated for yielding (formatter view, not stored)'
        return ''
    # None tests
    if isinstance(par, ast.Compare) and all(isinstance(c, ast.Constant) and c.value is None for c in par.comparators) \
            and par.left is node:
        return 'None test'
    # accessor forwarding: `return self._separators` inside a property named like a separator attribute
    if isinstance(par, ast.Return) and fn.name in SEP_ATTRS:
        return 'accessor forwarding'
    if isinstance(par, ast.IfExp):
        gp = parents.get(id(par))
        if par.test is node:
            return 'truth test'
        if isinstance(gp, ast.Return) and fn.name in SEP_ATTRS:
            return 'accessor forwarding'
        if isinstance(gp, ast.Assign) and isinstance(gp.targets[0], ast.Name):
            return 'local alias (tracked)'
        return _allowed_use(par, gp, parents, fn, alias)
    # local alias
    if isinstance(par, ast.Assign) and par.value is node and isinstance(par.targets[0], ast.Name):
        return 'local alias (tracked)'
    if isinstance(par, ast.Assign) and par.value is node and isinstance(par.targets[0], ast.Attribute) \
            and par.targets[0].attr in SEP_ATTRS and fn.name == '__init__':
        return 'constructor binding'
    # keyword pass-through under a separator name
    if isinstance(par, ast.keyword) and par.arg in SEP_ATTRS:
        return 'forwarded by keyword to a callee that obeys the same rule'
    return ''
