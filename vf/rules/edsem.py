"""ED-SEM (C16): the two edit sessions of the Editor, interpreted against a mock file system.

`Editor.edit_file` and `Editor.edit_file_recursive` (with the helpers they call, e.g. `_get_include_paths`) are interpreted from their
ASTs.  Files are entries of a dictionary path -> text; `open` / `Path.open` / `read_text` / `write_text` / `os.unlink` / `os.makedirs` /
`os.replace` act on it and are logged; `glob.glob` answers from a table; the parser hands back a model object that remembers its text
and the include directives of the file, the printer hands back the model's (possibly edited) text.  At the `yield` the body of the
caller's with-block is played: nothing, an edit of some models, removal of an entry, a new entry, or an exception.  What the file
system looks like afterwards -- and which operations were performed, in which order relative to the yield -- is compared with what the
property says.  os.path functions run for real on the concrete path strings (they are pure string functions)."""
from __future__ import annotations

import ast
import itertools
import os
from typing import Any, Optional

from ..model import AnalysisError, ClassInfo, FuncInfo, Program, dotted, norm
from ..report import RuleContext


class _BodyRaises(Exception):
    pass


def rule_ed_sem(ctx: RuleContext, p: Program, rid: str) -> None:
    from . import possem
    from .tokenstore import TS
    ctx.rule(rid, 'Editor.edit_file and Editor.edit_file_recursive, interpreted against a mock file system over include graphs (single file, '
                  'chain, diamond, cycle, glob with two matches, a directory that does not exist yet) x with-block bodies (no change, one model '
                  'edited, all edited, an entry removed, an entry added, edited + removed + added, the body raises): every file is read exactly '
                  'once and before the yield; nothing is written, deleted or created before the yield or when the body raises; afterwards '
                  'exactly the files whose printed model differs from the text read are rewritten, with exactly that text, removed entries are '
                  'deleted, new entries are created (their directory first), and no other path is touched; the models handed out are the ones '
                  'parsed in this session from the text read in this session; a second session on the same Editor starts from the files as '
                  'they are then; two sessions of one Editor that overlap (one opened and closed inside the with-block of the other, either entry '
                  'point in either role, on two ledgers) each write exactly their own changed files; a checksum or digest of a text (zlib, hashlib, '
                  'hash()) is a lossy summary and is evaluated as the constant function, so the decision to write may use one only next to the full text')
    m = p.module('editor')
    ed = p.cls('Editor', 'editor')
    ts = TS(p)
    funcs = {f.name: f for f in p.functions_in(m) if f.cls is None and f.parent is None}
    try:
        prn = p.module('printer')
    except AnalysisError:
        prn = None
    from ..model import walk_no_nested
    session_yields = {id(y) for nm in ('edit_file', 'edit_file_recursive') for f in [ed.lookup(nm)] if isinstance(f, FuncInfo)
                      for y in walk_no_nested(f.node) if isinstance(y, ast.Yield)}

    class Interp(possem.PosInterp):
        tag = 'ED-SEM'

        def __init__(self, fs: dict, globs: dict, body: Any) -> None:
            super().__init__(ts, [], module=m)
            self.fs, self.globs, self.body = fs, globs, body
            self.log: list = []
            self.yielded = False
            self.models: list = []
            self.fds: dict = {}
            self.fresh = 0

        # -- the collaborators
        def parse(self, text: Any) -> Any:
            incs = [ln[len('include '):] for ln in str(text).split('\n') if ln.startswith('include ')]
            # an include directive may stand anywhere in a ledger: a dated entry comes first, the includes are interleaved with others
            dirs: list = [possem.Obj('Open', {'raw_date': 'DATE', 'date': 'DATE'}, 'a dated entry')]
            for x in incs:
                dirs.append(possem.Obj('Include', {'filename': x}, f'include {x}'))
                dirs.append(possem.Obj('Transaction', {'raw_date': 'DATE', 'date': 'DATE'}, 'a dated entry'))
            dirs.append(possem.Obj('Option', {}, 'an undated directive'))
            mo = possem.Obj('FileModel', {'text': text, 'raw_directives': dirs}, 'model')
            mo.f['directives'] = mo.f['raw_directives']
            self.models.append(mo)
            return mo

        def open_(self, path: Any, mode: str, node: Any, kw: dict) -> Any:
            if isinstance(path, int) and not isinstance(path, bool):
                if path not in self.fds:
                    raise self.err(node, 'open() of an unknown file descriptor')
                path = self.fds[path]
            path = os.path.normpath(str(path))          # the mock file system has no links: spellings of one path are one file
            binary = 'b' in mode
            if any(ch in mode for ch in 'wax+'):
                self.log.append(('open-w', path, self.yielded))
                if os.path.dirname(path) and os.path.dirname(path) not in self.dirs():
                    raise possem.Raised(f'FileNotFoundError: directory of {path} does not exist')
                self.fs[path] = ''
                return possem.Obj('FileW', {'path': path, 'binary': binary}, f'file {path} (w)')
            if path not in self.fs:
                raise possem.Raised(f'FileNotFoundError: {path}')
            self.log.append(('read', path, self.yielded))
            return possem.Obj('FileR', {'path': path, 'binary': binary}, f'file {path}')

        def dirs(self) -> set:
            out = set(self.made)
            for k in self.fs:
                d = os.path.dirname(k)
                while d:
                    out.add(d)
                    d = os.path.dirname(d)
            return out

        made: set = set()

        def expr(self, e: Any, env: dict) -> Any:                 # type: ignore[override]
            if isinstance(e, ast.Yield) and id(e) in session_yields:
                self.yielded = True
                v = self.expr(e.value, env) if e.value is not None else None
                self.body(self, v)
                return None
            if isinstance(e, ast.Attribute) and e.attr == 'tokens' and not (isinstance(e.value, ast.Name) and e.value.id not in env):
                bv_ = self.expr(e.value, env)
                if isinstance(bv_, possem.Obj) and bv_.cls == 'FileModel':
                    # the tokens of a session model: its text in pieces of two characters (an edit that cuts off the tail leaves a prefix of the tokens)
                    t_ = str(bv_.f['text'])
                    return [possem.Obj('Tok', {'raw_text': t_[i:i + 2]}, f'tok{i}') for i in range(0, len(t_), 2)]
            if isinstance(e, ast.Attribute) and isinstance(e.value, ast.Name) and e.value.id == 'models' and 'models' not in env:
                return possem.ClassRef(e.attr)
            if isinstance(e, ast.Attribute) and (dotted(e) or '') in ('os.path.normpath', 'os.path.dirname', 'os.path.basename', 'os.fspath', 'os.path.abspath'):
                fn_ = {'os.path.normpath': os.path.normpath, 'os.path.dirname': os.path.dirname, 'os.path.basename': os.path.basename,
                       'os.fspath': str, 'os.path.abspath': lambda x: os.path.normpath(os.path.join('/cwd', x))}[dotted(e)]
                return possem._PyFn(fn_)                     # a pure path function handed on as a value (map(os.path.normpath, xs))
            if isinstance(e, ast.Attribute) and e.attr in ('parent', 'name') and not (isinstance(e.value, ast.Name) and e.value.id not in env):
                b_ = self.expr(e.value, env)
                if isinstance(b_, str):
                    return os.path.dirname(b_) if e.attr == 'parent' else os.path.basename(b_)
            if isinstance(e, ast.Call) and isinstance(e.func, ast.Subscript) and norm(e.func.value) in ('dict', 'list', 'set', 'collections.deque', 'deque') and not e.args:
                return {} if norm(e.func.value) == 'dict' else []              # dict[str, str]() and friends
            if isinstance(e, ast.Call) and (dotted(e.func) or '').split('.')[0] in ('zlib', 'hashlib', 'binascii') and '.' in (dotted(e.func) or '') \
                    and (dotted(e.func) or '').split('.')[0] not in env:
                # a checksum / digest of a text is a LOSSY summary: different texts can share it.  Abstractly it is the worst member of its family,
                # the constant function -- a decision that rests on the digest alone then treats every text alike, one that falls back on the full
                # text is unaffected
                for a_ in e.args:
                    self.expr(a_, env)
                self.lossy = getattr(self, 'lossy', 0) + 1
                return 0 if (dotted(e.func) or '').split('.')[0] != 'hashlib' else possem.Obj('Digest', {}, 'digest object')
            if isinstance(e, ast.Call) and isinstance(e.func, ast.Name) and e.func.id == 'hash' and 'hash' not in env and len(e.args) == 1:
                self.expr(e.args[0], env)
                self.lossy = getattr(self, 'lossy', 0) + 1
                return 0
            if isinstance(e, ast.Call) and isinstance(e.func, ast.Attribute) and e.func.attr in ('hexdigest', 'digest', 'update') \
                    and not (isinstance(e.func.value, ast.Name) and e.func.value.id not in env):
                d_ = self.expr(e.func.value, env)
                if isinstance(d_, possem.Obj) and d_.cls == 'Digest':
                    for a_ in e.args:
                        self.expr(a_, env)
                    return None if e.func.attr == 'update' else ''
            if isinstance(e, ast.Call):
                fname = dotted(e.func) or norm(e.func)
                args = None

                def A() -> list:
                    nonlocal args
                    if args is None:
                        args = [self.expr(a, env) for a in e.args]
                    return args
                kw = {k.arg: k.value for k in e.keywords if k.arg}
                if fname in ('open', 'io.open'):
                    mode = A()[1] if len(A()) > 1 else (self.expr(kw['mode'], env) if 'mode' in kw else 'r')
                    return self.open_(A()[0], mode, e, kw)
                if fname.startswith('os.path.') and hasattr(os.path, fname[8:]) and fname[8:] in ('normpath', 'dirname', 'join', 'basename', 'abspath', 'isabs', 'split', 'splitext', 'relpath', 'commonpath'):
                    vals = A()
                    if not all(isinstance(x, str) for x in vals):
                        raise self.err(e, f'{fname} of something that is not a path string')
                    if fname[8:] == 'abspath':
                        return os.path.normpath(os.path.join('/cwd', vals[0]))
                    return getattr(os.path, fname[8:])(*vals)
                if fname in ('os.fspath', 'str', 'pathlib.Path', 'pathlib.PurePath', 'Path') and len(e.args) == 1:
                    v = A()[0]
                    if isinstance(v, str):
                        return v
                if fname in ('os.unlink', 'os.remove'):
                    path = os.path.normpath(str(A()[0]))
                    self.log.append(('unlink', path, self.yielded))
                    if path not in self.fs:
                        raise possem.Raised(f'FileNotFoundError: {path}')
                    del self.fs[path]
                    return None
                if fname in ('os.makedirs', 'os.mkdir'):
                    path = str(A()[0])
                    self.log.append(('makedirs', path, self.yielded))
                    if path == '':
                        raise possem.Raised('FileNotFoundError: makedirs of an empty path')
                    if path in self.dirs() and not ('exist_ok' in kw and self.expr(kw['exist_ok'], env) is True):
                        raise possem.Raised(f'FileExistsError: {path}')
                    self.made = set(self.made) | {path}
                    d = os.path.dirname(path)
                    while d:
                        self.made.add(d)
                        d = os.path.dirname(d)
                    return None
                if fname in ('os.replace', 'os.rename', 'shutil.move'):
                    a, b = os.path.normpath(str(A()[0])), os.path.normpath(str(A()[1]))
                    self.log.append(('rename', a, b, self.yielded))
                    if a not in self.fs:
                        raise possem.Raised(f'FileNotFoundError: {a}')
                    self.fs[b] = self.fs.pop(a)
                    return None
                if fname == 'tempfile.mkstemp':
                    d = self.expr(kw['dir'], env) if 'dir' in kw else '/tmp'
                    self.fresh += 1
                    path = os.path.normpath(os.path.join(str(d), f'tmp{self.fresh}'))
                    self.fds[100 + self.fresh] = path
                    self.fs[path] = ''
                    self.log.append(('mkstemp', path, self.yielded))
                    return (100 + self.fresh, path)
                if fname in ('glob.glob', 'glob.iglob'):
                    pat = str(A()[0])
                    self.log.append(('glob', pat, self.yielded))
                    if pat in self.globs:
                        return list(self.globs[pat])
                    return [pat] if os.path.normpath(pat) in self.fs else []
                if fname in ('collections.deque', 'deque'):
                    return list(self.iter_of(A()[0], e)) if e.args else []
                if fname in ('io.StringIO',):
                    return possem.Obj('StringIO', {}, 'buffer')
                if fname.startswith('printer.') and 'printer' not in env and prn is not None:
                    # the printer module is interpreted, whatever it offers (print_model, or a helper that compares a model with a text): the
                    # session's models carry their text as a list of tokens
                    pf = next((f for f in p.functions_in(prn) if f.qualname == fname.split('.', 1)[1] and f.parent is None), None)
                    if pf is not None:
                        return self.call_function(pf, A(), {k: self.expr(v, env) for k, v in kw.items()})
                if fname in ('printer.print_model', 'print_model') and len(e.args) >= 1:
                    mo = A()[0]
                    buf = A()[1] if len(A()) > 1 else possem.Obj('StringIO', {}, 'buffer')
                    if not (isinstance(mo, possem.Obj) and mo.cls == 'FileModel'):
                        raise self.err(e, 'print_model of something that is not a model of this session')
                    if isinstance(buf, possem.Obj):
                        buf.f['text'] = mo.f['text']
                    return buf
                if isinstance(e.func, ast.Attribute):
                    attr = e.func.attr
                    recv_is_free_name = isinstance(e.func.value, ast.Name) and e.func.value.id not in env
                    if attr == 'parse' and 'parser' in norm(e.func.value):
                        return self.parse(A()[0])
                    b = None if recv_is_free_name else self.expr(e.func.value, env)
                    if isinstance(b, str) and attr in ('open', 'read_text', 'write_text', 'unlink', 'exists'):
                        if attr == 'open':
                            mode = A()[0] if A() else (self.expr(kw['mode'], env) if 'mode' in kw else 'r')
                            return self.open_(b, mode, e, kw)
                        if attr == 'read_text':
                            f_ = self.open_(b, 'r', e, kw)
                            return self.fs[f_.f['path']]
                        if attr == 'write_text':
                            f_ = self.open_(b, 'w', e, kw)
                            self.fs[b] = A()[0]
                            self.log.append(('write', b, A()[0], self.yielded))
                            return None
                        if attr == 'unlink':
                            self.log.append(('unlink', b, self.yielded))
                            if b not in self.fs:
                                raise possem.Raised(f'FileNotFoundError: {b}')
                            del self.fs[b]
                            return None
                        if attr == 'exists':
                            return b in self.fs
                    if isinstance(b, possem.Obj) and b.cls == 'FileR' and attr == 'read':
                        return self.fs[b.f['path']].encode('utf-8') if b.f.get('binary') else self.fs[b.f['path']]
                    if isinstance(b, possem.Obj) and b.cls == 'FileW' and attr == 'write':
                        data = A()[0]
                        if isinstance(data, bytes):
                            data = data.decode('utf-8')
                        self.fs[b.f['path']] = self.fs[b.f['path']] + str(data)
                        self.log.append(('write', b.f['path'], data, self.yielded))
                        return None
                    if isinstance(b, bytes) and attr == 'decode':
                        return b.decode(*[x for x in A() if isinstance(x, str)] or ['utf-8'])
                    if isinstance(b, str) and attr == 'encode':
                        return b.encode(*[x for x in A() if isinstance(x, str)] or ['utf-8'])
                    if isinstance(b, possem.Obj) and b.cls == 'StringIO' and attr == 'getvalue':
                        return b.f.get('text', '')
                    if isinstance(b, possem.Obj) and b.cls == 'StringIO' and attr == 'write':
                        b.f['text'] = b.f.get('text', '') + str(A()[0])
                        return None
                    if isinstance(b, list) and attr in ('popleft', 'appendleft', 'extendleft'):
                        if attr == 'popleft':
                            if not b:
                                raise possem.Raised('IndexError: pop from an empty deque')
                            return b.pop(0)
                        if attr == 'appendleft':
                            b.insert(0, A()[0])
                            return None
                        for x in self.iter_of(A()[0], e):
                            b.insert(0, x)
                        return None
                    if isinstance(b, possem.Obj) and b.cls == 'TokenStore' and attr == 'get_position':
                        return possem.Obj('Position', {'line': 0, 'column': 0}, 'pos')
                    if isinstance(b, possem.Obj) and b.cls == 'Editor':
                        h = ed.lookup(attr)
                        if isinstance(h, FuncInfo):
                            return self.call_function(h, [b] + A(), {k: self.expr(v, env) for k, v in kw.items()})
                if isinstance(e.func, ast.Name) and e.func.id in funcs and e.func.id not in env:
                    return self.call_function(funcs[e.func.id], A(), {k: self.expr(v, env) for k, v in kw.items()})
                if isinstance(e.func, ast.Name) and e.func.id == 'isinstance' and 'isinstance' not in env and len(e.args) == 2:
                    v = A()[0]
                    c = self.expr(e.args[1], env)
                    if isinstance(c, possem.ClassRef):
                        return isinstance(v, possem.Obj) and v.cls == c.name
            return super().expr(e, env)

        def binop(self, op: Any, a: Any, b: Any, node: Any) -> Any:       # type: ignore[override]
            if isinstance(op, ast.Sub) and isinstance(a, list) and isinstance(b, list):
                return [x for x in a if x not in b]                        # set difference (sets are duplicate-free lists here)
            if isinstance(op, ast.BitOr) and isinstance(a, list) and isinstance(b, list):
                return a + [x for x in b if x not in a]
            if isinstance(op, ast.Div) and isinstance(a, str) and isinstance(b, str):
                return os.path.join(a, b)                                  # Path / str
            return super().binop(op, a, b, node)

        def stmt(self, st: Any, env: dict) -> None:               # type: ignore[override]
            if isinstance(st, ast.With):
                for item in st.items:
                    v = self.expr(item.context_expr, env)
                    if item.optional_vars is not None:
                        self.assign(item.optional_vars, v, env)
                self.block(st.body, env)
                return
            if isinstance(st, ast.Raise):
                raise possem.Raised(norm(st.exc.func) if isinstance(st.exc, ast.Call) else norm(st.exc) if st.exc is not None else 'raise')
            super().stmt(st, env)

    # ---------------------------------------------------------------- scenarios
    def graphs() -> list[tuple[str, dict, dict, str, list[str]]]:
        """(name, files, glob table, root, files a recursive session must visit)"""
        out = []
        out.append(('single file', {'d/a.bean': 'text-a'}, {}, 'd/a.bean', ['d/a.bean']))
        out.append(('chain a -> b -> c', {'d/a.bean': 'include b.bean\nA', 'd/b.bean': 'include c.bean\nB', 'd/c.bean': 'C'}, {}, 'd/a.bean',
                    ['d/a.bean', 'd/b.bean', 'd/c.bean']))
        out.append(('diamond a -> b, c -> e', {'d/a.bean': 'include b.bean\ninclude c.bean\nA', 'd/b.bean': 'include e.bean\nB', 'd/c.bean': 'include e.bean\nC',
                                               'd/e.bean': 'E'}, {}, 'd/a.bean', ['d/a.bean', 'd/b.bean', 'd/c.bean', 'd/e.bean']))
        out.append(('cycle a -> b -> a', {'d/a.bean': 'include b.bean\nA', 'd/b.bean': 'include a.bean\nB'}, {}, 'd/a.bean', ['d/a.bean', 'd/b.bean']))
        out.append(('glob with two matches and a parent spelling', {'d/a.bean': 'include sub/*.bean\nA', 'd/sub/x.bean': 'include ../a.bean\nX', 'd/sub/y.bean': 'Y'},
                    {'d/sub/*.bean': ['d/sub/x.bean', 'd/sub/y.bean'], 'd/sub/../a.bean': ['d/sub/../a.bean']}, 'd/a.bean', ['d/a.bean', 'd/sub/x.bean', 'd/sub/y.bean']))
        out.append(('bare file name', {'a.bean': 'include b.bean\nA', 'b.bean': 'B'}, {}, 'a.bean', ['a.bean', 'b.bean']))
        out.append(('cycle entered through an unnormalised spelling of the root', {'d/a.bean': 'include b.bean\nA', 'd/b.bean': 'include a.bean\nB'}, {},
                    'd/./sub/../a.bean', ['d/a.bean', 'd/b.bean']))
        out.append(('chain with an empty file', {'d/a.bean': 'include b.bean\nA', 'd/b.bean': ''}, {}, 'd/a.bean', ['d/a.bean', 'd/b.bean']))
        return out

    def bodies(visit: list[str]) -> list[tuple[str, Any]]:
        def nothing(it: Any, v: Any) -> None:
            return None

        def edit_first(it: Any, v: Any) -> None:
            if isinstance(v, dict) and not v:
                return
            mo = v if not isinstance(v, dict) else v[sorted(v)[0]]
            mo.f['text'] = str(mo.f['text']) + '+edited'

        def edit_all(it: Any, v: Any) -> None:
            for mo in ([v] if not isinstance(v, dict) else v.values()):
                mo.f['text'] = str(mo.f['text']) + '+edited'

        def cut_tail(it: Any, v: Any) -> None:
            # the last directive is removed: what the model prints is a proper prefix of what was read
            for mo in ([v] if not isinstance(v, dict) else v.values()):
                if len(str(mo.f['text'])) > 3:
                    mo.f['text'] = str(mo.f['text'])[:-3]

        def remove_last(it: Any, v: Any) -> None:
            if isinstance(v, dict) and len(v) > 1:
                del v[sorted(v)[-1]]

        def add_new(it: Any, v: Any) -> None:
            if isinstance(v, dict):
                v['d/new/n.bean'] = it.parse('NEW')

        def add_empty(it: Any, v: Any) -> None:
            if isinstance(v, dict):
                v['d/new/e.bean'] = it.parse('')

        def add_bare(it: Any, v: Any) -> None:
            if isinstance(v, dict):
                v['n2.bean'] = it.parse('NEW2')

        def mixed(it: Any, v: Any) -> None:
            edit_first(it, v)
            remove_last(it, v)
            add_new(it, v)

        def respell(it: Any, v: Any) -> None:
            if isinstance(v, dict) and len(v) > 1:
                k = sorted(v)[-1]
                mo = v.pop(k)
                mo.f['text'] = str(mo.f['text']) + '+moved'
                v[os.path.join(os.path.dirname(k), '.', os.path.basename(k))] = mo

        def boom(it: Any, v: Any) -> None:
            edit_all(it, v)
            raise possem.Raised('RuntimeError: the body of the with-block fails')
        return [('the block changes nothing', nothing), ('the block edits one model', edit_first), ('the block edits every model', edit_all), ('the block cuts off the tail of every model', cut_tail),
                ('the block removes an entry', remove_last), ('the block adds an entry', add_new), ('the block edits, removes and adds', mixed),
                ('the block adds an entry whose model prints the empty text', add_empty), ('the block adds an entry with a bare file name', add_bare),
                ('the block removes an entry and puts its model back under another spelling of the same path', respell),
                ('the block raises', boom)]

    problems: dict[str, str] = {}
    n = 0
    for entry in ('edit_file', 'edit_file_recursive'):
        fn = ed.lookup(entry)
        if not isinstance(fn, FuncInfo):
            raise AnalysisError(f'ED-SEM: Editor.{entry} not found')
        for gname, files, globs, root, visit in graphs():
            expect_visit = visit if entry == 'edit_file_recursive' else [os.path.normpath(root)]
            for bname, body in bodies(expect_visit):
                if entry == 'edit_file' and ('removes' in bname or 'adds' in bname or 'spelling' in bname):
                    continue
                fs = dict(files)
                state: dict = {}

                def played(it_: Any, v: Any, body: Any = body, state: dict = state) -> None:
                    state['handed'] = dict(v) if isinstance(v, dict) else v
                    state['fs_at_yield'] = dict(it_.fs)
                    state['log_at_yield'] = list(it_.log)
                    body(it_, v)
                    state['after_body'] = dict(v) if isinstance(v, dict) else v

                it = Interp(fs, globs, played)
                it.made = set()
                me = possem.Obj('Editor', {'_parser': possem.Obj('Parser', {}, 'parser')}, 'editor')
                n += 1
                show = f'{entry}, {gname}, {bname}'
                raised_body = False
                try:
                    it.call_function(fn, [me, root], {})
                except possem.Raised as ex:
                    if 'the body of the with-block fails' in str(ex):
                        raised_body = True
                    else:
                        problems.setdefault(entry, f'{show}: raises {ex}')
                        continue
                if bname == 'the block raises' and not raised_body:
                    problems.setdefault(entry, f'{show}: the exception of the body is swallowed by the session')
                    continue
                if 'handed' not in state:
                    problems.setdefault(entry, f'{show}: the session never yields')
                    continue
                log0 = state['log_at_yield']
                reads = [x[1] for x in it.log if x[0] == 'read']
                norm_reads = sorted(os.path.normpath(x) for x in reads)
                if sorted(set(norm_reads)) != norm_reads:
                    problems.setdefault(entry, f'{show}: a file is read more than once ({reads})')
                    continue
                if sorted(norm_reads) != sorted(expect_visit):
                    problems.setdefault(entry, f'{show}: the session reads {sorted(norm_reads)}, the include graph reaches {sorted(expect_visit)}')
                    continue
                if any(x[0] == 'read' and x[-1] for x in it.log):
                    problems.setdefault(entry, f'{show}: a file is read after the yield')
                    continue
                muts0 = [x for x in log0 if x[0] in ('open-w', 'write', 'unlink', 'makedirs', 'rename')]
                if muts0 or state['fs_at_yield'] != files:
                    problems.setdefault(entry, f'{show}: the file system is changed before the yield ({muts0[:2]})')
                    continue
                handed = state['handed']
                hm = list(handed.values()) if isinstance(handed, dict) else [handed]
                if any(not any(x is y for y in it.models) for x in hm):
                    problems.setdefault(entry, f'{show}: a model handed out was not parsed in this session')
                    continue
                if isinstance(handed, dict) and sorted(os.path.normpath(k) for k in handed) != sorted(expect_visit):
                    problems.setdefault(entry, f'{show}: the mapping handed out has the keys {sorted(handed)}, the files visited are {sorted(expect_visit)}')
                    continue
                if raised_body:
                    if it.fs != files or any(x[0] in ('open-w', 'write', 'unlink', 'makedirs', 'rename') for x in it.log):
                        problems.setdefault(entry, f'{show}: the body raised, yet the file system was touched '
                                                   f'({[x[:2] for x in it.log if x[0] in ("open-w", "write", "unlink", "makedirs", "rename")][:3]})')
                    continue
                # expected file system
                after = state['after_body']
                want = dict(files)
                if isinstance(after, dict):
                    kept = {os.path.normpath(k) for k in after}
                    for k in list(want):
                        if os.path.normpath(k) in expect_visit and os.path.normpath(k) not in kept:
                            del want[k]
                    for k, mo in after.items():
                        want[os.path.normpath(k)] = mo.f['text']
                else:
                    want[os.path.normpath(root)] = after.f['text']
                if it.fs != want:
                    diff = sorted(set(it.fs.items()) ^ set(want.items()))
                    problems.setdefault(entry, f'{show}: afterwards the files are {dict(sorted(it.fs.items()))}, expected {dict(sorted(want.items()))} (difference: {diff[:3]})')
                    continue
                renames = {x[1]: x[2] for x in it.log if x[0] == 'rename'}
                written = [os.path.normpath(renames.get(x[1], x[1])) for x in it.log if x[0] == 'open-w']
                should = sorted(k for k in want if want[k] != files.get(k))
                if sorted(written) != should:
                    problems.setdefault(entry, f'{show}: the files opened for writing are {sorted(written)}, the ones whose text changed are {should} '
                                               f'(an unchanged file must not be rewritten, a changed one exactly once)')
                    continue
    if n < 60:
        raise AnalysisError(f'ED-SEM: only {n} sessions evaluated')
    # a second session on the same Editor object and the same interpreter (default arguments are evaluated once): it must start afresh
    for gname, files, globs, root, visit in graphs()[:2]:
        fs = dict(files)
        handed_all: list = []

        def b1(it_: Any, v: Any) -> None:
            handed_all.append(dict(v))
            for mo in v.values():
                mo.f['text'] = str(mo.f['text']) + '+one'

        def b2(it_: Any, v: Any) -> None:
            handed_all.append(dict(v))

        it = Interp(fs, globs, b1)
        it.made = set()
        me = possem.Obj('Editor', {'_parser': possem.Obj('Parser', {}, 'parser')}, 'editor')
        fn = ed.lookup('edit_file_recursive')
        n += 1
        try:
            it.call_function(fn, [me, root], {})
            after_one = dict(it.fs)
            it.body = b2
            it.yielded = False
            it.log = []
            it.call_function(fn, [me, root], {})
        except possem.Raised as ex:
            problems.setdefault('edit_file_recursive', f'two sessions in a row, {gname}: raises {ex}')
            continue
        second = handed_all[1] if len(handed_all) > 1 else {}
        stale = [k for k, mo in second.items() if mo.f['text'] != after_one.get(k)]
        reread = sorted(os.path.normpath(x[1]) for x in it.log if x[0] == 'read')
        if stale or reread != sorted(visit) or it.fs != after_one or any(any(x is y for y in handed_all[0].values()) for x in second.values()):
            problems.setdefault('edit_file_recursive', f'two sessions in a row on one Editor, {gname}: the second session reads {reread} and hands out '
                                                       f'{"models of the first session" if stale or not reread else "its own models"}; it must read every file again and hand out models '
                                                       f'of the files as they are now (state kept between sessions -- on the Editor, in a default argument -- leaks one session into the next)')
    # two sessions of ONE Editor that overlap (`with ed.edit_file_recursive(a) as fa, ed.edit_file_recursive(b) as fb:`): what a session read and what
    # it hands out belong to that call -- kept on the Editor, the inner session replaces the outer one's
    for outer, inner in (('edit_file_recursive', 'edit_file_recursive'), ('edit_file_recursive', 'edit_file'), ('edit_file', 'edit_file_recursive'), ('edit_file', 'edit_file')):
        files = {'d/a.bean': 'include b.bean\nA', 'd/b.bean': 'B', 'e/x.bean': 'include y.bean\nX', 'e/y.bean': 'Y'}
        fs = dict(files)
        fo, fi = ed.lookup(outer), ed.lookup(inner)
        me = possem.Obj('Editor', {'_parser': possem.Obj('Parser', {}, 'parser')}, 'editor')

        def edit(v: Any, key: str, tag: str) -> str:
            if isinstance(v, dict) and key not in v:
                return key            # the session did not reach that file: the single-session scenarios report it
            mo = v[key] if isinstance(v, dict) else v
            mo.f['text'] = str(mo.f['text']) + tag
            return key

        def inner_body(it_: Any, v: Any) -> None:
            edit(v, 'e/y.bean' if isinstance(v, dict) else 'e/x.bean', '+inner')

        def outer_body(it_: Any, v: Any, fi: Any = fi, me: Any = me) -> None:
            edit(v, 'd/b.bean' if isinstance(v, dict) else 'd/a.bean', '+outer')
            it_.body, it_.yielded = inner_body, False
            it_.call_function(fi, [me, 'e/x.bean'], {})
            it_.body, it_.yielded = outer_body, True

        it = Interp(fs, {}, outer_body)
        it.made = set()
        n += 1
        show = f'{outer} on d/a.bean with an {inner} session on e/x.bean of the same Editor opened and closed inside its with-block'
        try:
            it.call_function(fo, [me, 'd/a.bean'], {})
        except possem.Raised as ex:
            problems.setdefault(outer, f'{show}: raises {ex}')
            continue
        if any(entry_ in problems for entry_ in (outer, inner)):
            continue                  # already reported by a simpler scenario
        want = dict(files)
        want['d/b.bean' if outer == 'edit_file_recursive' else 'd/a.bean'] += '+outer'
        want['e/y.bean' if inner == 'edit_file_recursive' else 'e/x.bean'] += '+inner'
        renames = {x[1]: x[2] for x in it.log if x[0] == 'rename'}
        written = sorted(os.path.normpath(renames.get(x[1], x[1])) for x in it.log if x[0] == 'open-w')
        should = sorted(k for k in want if want[k] != files[k])
        if it.fs != want or written != should:
            gone = sorted(set(files) - set(it.fs))
            wrong = {k for k in set(want) | set(it.fs) if want.get(k) != it.fs.get(k)} | (set(written) ^ set(should))
            # the ledger under d/ is the outer session's, the one under e/ the inner session's: the session whose files come out wrong is reported
            for who in ([outer] if any(k.startswith('d/') for k in wrong) else []) + ([inner] if any(k.startswith('e/') for k in wrong) else []):
                problems.setdefault(who, f'{show}: afterwards the files are {dict(sorted(it.fs.items()))}, opened for writing: {written}'
                                           f'{"; deleted: " + str(gone) if gone else ""}; expected {dict(sorted(want.items()))} with only {should} written -- what a session '
                                           f'has read is state of that call; kept on the Editor object it is replaced by the overlapping session, and the outer session '
                                           f'then deletes / rewrites files according to the other ledger')
    for entry in ('edit_file', 'edit_file_recursive'):
        fn = ed.lookup(entry)
        ctx.check(entry not in problems, rid, f'editor:Editor.{entry}', 'sessions against the mock file system',
                  problems.get(entry, ''), fn.where if isinstance(fn, FuncInfo) else '', note=f'{n} sessions in all')
