"""ORIENT (C03, E3): separator / value alternation of the token chunks built by list-insertion code."""
from __future__ import annotations

import ast
import itertools
from typing import Any, Optional

from ..model import AnalysisError, FuncInfo, Program, norm, stmts_no_doc, walk_no_nested
from ..report import RuleContext


def _eval_int_test(e: ast.AST, env: dict[str, Any]) -> bool:
    if isinstance(e, ast.BoolOp):
        vals = [_eval_int_test(v, env) for v in e.values]
        return all(vals) if isinstance(e.op, ast.And) else any(vals)
    if isinstance(e, ast.UnaryOp) and isinstance(e.op, ast.Not):
        return not _eval_int_test(e.operand, env)
    if isinstance(e, ast.Name) and e.id in env:
        return bool(env[e.id])
    if isinstance(e, ast.Compare) and len(e.ops) == 1:
        def val(x: ast.AST) -> Any:
            if isinstance(x, ast.Name) and x.id in env:
                return env[x.id]
            if isinstance(x, ast.Constant):
                return x.value
            if isinstance(x, ast.Attribute) and norm(x) in env:
                return env[norm(x)]
            raise AnalysisError(f'ORIENT: operand {norm(x)} not modelled')
        a, b = val(e.left), val(e.comparators[0])
        op = e.ops[0]
        if isinstance(op, ast.Is):
            return a is b
        if isinstance(op, ast.IsNot):
            return a is not b
        if isinstance(op, ast.Eq):
            return a == b
        if isinstance(op, ast.NotEq):
            return a != b
        if isinstance(op, ast.Gt):
            return a > b
        if isinstance(op, ast.Lt):
            return a < b
        if isinstance(op, ast.GtE):
            return a >= b
        if isinstance(op, ast.LtE):
            return a <= b
    raise AnalysisError(f'ORIENT: condition {norm(e)} not modelled')


_LOCAL_CHUNKS: dict[str, str] = {}     # local names bound to a deep copy of the separators (filled per function by rule_orient)


def _eval_sep(e: ast.AST, env: dict[str, Any]) -> Optional[str]:
    """which separator tuple an expression denotes: 'S' (separators) or 'Sb' (separators_before), through local names and conditionals"""
    if isinstance(e, ast.Name) and isinstance(env.get(e.id), tuple) and env[e.id][:1] == ('sep',):
        return env[e.id][1]
    last = e.attr if isinstance(e, ast.Attribute) else e.id if isinstance(e, ast.Name) else None
    if last in ('separators_before', '_separators_before'):
        return 'Sb'
    if last in ('separators', '_separators'):
        return 'S'
    if isinstance(e, ast.IfExp):
        try:
            return _eval_sep(e.body if _eval_int_test(e.test, env) else e.orelse, env)
        except AnalysisError:
            return None
    return None


def _chunk_kind(arg: ast.AST, value_var: str, env: Optional[dict[str, Any]] = None) -> Optional[str]:
    if env is not None and isinstance(arg, ast.Call) and norm(arg.func) in ('copy.deepcopy', 'deepcopy') and len(arg.args) == 1:
        k = _eval_sep(arg.args[0], env)
        if k is not None:
            return k
    t = norm(arg)
    if isinstance(arg, ast.Name) and arg.id in _LOCAL_CHUNKS:
        t = _LOCAL_CHUNKS[arg.id]
    if t == f'{value_var}.detach()':
        return 'V'
    if t.startswith('copy.deepcopy(') and 'separators_before' in t:
        return 'Sb'
    if t.startswith('copy.deepcopy(') and 'separators' in t:
        return 'S'
    return None


def _run_loop(fn: FuncInfo, loop: ast.For, env: dict[str, Any], n_values: int, acc_var: str) -> tuple[list[str], dict[str, Any]]:
    """abstractly run the chunk-building loop for n_values items; returns the chunk kinds in order"""
    tgt = loop.target
    if isinstance(tgt, ast.Tuple) and len(tgt.elts) == 2:
        ivar, vvar = norm(tgt.elts[0]), norm(tgt.elts[1])
    else:
        raise AnalysisError('ORIENT: loop is not `for i, value in enumerate(...)`')
    out: list[str] = []
    env = dict(env)

    def run(stmts: list[ast.stmt]) -> None:
        for st in stmts:
            if isinstance(st, ast.If):
                run(st.body if _eval_int_test(st.test, env) else st.orelse)
            elif isinstance(st, ast.Expr) and isinstance(st.value, ast.Call) and isinstance(st.value.func, ast.Attribute) \
                    and norm(st.value.func.value) == acc_var and st.value.func.attr in ('extend', 'append'):
                k = _chunk_kind(st.value.args[0], vvar, env)
                if k is None:
                    raise AnalysisError(f'ORIENT: chunk source {norm(st.value.args[0])} not modelled')
                out.append(k)
            elif isinstance(st, ast.Assign) and isinstance(st.targets[0], ast.Name) and st.targets[0].id != acc_var:
                nm = st.targets[0].id
                k_ = _eval_sep(st.value, env)
                env[nm] = ('sep', k_) if k_ is not None else ('expr', norm(st.value))
            elif isinstance(st, ast.Assert):
                pass
            else:
                raise AnalysisError(f'ORIENT: statement {norm(st)[:60]} in {fn.qualname} not modelled')

    for i in range(n_values):
        env[ivar] = i
        run(loop.body)
    return out, env


def rule_orient(ctx: RuleContext, p: Program, rid: str) -> None:
    ctx.rule(rid, 'token chunks built for a list insertion alternate separators and values and are oriented to the anchor: after an '
                  'existing item (index > 0): (S V)+; at the head before remaining items: (V S)+ anchored just before the first item; '
                  'into an empty list: Sb V (S V)*; evaluated for 1..3 values over all guard valuations')
    w = p.cls('RepeatedNodeWrapper', 'models.internal.properties')
    f = p.method(w, '_insert_tokens', inherited=False)
    loops = [l for l in stmts_no_doc(f.node.body) if isinstance(l, ast.For)]
    if len(loops) != 1:
        raise AnalysisError('ORIENT: chunk loop of _insert_tokens not found')
    index_p, length_p = f.params[1], f.params[3]
    _LOCAL_CHUNKS.clear()
    for a in stmts_no_doc(f.node.body):
        if isinstance(a, ast.Assign) and len(a.targets) == 1 and isinstance(a.targets[0], ast.Name) and norm(a.value).startswith('copy.deepcopy(') \
                and 'separators' in norm(a.value):
            _LOCAL_CHUNKS[a.targets[0].id] = norm(a.value)      # whether one copy may be used for several items is SEP-FRESH's business
    n = 0
    for index, length, nv in itertools.product([0, 2], [0, 3], [1, 2, 3]):
        if index and not length:
            continue        # inserting after an existing item implies remaining-length bookkeeping > 0 is irrelevant: use length=any
        env = {index_p: index, length_p: length, 'separators_before_last': ('tok', 'before-first')}
        seq, env2 = _run_loop(f, loops[0], env, nv, 'tokens')
        if index > 0:
            want = ['S', 'V'] * nv
            ref_ok = env2.get('ref', ('expr', 'prev_last')) == ('expr', 'prev_last') or 'ref' not in env2
        elif length:
            want = ['V', 'S'] * nv
            ref_ok = env2.get('ref') in (('expr', 'separators_before_last'),)
        else:
            want = ['Sb', 'V'] + ['S', 'V'] * (nv - 1)
            ref_ok = 'ref' not in env2
        n += 1
        case = f'index{"=0" if not index else ">0"} remaining{"=0" if not length else ">0"} values={nv}'
        ctx.check(seq == want and ref_ok, rid, 'models.internal.properties:RepeatedNodeWrapper._insert_tokens', case,
                  f'{case}: builds {" ".join(seq)} (anchor {"moved to the token before the first item" if "ref" in env2 else "previous item / placeholder"}); '
                  f'the list layout requires {" ".join(want)}: separators end up doubled or missing next to a neighbour', f.where,
                  note=' '.join(seq))
    # the initial anchor is the previous item's last token / the placeholder
    init = [a for a in stmts_no_doc(f.node.body) if isinstance(a, ast.Assign) and norm(a.targets[0]) == 'ref']
    ctx.check(len(init) == 1 and norm(init[0].value) == f'self._prev_last({index_p})', rid,
              'models.internal.properties:RepeatedNodeWrapper._insert_tokens: anchor', norm(init[0].value) if init else '',
              'the default anchor is not self._prev_last(index)', f.where)
    ins = [c for c in walk_no_nested(f.node) if isinstance(c, ast.Call) and isinstance(c.func, ast.Attribute) and c.func.attr.startswith('insert_')]
    ctx.check(len(ins) == 1 and ins[0].func.attr == 'insert_after' and [norm(a) for a in ins[0].args] == ['ref', 'tokens'], rid,  # type: ignore[union-attr]
              'models.internal.properties:RepeatedNodeWrapper._insert_tokens: insertion', norm(ins[0])[:80] if ins else '',
              'the chunk list is not inserted once with insert_after(ref, tokens)', f.where)
    # Repeated.from_children
    rp = p.cls('Repeated', 'models.internal.repeated')
    g = p.method(rp, 'from_children', inherited=False)
    loops = [l for l in stmts_no_doc(g.node.body) if isinstance(l, ast.For) and any(isinstance(x, ast.Call) and norm(x.func).endswith('.detach') for x in ast.walk(l))]
    if len(loops) != 1:
        raise AnalysisError('ORIENT: chunk loop of Repeated.from_children not found')
    for sb, nv in itertools.product([None, ('tuple',)], [1, 2, 3]):
        env0: dict[str, Any] = {'separators_before': sb}
        for a in stmts_no_doc(g.node.body):
            if a is loops[0]:
                break
            if isinstance(a, ast.Assign) and len(a.targets) == 1 and isinstance(a.targets[0], ast.Name):
                k_ = _eval_sep(a.value, env0)
                if k_ is not None:
                    env0[a.targets[0].id] = ('sep', k_)
        seq, _ = _run_loop(g, loops[0], env0, nv, 'tokens')
        want = (['Sb', 'V'] if sb is not None else ['S', 'V']) + ['S', 'V'] * (nv - 1)
        n += 1
        ctx.check(seq == want, rid, 'models.internal.repeated:Repeated.from_children', f'separators_before {"given" if sb else "None"} values={nv}',
                  f'builds {" ".join(seq)}, expected {" ".join(want)}', g.where, note=' '.join(seq))
    if n < 12:
        raise AnalysisError('ORIENT: too few cases evaluated')
