"""BC-LINE -- symbolic evaluation of BlockComment._format_value, one output line at a time.

The writer is evaluated from its AST over *string templates*: sequences of the symbols <indent> (blanks only, by the
property's own domain), <line> (one line of the value, with its line end) and literals.  f-strings, +, local bindings,
conditional expressions on the "is this line empty" test and the strip family are interpreted on templates; anything else
is an analysis error.  Two cases are evaluated: the line is empty after removing its line end, and it is not.

Obligation, for both cases: output line == <indent> ';' S <line>, with S == ' ' for a non-empty line and S in {'', ' '} for an
empty one.  The indent and the semicolon must be there on *every* line because the grammar's BLOCK_COMMENT is either all
lines unindented or all lines indented (a line that loses its indent ends the token: the comment of a posting splits and
the stray line de-dents the transaction), and the reader takes the indent from the first line only; S is what
_parse_value removes again (agreement on the emptiness test itself is BC-SPACED's business).
"""
from __future__ import annotations

import ast
from typing import Optional

from ..model import AnalysisError, FuncInfo, Program, norm, stmts_no_doc
from ..report import RuleContext

WS = ' \t\n\r\x0b\x0c'
Part = tuple  # ('indent',) | ('line',) | ('lit', text)


def _merge(parts: list[Part]) -> list[Part]:
    out: list[Part] = []
    for p in parts:
        if p[0] == 'lit':
            if not p[1]:
                continue
            if out and out[-1][0] == 'lit':
                out[-1] = ('lit', out[-1][1] + p[1])
                continue
        out.append(p)
    return out


def show(parts: list[Part]) -> str:
    return ' + '.join({'indent': '<indent>', 'line': '<line>'}.get(p[0]) or repr(p[1]) for p in parts) or "''"


class TemplateEval:
    def __init__(self, fn: FuncInfo, indent: str, line: str, blank: bool) -> None:
        self.fn = fn
        self.indent = indent
        self.line = line
        self.blank = blank

    def err(self, e: ast.AST, what: str) -> AnalysisError:
        return AnalysisError(f'BC-LINE: {self.fn.qualname}: unsupported {what}: `{norm(e)[:80]}`')

    def truth(self, e: ast.AST, env: dict[str, list[Part]]) -> bool:
        if isinstance(e, ast.UnaryOp) and isinstance(e.op, ast.Not):
            return not self.truth(e.operand, env)
        if isinstance(e, ast.Call) and isinstance(e.func, ast.Attribute) and e.func.attr in ('rstrip', 'strip') \
                and isinstance(e.func.value, ast.Name) and e.func.value.id == self.line and len(e.args) <= 1:
            # "<line> without its line end is non-empty"; which characters count as line end is compared with the reader by BC-SPACED
            return not self.blank
        if isinstance(e, ast.Name) and e.id in env:
            v = env[e.id]
            if v and v[0][0] == 'bool':
                return bool(v[0][1])
        raise self.err(e, 'condition')

    def strip(self, parts: list[Part], left: bool, right: bool, chars: str, e: ast.AST) -> list[Part]:
        parts = list(parts)

        def eat(seq: list[Part]) -> list[Part]:
            # strip from the left end of seq
            while seq:
                p = seq[0]
                if p[0] == 'indent':
                    if all(c in chars for c in ' \t'):
                        seq = seq[1:]
                        continue
                    raise self.err(e, 'strip of an indent with a character set that does not cover blanks')
                if p[0] == 'line':
                    if self.blank and all(c in chars for c in '\r\n'):
                        seq = seq[1:]
                        continue
                    raise self.err(e, 'strip reaching the text of a line')
                text = p[1].lstrip(chars)
                if text:
                    seq = [('lit', text)] + seq[1:]
                    break
                seq = seq[1:]
            return seq

        def eat_right(seq: list[Part]) -> list[Part]:
            while seq:
                p = seq[-1]
                if p[0] == 'indent':
                    if all(c in chars for c in ' \t'):
                        seq = seq[:-1]
                        continue
                    raise self.err(e, 'strip of an indent with a character set that does not cover blanks')
                if p[0] == 'line':
                    if self.blank and all(c in chars for c in '\r\n'):
                        seq = seq[:-1]
                        continue
                    raise self.err(e, 'strip reaching the text of a line')
                text = p[1].rstrip(chars)
                if text:
                    seq = seq[:-1] + [('lit', text)]
                    break
                seq = seq[:-1]
            return seq

        if left:
            parts = eat(parts)
        if right:
            parts = eat_right(parts)
        return parts

    def ev(self, e: ast.AST, env: dict[str, list[Part]]) -> list[Part]:
        if isinstance(e, ast.Constant) and isinstance(e.value, str):
            return [('lit', e.value)]
        if isinstance(e, ast.Name):
            if e.id in env:
                return list(env[e.id])
            if e.id == self.indent:
                return [('indent',)]
            if e.id == self.line:
                return [('line',)]
            raise self.err(e, 'name')
        if isinstance(e, ast.JoinedStr):
            out: list[Part] = []
            for v in e.values:
                if isinstance(v, ast.Constant):
                    out.append(('lit', str(v.value)))
                elif isinstance(v, ast.FormattedValue) and v.format_spec is None and v.conversion == -1:
                    out.extend(self.ev(v.value, env))
                else:
                    raise self.err(e, 'format spec / conversion')
            return _merge(out)
        if isinstance(e, ast.BinOp) and isinstance(e.op, ast.Add):
            return _merge(self.ev(e.left, env) + self.ev(e.right, env))
        if isinstance(e, ast.IfExp):
            return self.ev(e.body if self.truth(e.test, env) else e.orelse, env)
        if isinstance(e, ast.Call) and isinstance(e.func, ast.Attribute) and e.func.attr in ('strip', 'lstrip', 'rstrip') and len(e.args) <= 1 \
                and not e.keywords:
            chars = WS
            if e.args:
                if not (isinstance(e.args[0], ast.Constant) and isinstance(e.args[0].value, str)):
                    raise self.err(e, 'strip argument')
                chars = e.args[0].value
            base = self.ev(e.func.value, env)
            return _merge(self.strip(base, e.func.attr in ('strip', 'lstrip'), e.func.attr in ('strip', 'rstrip'), chars, e))
        if isinstance(e, ast.Call) and isinstance(e.func, ast.Attribute) and e.func.attr in ('removesuffix', 'removeprefix') and len(e.args) == 1 \
                and isinstance(e.args[0], ast.Constant) and isinstance(e.args[0].value, str):
            base = self.ev(e.func.value, env)
            arg = e.args[0].value
            if e.func.attr == 'removesuffix' and base and base[-1][0] == 'lit' and (base[-1][1].endswith(arg) or len(base[-1][1]) >= len(arg)):
                return _merge(base[:-1] + [('lit', base[-1][1].removesuffix(arg))])
            if e.func.attr == 'removeprefix' and base and base[0][0] == 'lit' and (base[0][1].startswith(arg) or len(base[0][1]) >= len(arg)):
                return _merge([('lit', base[0][1].removeprefix(arg))] + base[1:])
            raise self.err(e, 'removeprefix/removesuffix on a symbolic end')
        if isinstance(e, ast.Call) and isinstance(e.func, ast.Name) and e.func.id == 'str' and len(e.args) == 1:
            return self.ev(e.args[0], env)
        raise self.err(e, 'expression')


def line_templates(p: Program) -> tuple[FuncInfo, dict[bool, list[Part]]]:
    bc = p.cls('BlockComment', 'models.block_comment')
    fv = p.method(bc, '_format_value', inherited=False)
    if len(fv.params) != 3:
        raise AnalysisError('BC-LINE: BlockComment._format_value no longer takes (cls, indent, value)')
    indent, value = fv.params[1], fv.params[2]
    body = stmts_no_doc(fv.node.body)
    if not body or not isinstance(body[-1], ast.Return) or body[-1].value is None:
        raise AnalysisError('BC-LINE: _format_value does not end in a return')
    ret = body[-1].value
    if not (isinstance(ret, ast.Call) and isinstance(ret.func, ast.Attribute) and ret.func.attr == 'join'
            and isinstance(ret.func.value, ast.Constant) and ret.func.value.value == '' and len(ret.args) == 1
            and isinstance(ret.args[0], (ast.GeneratorExp, ast.ListComp))):
        raise AnalysisError(f'BC-LINE: _format_value does not return \'\'.join(<per-line expression> for line in ...): `{norm(ret)[:80]}`')
    gen = ret.args[0]
    if len(gen.generators) != 1 or gen.generators[0].ifs or not isinstance(gen.generators[0].target, ast.Name):
        raise AnalysisError('BC-LINE: the per-line generator filters or nests')
    it = gen.generators[0].iter
    if not (isinstance(it, ast.Call) and len(it.args) == 1 and isinstance(it.args[0], ast.Name) and it.args[0].id == value
            and norm(it.func) in ('_splitlines',)):
        raise AnalysisError(f'BC-LINE: lines are not taken from _splitlines({value}): `{norm(it)}`')
    line = gen.generators[0].target.id
    out: dict[bool, list[Part]] = {}
    for blank in (False, True):
        te = TemplateEval(fv, indent, line, blank)
        env: dict[str, list[Part]] = {}
        for st in body[:-1]:
            if isinstance(st, ast.Assign) and len(st.targets) == 1 and isinstance(st.targets[0], ast.Name):
                env[st.targets[0].id] = te.ev(st.value, env)
            elif isinstance(st, ast.Expr) and isinstance(st.value, ast.Constant):
                continue
            else:
                raise te.err(st, 'statement')
        out[blank] = _merge(te.ev(gen.elt, env))
    return fv, out


def rule_bc_line(ctx: RuleContext, p: Program, rid: str) -> None:
    ctx.rule(rid, 'BlockComment._format_value, evaluated symbolically per line: every output line is <indent> + ";" + S + <line> with '
                  'S == " " for a line that is non-empty without its line end and S in {"", " "} for an empty one (indent and '
                  'semicolon on every line, nothing else added or removed)')
    fv, t = line_templates(p)
    site = 'models.block_comment:BlockComment._format_value'
    want = {False: [[('indent',), ('lit', '; '), ('line',)]],
            True: [[('indent',), ('lit', ';'), ('line',)], [('indent',), ('lit', '; '), ('line',)]]}
    for blank in (False, True):
        kind = 'empty line' if blank else 'non-empty line'
        ok = t[blank] in want[blank]
        why = ''
        if not ok:
            got = t[blank]
            if not got or got[0] != ('indent',):
                why = ('the line does not start with the comment\'s indent: inside a posting / meta item the grammar then ends the '
                       'BLOCK_COMMENT token at this line (its lines are all indented or all unindented) and the stray line de-dents '
                       'the entry, so the constructed text no longer parses back')
            elif ('line',) not in got:
                why = 'the text of the line is dropped'
            else:
                why = 'the characters between indent and text are not ";" plus the blank that _parse_value removes'
        ctx.check(ok, rid, site, kind, f'for a {kind} _format_value writes {show(t[blank])} where {" or ".join(show(w) for w in want[blank])} '
                                       f'is required: {why}', fv.where, note=f'{kind}: {show(t[blank])}')
