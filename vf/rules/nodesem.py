"""NODE-SEM (C03, C05, C19): the list protocol of RepeatedNodeWrapper, interpreted at token level.

The raw wrapper of a repeated field is two things at once: a Python list of child nodes (`Repeated.items`) and a stretch of the token
store laid out as  <placeholder> [<separators_before> item0 (<separators> item_k)*].  Every mutator has to keep both in step.  Here the
mutators -- with the helpers they really call (_insert_tokens, _del_tokens, _prev_last, drop_many, the index helpers) -- are interpreted
from their ASTs on a mock store that is a flat list of abstract tokens, for every small list and every index / slice / value count, and
the outcome is compared with what a plain list does plus the canonical layout of the tokens."""
from __future__ import annotations

import ast
import itertools
from typing import Any, Optional

from ..model import AnalysisError, ClassInfo, FuncInfo, Program, norm
from ..report import RuleContext


def rule_node_sem(ctx: RuleContext, p: Program, rid: str, max_items: int = 3) -> None:
    from . import possem
    from .tokenstore import TS
    ctx.rule(rid, 'RepeatedNodeWrapper (__delitem__, __setitem__, insert, append, extend, pop, clear, drop_many and their helpers), interpreted on '
                  'lists of 0..%d two-token items laid out in a mock store as <context> <placeholder> [<separators_before> item (<separators> '
                  'item)*] <context>: for every integer index and every slice (bounds over the whole range and beyond, steps +-1, +-2) and 0..2 '
                  'new items, the item list afterwards is what a Python list gives (same exceptions), and the store holds exactly the canonical '
                  'layout of that list -- every surviving item with its own tokens, contiguous and in order, one separator run between '
                  'neighbours, nothing of a removed item left, the context untouched; a refused call leaves both as they were. Read side: every Sequence '
                  'method the wrapper spells itself (index with every start / stop, count, in, iteration both ways, item and slice reads, remove) on '
                  'lists whose items may have EQUAL CONTENT (patterns over two letters; models compare by content) answers as a Python list of such '
                  'values does -- one pass, the first element that is the argument or equals it' % max_items)
    m = p.module('models.internal.properties')
    w = p.cls('RepeatedNodeWrapper', 'models.internal.properties')
    idx_mod = p.module('models.internal.indexes')
    ts = TS(p)

    class Interp(possem.PosInterp):
        tag = 'NODE-SEM'

        def __init__(self, me: Any, doc: list) -> None:
            super().__init__(ts, [], module=m)
            self.me, self.doc = me, doc

        def method(self, cls: str, name: str) -> Any:            # type: ignore[override]
            if cls == 'RepeatedNodeWrapper':
                f = w.lookup(name)
                return f if isinstance(f, FuncInfo) else None
            return super().method(cls, name)

        def index_of(self, sl: Any, env: dict) -> Any:
            # the subscript of `self[...]`: an index, or a slice display (`self[:]`, `self[a:b]`)
            if isinstance(sl, ast.Slice):
                return slice(self.expr(sl.lower, env), self.expr(sl.upper, env), self.expr(sl.step, env))
            return self.expr(sl, env)

        def idx(self, t: Any, node: Any) -> int:
            for i, x in enumerate(self.doc):
                if x is t:
                    return i
            raise possem.Raised('ValueError: token is not in the store')

        def store_call(self, name: str, args: list, node: Any) -> Any:
            d = self.doc
            if name in ('get_prev', 'get_next'):
                i = self.idx(args[0], node)
                j = i - 1 if name == 'get_prev' else i + 1
                return d[j] if 0 <= j < len(d) else None
            if name in ('insert_after', 'insert_before'):
                ref, new = args[0], list(args[1])
                i = (0 if ref is None else self.idx(ref, node) + 1) if name == 'insert_after' else (0 if ref is None else self.idx(ref, node))
                if any(any(x is y for y in d) for x in new):
                    raise possem.Raised('ValueError: Token already in a store.')
                d[i:i] = new
                return None
            if name == 'remove':
                i = self.idx(args[0], node)
                j = self.idx(args[1], node) + 1 if len(args) > 1 and args[1] is not None else i + 1
                if j <= i:
                    raise possem.Raised('ValueError: reversed range handed to remove()')
                del d[i:j]
                return None
            if name == 'splice':
                new, a, b = list(args[0]), args[1], args[2] if len(args) > 2 else None
                i = 0 if a is None else self.idx(a, node)
                j = i if b is None else self.idx(b, node) + 1
                if j < i:
                    raise possem.Raised('ValueError: reversed range handed to splice()')
                old = d[i:j]
                if any(any(x is y for y in d) and not any(x is y for y in old) for x in new):
                    raise possem.Raised('ValueError: Token already in a store.')
                d[i:j] = new
                return None
            raise self.err(node, f'store method {name}')

        def expr(self, e: Any, env: dict) -> Any:                 # type: ignore[override]
            if isinstance(e, ast.Call) and isinstance(e.func, ast.Attribute):
                f = e.func
                if isinstance(f.value, ast.Name) and f.value.id == 'indexes' and 'indexes' not in env:
                    fn = next((x for x in p.functions_in(idx_mod) if x.qualname == f.attr), None)
                    if fn is None:
                        raise self.err(e, f'indexes.{f.attr} not found')
                    return self.call_function(fn, [self.expr(a, env) for a in e.args], {k.arg: self.expr(k.value, env) for k in e.keywords})
                if norm(f) in ('base.TokenStore.from_tokens', 'TokenStore.from_tokens'):
                    return possem.Obj('OwnStore', {'tokens': list(self.iter_of(self.expr(e.args[0], env), e))}, 'own store')
                bv = self.expr(f.value, env) if not (isinstance(f.value, ast.Name) and f.value.id not in env) else None
                if isinstance(bv, possem.Obj) and bv.cls == 'Store':
                    return self.store_call(f.attr, [self.expr(a, env) for a in e.args], e)
                if isinstance(bv, possem.Obj) and bv.cls == 'Item':
                    if f.attr == 'detach':
                        toks = bv.f['tokens']
                        # the gate of RawModel.detach (DETACH-GATE): a tree model that belongs to a store it does not span refuses -- it goes by the
                        # store the model was attached to, not by where its tokens are: an item whose tokens were just deleted still refuses
                        if any(any(x is y for y in self.doc) for x in toks) or (isinstance(bv.f.get('store'), possem.Obj) and bv.f['store'].cls == 'Store'):
                            raise possem.Raised('ValueError: Cannot reuse node.')
                        return list(toks)
                    if f.attr == 'reattach':
                        bv.f['store'] = self.expr(e.args[0], env)
                        return bv
                if bv is self.me and f.attr in ('__setitem__', '__delitem__', '__getitem__'):
                    fn2 = w.lookup(f.attr)
                    return self.call_function(fn2, [self.me] + [self.expr(a, env) for a in e.args], {})
            if isinstance(e, ast.Call) and isinstance(e.func, ast.Name) and e.func.id == 'isinstance' and 'isinstance' not in env and len(e.args) == 2:
                v = self.expr(e.args[0], env)
                t = norm(e.args[1])
                if t == 'int':
                    return isinstance(v, int) and not isinstance(v, bool)
                if t == 'slice':
                    return isinstance(v, slice)
                if t.rsplit('.', 1)[-1] in ('Iterable', 'Collection', 'Sequence'):
                    return isinstance(v, (list, tuple, range, possem._It))
                last_ = t.rsplit('.', 1)[-1]
                if last_ in ('RawTreeModel', 'RawModel', 'RawTokenModel') and isinstance(v, possem.Obj):
                    # the items of this rule are tree models (two tokens each); the tokens of the mock document are token models
                    if v.cls == 'Item':
                        return last_ in ('RawTreeModel', 'RawModel')
                    if v.cls == 'Tok':
                        return last_ in ('RawTokenModel', 'RawModel')
                raise self.err(e, 'isinstance against a class this rule does not model')
            if isinstance(e, ast.Subscript) and not (isinstance(e.value, ast.Name) and e.value.id not in env) and self.expr(e.value, env) is self.me:
                i = self.index_of(e.slice, env)
                return self.call_function(w.lookup('__getitem__'), [self.me, i], {})
            return super().expr(e, env)

        def assign(self, t: Any, v: Any, env: dict) -> None:      # type: ignore[override]
            if isinstance(t, ast.Subscript) and self.expr(t.value, env) is self.me:
                self.call_function(w.lookup('__setitem__'), [self.me, self.index_of(t.slice, env), v], {})
                return
            super().assign(t, v, env)

        def stmt(self, st: Any, env: dict) -> None:               # type: ignore[override]
            if isinstance(st, ast.Delete) and len(st.targets) == 1 and isinstance(st.targets[0], ast.Subscript) \
                    and self.expr(st.targets[0].value, env) is self.me:
                self.call_function(w.lookup('__delitem__'), [self.me, self.index_of(st.targets[0].slice, env)], {})
                return
            if isinstance(st, ast.Raise):
                raise possem.Raised(norm(st.exc.func) if isinstance(st.exc, ast.Call) else norm(st.exc) if st.exc is not None else 'raise')
            super().stmt(st, env)

    def tok(label: str, kind: str = 'T', text: str = 'x') -> Any:
        # texts: the place-holder and the LAST token of every item are zero-width (a line-level item -- a posting, a directive -- ends with
        # its end-of-line mark), separators are blanks, everything else has text
        return possem.Obj('Tok', {'kind': kind, 'raw_text': '' if kind == 'P' else ' ' if kind in ('S', 'Sb') else text}, label)

    def mk_item(label: str) -> Any:
        a, b = tok(f'{label}.first'), tok(f'{label}.last', text='')
        return possem.Obj('Item', {'first_token': a, 'last_token': b, 'tokens': [a, b], 'store': None}, label)

    def build(n: int) -> tuple[Any, list, list, Any, Any]:
        store = possem.Obj('Store', {}, 'store')
        left, ph, right = tok('LEFT', 'ctx'), tok('placeholder', 'P'), tok('RIGHT', 'ctx')
        items = [mk_item(f'item{i}') for i in range(n)]
        doc = [left, ph]
        for i, it in enumerate(items):
            doc.append(tok(f'sepb{i}' if i == 0 else f'sep{i}', 'Sb' if i == 0 else 'S'))
            doc += it.f['tokens']
            it.f['store'] = store
        doc.append(right)
        rep = possem.Obj('Repeated', {'items': list(items), 'token_store': store, 'placeholder': ph}, 'repeated')
        me = possem.Obj('RepeatedNodeWrapper', {'_repeated': rep, '_field': possem.Obj('Field', {}, 'field'), '_update_handlers': [],
                                                '_separators': (tok('S-proto', 'S'),), '_separators_before': (tok('Sb-proto', 'Sb'),)}, 'wrapper')
        return me, doc, items, left, right

    def layout_problem(doc: list, items: list, left: Any, right: Any, removed: list) -> Optional[str]:
        if not doc or doc[0] is not left or doc[-1] is not right:
            return 'the tokens around the field (context) were touched'
        if doc[1].f.get('kind') != 'P':
            return 'the field\'s placeholder is no longer in front of its items'
        pos = 2
        for k, it in enumerate(items):
            if pos >= len(doc) - 1:
                return f'{it.label} has no tokens in the store'
            sep = doc[pos]
            if sep.f.get('kind') not in ('S', 'Sb'):
                return f'no separator in front of {it.label} (found {sep.label})'
            pos += 1
            for t in it.f['tokens']:
                if pos >= len(doc) or doc[pos] is not t:
                    return (f'the tokens of {it.label} are not contiguous at their place: found {doc[pos].label if pos < len(doc) else "the end"} where '
                            f'{t.label} belongs (something was spliced into a sibling, or a sibling lost a token)')
                pos += 1
        if pos != len(doc) - 1:
            return f'{len(doc) - 1 - pos} token(s) are left over behind the last item ({", ".join(x.label for x in doc[pos:-1][:3])})'
        for it in removed:
            if any(any(x is y for y in doc) for x in it.f['tokens']):
                return f'tokens of the removed {it.label} are still in the store'
        return None

    ops: list[tuple[str, Any]] = []
    problems: dict[str, str] = {}
    cases = 0

    def run_case(n: int, meth: str, args_fn: Any, ref_fn: Any, show: str) -> None:
        nonlocal cases
        me, doc, items, left, right = build(n)
        new_items = [mk_item(f'new{k}') for k in range(2)]
        new_items += items          # positions 2.. : the items already in the list (for `w[i] = w[i]`)
        args = args_fn(new_items)
        ref = list(items)
        want_exc = None
        try:
            ref_fn(ref, new_items)
        except (IndexError, ValueError) as ex:
            want_exc = type(ex).__name__
        before_doc = list(doc)
        it = Interp(me, doc)
        cases += 1
        fn = w.lookup(meth)
        got_exc = None
        try:
            it.call_function(fn, [me, *args], {})
        except possem.Raised as ex:
            got_exc = str(ex).split(':')[0].split('(')[0].strip()
        except (IndexError, ValueError) as ex:
            got_exc = type(ex).__name__
        where_ = f'{n} items, {show}'
        if want_exc or got_exc:
            if (want_exc or '') not in (got_exc or '') or not want_exc:
                problems.setdefault(meth, f'{where_}: {"raises " + got_exc if got_exc else "does not raise"}, a list {"raises " + want_exc if want_exc else "accepts it"}')
            elif [id(x) for x in doc] != [id(x) for x in before_doc] or [id(x) for x in me.f['_repeated'].f['items']] != [id(x) for x in items]:
                problems.setdefault(meth, f'{where_}: refused with {got_exc}, but the store or the item list had already been changed')
            return
        now = me.f['_repeated'].f['items']
        if [id(x) for x in now] != [id(x) for x in ref]:
            problems.setdefault(meth, f'{where_}: the item list becomes [{", ".join(x.label for x in now)}], a Python list gives [{", ".join(x.label for x in ref)}]')
            return
        removed = [x for x in items if not any(x is y for y in ref)]
        lp = layout_problem(doc, list(now), left, right, removed)
        if lp:
            problems.setdefault(meth, f'{where_}: {lp}; store: [{" ".join(x.label for x in doc)}]')

    bounds = lambda n: [None, *range(-n - 1, n + 2)]                                   # noqa: E731
    for n in range(0, max_items + 1):
        for i in range(-n - 1, n + 2):
            run_case(n, '__delitem__', lambda nv, i=i: [i], lambda r, nv, i=i: r.__delitem__(i), f'del w[{i}]')
            run_case(n, '__setitem__', lambda nv, i=i: [i, nv[0]], lambda r, nv, i=i: r.__setitem__(i, nv[0]), f'w[{i}] = new0')
            run_case(n, 'insert', lambda nv, i=i: [i, nv[0]], lambda r, nv, i=i: r.insert(i, nv[0]), f'w.insert({i}, new0)')
            run_case(n, 'pop', lambda nv, i=i: [i], lambda r, nv, i=i: r.pop(i), f'w.pop({i})')
            if 0 <= i < n:
                # what `w[i] += x` / `w[i] *= 2` ends with when the item's in-place operator returns the item itself: a no-op for a list
                run_case(n, '__setitem__', lambda nv, i=i: [i, nv[2 + i]], lambda r, nv, i=i: r.__setitem__(i, nv[2 + i]), f'w[{i}] = w[{i}] (the very same item)')
        run_case(n, 'append', lambda nv: [nv[0]], lambda r, nv: r.append(nv[0]), 'w.append(new0)')
        run_case(n, 'extend', lambda nv: [list(nv[:2])], lambda r, nv: r.extend(nv[:2]), 'w.extend([new0, new1])')
        run_case(n, 'extend', lambda nv: [[]], lambda r, nv: r.extend([]), 'w.extend([])')
        run_case(n, 'clear', lambda nv: [], lambda r, nv: r.clear(), 'w.clear()')
        if isinstance(w.lookup('reverse'), FuncInfo):
            # a reverse() the wrapper spells itself (the inherited one swaps items pairwise through __setitem__, which refuses attached nodes)
            run_case(n, 'reverse', lambda nv: [], lambda r, nv: r.reverse(), 'w.reverse()')
        for a, b in itertools.product(bounds(n), repeat=2):
            for step in (None, 1, -1, 2, -2):
                sl = slice(a, b, step)
                run_case(n, '__delitem__', lambda nv, sl=sl: [sl], lambda r, nv, sl=sl: r.__delitem__(sl), f'del w[{a}:{b}:{step}]')
                for k in (0, 1, 2):
                    run_case(n, '__setitem__', lambda nv, sl=sl, k=k: [sl, list(nv[:k])], lambda r, nv, sl=sl, k=k: r.__setitem__(sl, nv[:k]),
                             f'w[{a}:{b}:{step}] = {k} new item(s)')
        for sel in [s for k in range(0, n + 1) for s in itertools.combinations(range(n), k)]:
            run_case(n, 'drop_many', lambda nv, sel=sel: [list(sel)], lambda r, nv, sel=sel: r.__setitem__(slice(None), [x for j, x in enumerate(r) if j not in sel]),
                     f'w.drop_many({list(sel)})')
    # ---- the read side (round 10): every Sequence method the wrapper spells itself, on lists that hold items of EQUAL CONTENT
    # (the same posting twice, a repeated tag): models compare by content, so `index`, `count`, `in`, `remove` must answer as a list of
    # such values does -- one pass, first element that is the argument or equals it
    class _V:
        def __init__(self, val: str, label: str) -> None:
            self.val, self.label = val, label

        def __eq__(self, o: Any) -> bool:
            return isinstance(o, _V) and o.val == self.val

        __hash__ = None     # type: ignore[assignment]

    class ReadInterp(Interp):
        def same(self, x: Any, y: Any) -> bool:                    # type: ignore[override]
            if isinstance(x, possem.Obj) and isinstance(y, possem.Obj) and x.cls == 'Item' and y.cls == 'Item':
                return x is y or x.f.get('val') == y.f.get('val')
            return super().same(x, y)

    read_names = ['index', 'count', '__contains__', '__iter__', '__reversed__', '__getitem__', '__len__', 'remove']
    own_read = [nm for nm in read_names if isinstance(w.lookup(nm), FuncInfo)]
    read_cases = 0
    for n in range(0, max_items + 1):
        for pattern in itertools.product('ab', repeat=n):
            for meth in own_read:
                fn = w.lookup(meth)
                n_par = len(fn.node.args.args) + len(fn.node.args.posonlyargs) - 1
                queries: list = [None]
                if meth in ('index', 'count', '__contains__', 'remove'):
                    queries = [('own', j) for j in range(n)] + [('fresh', 'a'), ('fresh', 'b'), ('fresh', 'c')]
                for q in queries:
                    extra_sets: list = [()]
                    if meth == 'index' and n_par >= 3:
                        extra_sets = [()] + [(a_,) for a_ in range(-n - 1, n + 2)] + [(a_, b_) for a_ in range(-n - 1, n + 2) for b_ in range(-n - 1, n + 2)]
                    elif meth == '__getitem__':
                        extra_sets = [(i_,) for i_ in range(-n - 1, n + 2)] + [(slice(a_, b_, st_),) for a_ in bounds(n) for b_ in bounds(n) for st_ in (None, -1, 2, -2)]
                    for extra in extra_sets:
                        me, doc, items, left, right = build(n)
                        vs = []
                        for it_, ch in zip(items, pattern):
                            it_.f['val'] = ch
                            vs.append(_V(ch, it_.label))
                        arg_i = arg_v = None
                        if q is not None:
                            if q[0] == 'own':
                                arg_i, arg_v = items[q[1]], vs[q[1]]
                            else:
                                arg_i = mk_item(f'other item reading {q[1]!r}')
                                arg_i.f['val'] = q[1]
                                arg_v = _V(q[1], arg_i.label)
                        ref = list(vs)
                        want_exc, want = None, None
                        try:
                            if meth in ('__iter__', '__reversed__'):
                                want = [x.label for x in getattr(ref, meth)()]
                            elif meth == '__len__':
                                want = len(ref)
                            elif meth == '__getitem__':
                                r_ = ref[extra[0]]
                                want = [x.label for x in r_] if isinstance(r_, list) else r_.label
                            elif meth == 'remove':
                                ref.remove(arg_v)
                                want = [x.label for x in ref]
                            else:
                                want = getattr(ref, meth)(arg_v, *extra)
                        except (IndexError, ValueError) as ex:
                            want_exc = type(ex).__name__
                        interp = ReadInterp(me, doc)
                        read_cases += 1
                        got_exc, got = None, None
                        try:
                            r_ = interp.call_function(fn, [me] + ([arg_i] if q is not None else []) + list(extra), {})
                            if meth in ('__iter__', '__reversed__'):
                                got = [x.label for x in interp.iter_of(r_, fn.node)]
                            elif meth == '__getitem__':
                                got = [x.label for x in interp.iter_of(r_, fn.node)] if isinstance(r_, (list, tuple, possem._It)) else getattr(r_, 'label', r_)
                            elif meth == 'remove':
                                got = [x.label for x in me.f['_repeated'].f['items']]
                            else:
                                got = r_
                        except possem.Raised as ex:
                            got_exc = str(ex).split(':')[0].split('(')[0].strip()
                        except (IndexError, ValueError) as ex:
                            got_exc = type(ex).__name__
                        shown = (f'items reading [{", ".join(pattern)}] (equal letters: equal content), w.{meth}('
                                 f'{"" if q is None else ("item" + str(q[1]) if q[0] == "own" else "another item reading " + repr(q[1]))}'
                                 f'{", " if q is not None and extra else ""}{", ".join(map(str, extra))})')
                        if want_exc or got_exc:
                            if (want_exc or '') not in (got_exc or '') or not want_exc:
                                problems.setdefault(meth, f'{shown}: {"raises " + got_exc if got_exc else "answers " + repr(got)}, a list {"raises " + want_exc if want_exc else "answers " + repr(want)}')
                            continue
                        if got != want or (isinstance(want, bool) != isinstance(got, bool)):
                            problems.setdefault(meth, f'{shown}: answers {got!r}, a list of values answers {want!r}')
                        elif meth == 'remove':
                            gone = [x for x in items if x.label not in want]
                            lp = layout_problem(doc, [x for x in items if x.label in want], left, right, gone)
                            if lp:
                                problems.setdefault(meth, f'{shown}: {lp}')
    cases += read_cases
    for meth in own_read:
        fn = w.lookup(meth)
        ctx.check(meth not in problems, rid, f'models.internal.properties:RepeatedNodeWrapper.{meth}', 'list semantics with items of equal content',
                  f'RepeatedNodeWrapper.{meth}: {problems.get(meth, "")}', fn.where if isinstance(fn, FuncInfo) else '', note=f'{read_cases} read cases')
    if cases < 2000:
        raise AnalysisError(f'NODE-SEM: only {cases} cases evaluated')
    for meth in ('__delitem__', '__setitem__', 'insert', 'append', 'extend', 'pop', 'clear', 'drop_many') + (('reverse',) if isinstance(w.lookup('reverse'), FuncInfo) else ()):
        fn = w.lookup(meth)
        ctx.check(meth not in problems, rid, f'models.internal.properties:RepeatedNodeWrapper.{meth}', 'list semantics + canonical token layout',
                  f'RepeatedNodeWrapper.{meth}: {problems.get(meth, "")}', fn.where if isinstance(fn, FuncInfo) else '', note=f'{cases} cases in all')


# ====================================================================== UNORD-SEM (C03 / C09, added in round 7)
def rule_unord_sem(ctx: RuleContext, p: Program, rid: str) -> None:
    from . import possem
    from .tokenstore import TS
    ctx.rule(rid, 'unordered_node_property (the slot "the component of this kind" of a cost: date, label, merge mark, amount, ...), _get and '
                  '__set__ interpreted on every component list of up to 3 entries over {this kind, another kind} -- duplicates included, which '
                  'the grammar allows -- for prepend on / off: the getter reads the FIRST component of the kind; assigning a node replaces '
                  'exactly that one (or adds one, in front / behind, when there is none); assigning None removes exactly that one; every other '
                  'component stays, in place and in order')
    m = p.module('models.internal.properties')
    c = p.cls('unordered_node_property', 'models.internal.properties')
    getter, setter = c.lookup('_get'), c.lookup('__set__')
    if not isinstance(getter, FuncInfo) or not isinstance(setter, FuncInfo):
        raise AnalysisError('UNORD-SEM: unordered_node_property._get / __set__ not found')
    ts = TS(p)

    class Interp(possem.PosInterp):
        tag = 'UNORD-SEM'

        def instance_of(self, v: Any, cls_expr: Any, env: dict) -> bool:          # type: ignore[override]
            k = self.expr(cls_expr, env)
            return isinstance(v, possem.Obj) and isinstance(k, possem.Obj) and k.cls == 'Kind' and v.cls == k.f['name']

        def expr(self, e: Any, env: dict) -> Any:                 # type: ignore[override]
            if isinstance(e, ast.Call) and isinstance(e.func, ast.Name) and e.func.id == 'isinstance' and 'isinstance' not in env and len(e.args) == 2:
                return self.instance_of(self.expr(e.args[0], env), e.args[1], env)
            if isinstance(e, ast.Call) and isinstance(e.func, ast.Attribute):
                bv = self.expr(e.func.value, env) if not (isinstance(e.func.value, ast.Name) and e.func.value.id not in env) else None
                if isinstance(bv, possem.Obj) and bv.cls == 'InnerProp' and e.func.attr == '__get__':
                    return bv.f['list']
                if isinstance(bv, list) and e.func.attr == 'drop_many':
                    drop = set(self.iter_of(self.expr(e.args[0], env), e))
                    bv[:] = [x for i, x in enumerate(bv) if i not in drop]
                    return None
            return super().expr(e, env)

    problem = None
    n = 0
    for k in range(0, 4):
        for shape in itertools.product('MO', repeat=k):
            for prepend in (False, True):
                for assign_none in (True, False):
                    comps = [possem.Obj('Mine' if ch == 'M' else 'Other', {}, f'{"mine" if ch == "M" else "other"}{i}') for i, ch in enumerate(shape)]
                    before = list(comps)
                    me = possem.Obj('unordered_node_property', {'_inner_property': possem.Obj('InnerProp', {'list': comps}, 'inner'),
                                                                '_inner_type': possem.Obj('Kind', {'name': 'Mine'}, 'kind'), '_prepend': prepend}, 'prop')
                    owner = possem.Obj('Owner', {}, 'instance')
                    new = None if assign_none else possem.Obj('Mine', {}, 'new')
                    n += 1
                    show = f'components [{" ".join(x.label for x in before) or "-"}], prepend={prepend}, assigning {"None" if assign_none else "a node"}'
                    try:
                        got0 = Interp(ts, [], module=m).call_function(getter, [me, owner], {})
                        Interp(ts, [], module=m).call_function(setter, [me, owner, new], {})
                    except possem.Raised as ex:
                        problem = problem or f'{show}: raises {ex}'
                        continue
                    first = next((i for i, x in enumerate(before) if x.cls == 'Mine'), None)
                    if got0 is not (before[first] if first is not None else None):
                        problem = problem or f'{show}: the getter reads {got0!r}, the first component of the kind is {before[first].label if first is not None else None}'
                        continue
                    if first is None:
                        want = list(before) if new is None else ([new] + before if prepend else before + [new])
                    elif new is None:
                        want = before[:first] + before[first + 1:]
                    else:
                        want = before[:first] + [new] + before[first + 1:]
                    if [id(x) for x in comps] != [id(x) for x in want] and problem is None:
                        problem = (f'{show}: the components become [{" ".join(x.label for x in comps) or "-"}], expected '
                                   f'[{" ".join(x.label for x in want) or "-"}] -- only the component the getter reads may be touched; a second '
                                   f'component of the same kind is a sibling like any other')
    if n < 60:
        raise AnalysisError(f'UNORD-SEM: only {n} cases')
    ctx.check(problem is None, rid, 'models.internal.properties:unordered_node_property', 'first component of the kind', problem or '',
              setter.where, note=f'{n} component lists x prepend x value')
