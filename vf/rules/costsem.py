"""COST-SEM (C05, C09): the primitives FSM-COST trusts, interpreted.

FSM-COST evaluates the form-changing setters of CostSpec over a finite state machine in which `_into_unit_cost` / `_into_total_cost` are
primitives ("the cost becomes a unit / total cost").  This rule decides what those primitives do:

 * UnitCost.into_total_cost / TotalCost.into_unit_cost, against a mock store holding <context> <left brace> <components...> <right brace>
   <context>: afterwards the store holds, at the places of the two old braces, two fresh braces of the other kind (left at the left place,
   right at the right place) and every other token where it was; the cost that comes back is of the other class, lives in the same store,
   has exactly those two new tokens as its braces and the very same components object;
 * CostSpec._into_unit_cost / _into_total_cost put the cost that comes back into the slot the spec reads its cost from;
 * the `merge` setter: for (marker present / absent) x (True / False) the marker is present afterwards exactly if True was assigned, and a
   marker that is already as wished is left alone (the same token object).

The repository code is interpreted by the checker; nothing is run."""
from __future__ import annotations

import ast
from typing import Any, Optional

from ..model import Program, FuncInfo, AnalysisError, norm
from ..report import RuleContext
from . import possem


def rule_cost_sem(ctx: RuleContext, p: Program, rid: str) -> None:
    from .tokenstore import TS
    ctx.rule(rid, 'the primitives the cost state machine (FSM-COST) trusts, interpreted: UnitCost.into_total_cost / TotalCost.into_unit_cost against a mock '
                  'store -- two fresh braces of the other kind stand exactly where the old ones stood (left for left, right for right), every other '
                  'token is where it was, the cost returned is of the other class, in the same store, with those very tokens as its braces and the '
                  'same components object; CostSpec._into_unit_cost / _into_total_cost store what comes back in the slot the spec reads; the merge '
                  'setter leaves the asterisk present exactly if True was assigned and does not touch one that is already as wished')
    ts = TS(p)
    mod = p.module('models.cost')
    spec_mod = p.module('models.cost_spec')
    uc = p.cls('UnitCost', 'models.cost')
    tc = p.cls('TotalCost', 'models.cost')
    spec = p.cls('CostSpec', 'models.cost_spec')
    brace_rule: dict[str, str] = {}
    for name in ('LeftBrace', 'RightBrace', 'DblLeftBrace', 'DblRightBrace'):
        cands = [c for c in p.class_by_name.get(name, []) if not c.module.name.endswith('_test')]
        if not cands:
            raise AnalysisError(f'COST-SEM: token class {name} not found')
        r = p.class_const(cands[0], 'RULE')
        brace_rule[name] = r.value if isinstance(r, ast.Constant) else name

    def ctor_fields(c: Any) -> list[str]:
        init = c.lookup('__init__')
        if not isinstance(init, FuncInfo):
            raise AnalysisError(f'COST-SEM: {c.name}.__init__ not found')
        return [a.arg for a in init.node.args.args][1:]

    fields = {'UnitCost': ctor_fields(uc), 'TotalCost': ctor_fields(tc)}      # token_store, left, components, right (generated order)

    class Interp(possem.PosInterp):
        tag = 'COST-SEM'

        def __init__(self, doc: list, module: Any) -> None:
            super().__init__(ts, [], module=module)
            self.doc = doc

        def method(self, cls: str, name: str) -> Any:            # type: ignore[override]
            c = {'UnitCost': uc, 'TotalCost': tc, 'CostSpec': spec}.get(cls)
            if c is not None:
                f = c.lookup(name)
                return f if isinstance(f, FuncInfo) else None
            return super().method(cls, name)

        def expr(self, e: Any, env: dict) -> Any:                 # type: ignore[override]
            if isinstance(e, ast.Call) and isinstance(e.func, ast.Attribute) and e.func.attr == 'from_default' and isinstance(e.func.value, ast.Name) \
                    and e.func.value.id in brace_rule and e.func.value.id not in env:
                return possem.Obj('Tok', {'type': brace_rule[e.func.value.id], 'fresh': True}, f'new {e.func.value.id}')
            if isinstance(e, ast.Call) and isinstance(e.func, ast.Name) and e.func.id in ('UnitCost', 'TotalCost') and e.func.id not in env:
                a = [self.expr(x, env) for x in e.args]
                kw = {k.arg: self.expr(k.value, env) for k in e.keywords if k.arg}
                vals = dict(zip(fields[e.func.id], a))
                vals.update(kw)
                if set(vals) != set(fields[e.func.id]):
                    raise possem.Raised(f'TypeError: {e.func.id}({sorted(vals)})')
                return possem.Obj(e.func.id, {'ctor': vals}, f'new {e.func.id}')
            if isinstance(e, ast.Call) and isinstance(e.func, ast.Attribute) and e.func.attr in ('replace', 'splice', 'insert_after', 'insert_before', 'remove'):
                st = self.expr(e.func.value, env)
                if isinstance(st, possem.Obj) and st.cls == 'Store':
                    a = [self.expr(x, env) for x in e.args]
                    d = self.doc

                    def at(t: Any) -> int:
                        for i, x in enumerate(d):
                            if x is t:
                                return i
                        raise possem.Raised('ValueError: token is not in the store')
                    if e.func.attr == 'replace' and len(a) == 2:
                        if any(x is a[1] for x in d):
                            raise possem.Raised('ValueError: token already in a store')
                        d[at(a[0])] = a[1]
                        return None
                    if e.func.attr == 'splice' and len(a) == 3:
                        i, j = at(a[1]), at(a[2])
                        d[i:j + 1] = list(self.iter_of(a[0], e))
                        return None
                    if e.func.attr == 'remove' and len(a) == 1:
                        del d[at(a[0])]
                        return None
                    if e.func.attr in ('insert_after', 'insert_before') and len(a) == 2:
                        i = 0 if a[0] is None else at(a[0]) + (1 if e.func.attr == 'insert_after' else 0)
                        d[i:i] = list(self.iter_of(a[1], e))
                        return None
                    raise self.err(e, 'store call')
            return super().expr(e, env)

        def truth(self, v: Any, node: Any) -> bool:               # type: ignore[override]
            if isinstance(v, possem.Obj):
                return True
            return super().truth(v, node)

    def brace_fields(c: Any, cls_name: str) -> tuple[str, str, str]:
        fl = fields[cls_name]
        if len(fl) != 4:
            raise AnalysisError(f'COST-SEM: {cls_name}.__init__ takes {fl}, expected store, left brace, components, right brace')
        return fl[1], fl[2], fl[3]

    for cls_name, c, meth, other, kinds_from, kinds_to in (
            ('UnitCost', uc, 'into_total_cost', 'TotalCost', ('LeftBrace', 'RightBrace'), ('DblLeftBrace', 'DblRightBrace')),
            ('TotalCost', tc, 'into_unit_cost', 'UnitCost', ('DblLeftBrace', 'DblRightBrace'), ('LeftBrace', 'RightBrace'))):
        fn = c.lookup(meth)
        if not isinstance(fn, FuncInfo):
            raise AnalysisError(f'COST-SEM: {cls_name}.{meth} not found')
        lf, cf, rf = brace_fields(c, cls_name)
        problem: Optional[str] = None
        for n_comp in (0, 1, 3):
            store = possem.Obj('Store', {}, 'store')
            left = possem.Obj('Tok', {'type': brace_rule[kinds_from[0]]}, 'old left brace')
            right = possem.Obj('Tok', {'type': brace_rule[kinds_from[1]]}, 'old right brace')
            comps = [possem.Obj('Tok', {'type': 'COMP'}, f'component{i}') for i in range(n_comp)]
            ctx_l, ctx_r = possem.Obj('Tok', {'type': 'CTX'}, 'LEFT'), possem.Obj('Tok', {'type': 'CTX'}, 'RIGHT')
            doc = [ctx_l, left, *comps, right, ctx_r]
            before = list(doc)
            rep = possem.Obj('Repeated', {'items': list(comps)}, 'components')
            init = c.lookup('__init__')
            attr_of = {norm(a.value): a.targets[0].attr for a in ast.walk(init.node) if isinstance(a, ast.Assign) and len(a.targets) == 1
                       and isinstance(a.targets[0], ast.Attribute) and isinstance(a.value, ast.Name)}
            if not all(x in attr_of for x in (lf, cf, rf)):
                raise AnalysisError(f'COST-SEM: {cls_name}.__init__ does not store {lf}, {cf}, {rf} in attributes')
            me = possem.Obj(cls_name, {'_token_store': store, 'token_store': store, attr_of[lf]: left, attr_of[cf]: rep, attr_of[rf]: right}, 'the cost')
            for k, v in list(me.f.items()):
                me.f.setdefault(k.lstrip('_'), v)
                me.f.setdefault('raw_' + k.lstrip('_'), v)
            me.f['first_token'], me.f['last_token'] = left, right          # the extent of a cost: its braces (the generated edge properties)
            try:
                res = Interp(doc, mod).call_function(fn, [me], {})
            except possem.Raised as ex:
                problem = f'{n_comp} component(s): raises {ex}'
                break
            show = f'{n_comp} component(s); store afterwards: [{" ".join(x.label for x in doc)}]'
            if len(doc) != len(before) or any(a is not b for a, b in zip(doc[2:-2], before[2:-2])) or doc[0] is not ctx_l or doc[-1] is not ctx_r:
                problem = f'{show}: a token other than the two braces was touched'
                break
            nl, nr = doc[1], doc[-2]
            if nl is left or nr is right or nl.f.get('type') != brace_rule[kinds_to[0]] or nr.f.get('type') != brace_rule[kinds_to[1]]:
                problem = (f'{show}: where the left brace stood there is now {nl.label} ({nl.f.get("type")}), where the right brace stood {nr.label} ({nr.f.get("type")}); '
                           f'expected a fresh {brace_rule[kinds_to[0]]} and a fresh {brace_rule[kinds_to[1]]} -- a brace is left behind or the pair is crossed, the printed cost is not a cost')
                break
            if not (isinstance(res, possem.Obj) and res.cls == other):
                problem = f'{show}: returns {res!r}, not a {other}'
                break
            got = res.f['ctor']
            olf, ocf, orf = brace_fields(None, other)
            if got.get(fields[other][0]) is not store:
                problem = f'{show}: the {other} returned is not given the store of the cost it replaces'
                break
            if got.get(olf) is not nl or got.get(orf) is not nr:
                problem = (f'{show}: the {other} returned holds {getattr(got.get(olf), "label", got.get(olf))} / {getattr(got.get(orf), "label", got.get(orf))} as its braces; the tokens now in the '
                           f'store at those places are {nl.label} / {nr.label}: a model whose first / last token is not in its store (or is the other brace)')
                break
            if got.get(ocf) is not rep:
                problem = f'{show}: the {other} returned does not carry the components of the cost it replaces'
                break
        ctx.check(problem is None, rid, f'models.cost:{cls_name}.{meth}', problem or 'braces swapped in place', f'{cls_name}.{meth}: {problem}', fn.where,
                  note='0, 1 and 3 components')

    # CostSpec._into_unit_cost / _into_total_cost: what comes back is what the spec reads as its cost from then on
    cost_get = spec.lookup('raw_cost')
    for meth, prim in (('_into_unit_cost', 'into_unit_cost'), ('_into_total_cost', 'into_total_cost')):
        fn = spec.lookup(meth)
        if not isinstance(fn, FuncInfo):
            raise AnalysisError(f'COST-SEM: CostSpec.{meth} not found')
        marker = possem.Obj('NewCost', {}, 'the converted cost')
        old = possem.Obj('OldCost', {'result': marker}, 'the old cost')

        class SpecInterp(Interp):
            def expr(self, e: Any, env: dict) -> Any:             # type: ignore[override]
                if isinstance(e, ast.Call) and isinstance(e.func, ast.Attribute) and e.func.attr in ('into_unit_cost', 'into_total_cost'):
                    b = self.expr(e.func.value, env)
                    if b is old:
                        if e.func.attr != prim:
                            raise possem.Raised(f'AttributeError: the cost has no {e.func.attr}')
                        return marker
                return super().expr(e, env)

        me = possem.Obj('CostSpec', {'_cost': old}, 'the cost spec')
        problem = None
        try:
            SpecInterp([], spec_mod).call_function(fn, [me, old], {})
        except possem.Raised as ex:
            problem = f'raises {ex}'
        if problem is None and me.f.get('_cost') is not marker:
            problem = (f'afterwards the spec still holds {getattr(me.f.get("_cost"), "label", me.f.get("_cost"))} as its cost: the converted cost is dropped, the spec '
                       f'keeps a model whose braces are no longer in the store')
        ctx.check(problem is None, rid, f'models.cost_spec:CostSpec.{meth}', problem or 'stores the converted cost', f'CostSpec.{meth}: {problem}', fn.where)

    # merge setter
    mp = spec.attrs.get('merge')
    setter = getattr(mp, 'fset', None) or spec.lookup('merge[set]') if mp is not None else None
    getter = getattr(mp, 'fget', None) or spec.lookup('merge') if mp is not None else None
    cands = [f for f in p.functions_in(spec_mod) if f.cls is spec and f.name == 'merge']
    setter = next((f for f in cands if any(norm(d).endswith('.setter') for d in f.node.decorator_list)), None)
    getter = next((f for f in cands if any(norm(d) == 'property' for d in f.node.decorator_list)), None)
    if setter is None or getter is None:
        raise AnalysisError('COST-SEM: CostSpec.merge property (getter / setter) not found')
    problem = None
    for present in (True, False):
        for value in (True, False):
            star = possem.Obj('Tok', {'type': 'ASTERISK'}, 'the asterisk that is there')
            me = possem.Obj('CostSpec', {'raw_asterisk': star if present else None}, 'the cost spec')
            writes: list = []

            class MergeInterp(Interp):
                def expr(self, e: Any, env: dict) -> Any:         # type: ignore[override]
                    if isinstance(e, ast.Attribute) and e.attr == 'merge' and self.expr(e.value, env) is me:
                        return self.call_function(getter, [me], {})
                    if isinstance(e, ast.Call) and isinstance(e.func, ast.Attribute) and e.func.attr == 'from_default' and norm(e.func.value).endswith('Asterisk'):
                        return possem.Obj('Tok', {'type': 'ASTERISK', 'fresh': True}, 'a new asterisk')
                    return super().expr(e, env)

                def assign(self, t: Any, v: Any, env: dict) -> None:      # type: ignore[override]
                    if isinstance(t, ast.Attribute) and self.expr(t.value, env) is me:
                        writes.append((t.attr, v))
                    super().assign(t, v, env)

            try:
                MergeInterp([], spec_mod).call_function(setter, [me, value], {})
            except possem.Raised as ex:
                problem = problem or f'asterisk {"present" if present else "absent"}, merge = {value}: raises {ex}'
                continue
            now = me.f.get('raw_asterisk')
            if (now is not None) != value:
                problem = problem or f'asterisk {"present" if present else "absent"}, merge = {value}: afterwards the asterisk is {"present" if now is not None else "absent"}'
            elif present and value and now is not star:
                problem = problem or 'merge = True on a cost that already has its asterisk replaces the token that is there (its spacing and comments go with it)'
            elif present == value and writes:
                problem = problem or f'merge = {value} on a cost that is already so writes {writes[0][0]}'
    ctx.check(problem is None, rid, 'models.cost_spec:CostSpec.merge[set]', problem or 'presence follows the value', f'CostSpec.merge setter: {problem}', setter.where,
              note='4 (present?, value) pairs')
